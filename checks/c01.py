"""C01  Every sampled point lies in the domain it was sampled from."""
from __future__ import annotations

import torch
import z3
import torchphysics as tp
from torchphysics.problem.spaces.points import Points

from symtorch.harness import Case
from . import shapes as SH

TAU = 2e-4

META = dict(
    level="model_checking",
    bounds="catalogue shapes (primitives, parameter-dependent primitives, one Boolean operation, products incl. dependent, "
           "translated/rotated; thorough: Sphere, nesting 2) and their boundaries; sample_random_uniform / sample_grid with "
           "n<=2 (quick) / n<=4 (thorough), k<=2 parameter rows; RandomUniform/Grid/Gaussian/LHS/adaptive samplers with and "
           "without filter; every random draw and every accept/reject outcome symbolic; rejection loops unwound to the stated "
           "fork bounds (paths beyond are reported as unwound, not as success)",
    outside=["almost-sure termination of rejection sampling (only: loop exits are reachable and no feasible path raises)",
             "shapely/trimesh primitives", "float rounding", "n, k above the bounds"],
    assumptions=["shapes have positive measure", "composite boundaries: |parameters| <= 16 and tolerance band 2e-4 (isclose-based filters)"],
)


def _split_rows(env, pts, space_vars, pvars):
    """rows of returned Points -> (coordinates in space_vars order, param dict) using the returned space"""
    t = pts.as_tensor
    names = list(pts.space.keys())
    dims = [pts.space[n] for n in names]
    return names, dims


def _rows(o_pts, names, dims, space_vars, pvars):
    out = []
    offs = {}
    k = 0
    for n, d in zip(names, dims):
        offs[n] = (k, d)
        k += d
    for r in o_pts:
        p = []
        for n, d in space_vars:
            a, dd = offs[n]
            p += r[a:a + dd]
        prm = {}
        for n, d in pvars:
            if n in offs:
                a, dd = offs[n]
                prm[n] = r[a:a + dd]
        out.append((p, prm))
    return out


def _termination_premise(env, sh, rows, tag="wit"):
    """premise of the termination twin (harness): for every parameter row the set has an interior point (a symbolic
    witness at distance > 0.01 from the complement), i.e. there is something to sample"""
    if not env.symbolic:
        return
    d = sum(dd for _, dd in sh.space_vars)
    w = env.tensor(tag, (len(rows), d))
    el = SH.elems(env, w)
    f = env.L.And([sh.oset.interior(el[i * d:(i + 1) * d], prm, env.L, 0.01) for i, prm in enumerate(rows)])
    old = getattr(env.ctx, "termination_premise", None)
    env.ctx.termination_premise = f if old is None else z3.And(old, f)


def domain_case(name, mk, info, method, n, k, boundary):
    cname = "%s/%s/%s/n%d/k%d" % ("bsample" if boundary else "sample", name, method, n, k)
    composite = info.get("fam") in ("bool", "nested")
    heavy = composite or info.get("dependent")

    def body(env):
        sh = mk(env)
        P, rows = SH.params(env, sh.pvars, k)
        L = env.L
        for prm in rows:
            env.assume(sh.oset.positive(prm, L))
        if boundary and composite:
            SH.bound_all_inputs(env, 16, rows)
        _termination_premise(env, sh, rows)
        d = sh.dom.boundary if boundary else sh.dom
        f = d.sample_random_uniform if method == "random" else d.sample_grid
        pts = f(n=n, params=P)
        names, dims = list(pts.space.keys()), [pts.space[v] for v in pts.space]
        return dict(pts=pts, names=names, dims=dims, sh=sh, rows=rows, nrows=len(pts))

    def goals(o, L, env):
        sh, rows = o["sh"], o["rows"]
        want = n * max(k, 1)
        # a parameter-INDEPENDENT domain asked directly with k rows may answer with n rows (Interval, polygons, sphere
        # surface) or with n*k rows (Circle): the samplers repeat / join the rows themselves (C02 checks their counts)
        independent = not c05_dep(info, name)
        yield "row_count", o["nrows"] == want or (independent and o["nrows"] == n)
        space_ok = o["names"] == [v for v, _ in sh.space_vars]
        yield "space", space_ok
        if not space_ok:
            return
        rr = _rows(o["pts"], o["names"], o["dims"], sh.space_vars, [])
        for i, (p, _) in enumerate(rr):
            prm = rows[min(i // n, len(rows) - 1)] if k else {}
            if boundary:
                yield "on_boundary[row%d]" % i, sh.oset.boundary_band(p, prm, L, TAU if composite else 0)
            else:
                yield "in_closed_set[row%d]" % i, sh.oset.closure(p, prm, L, 0)

    return Case(cname, body, goals, family="%s/%s/%s" % ("bsample" if boundary else "sample", name, method),
                params=dict(shape=name, method=method, n=n, k=k, boundary=boundary, **info),
                max_paths=96 if heavy else 48, max_forks_per_site=8 if heavy else 6, max_decisions=64)


def sampler_case(skind, name, mk, info, n, k, filt):
    cname = "sampler/%s/%s/n%d/k%d%s" % (skind, name, n, k, "/filter" if filt else "")

    def body(env):
        sh = mk(env)
        P, rows = SH.params(env, sh.pvars, k)
        L = env.L
        for prm in rows:
            env.assume(sh.oset.positive(prm, L))
        fa = fb = None
        filter_fn = None
        if filt:
            fa = env.tensor("fa", ())
            fb = env.tensor("fb", ())
            first = sh.space_vars[0][0]
            if first == "x":
                def filter_fn(x):
                    return (x[:, :1] * fa <= fb)
            else:
                def filter_fn(t):
                    return (t[:, :1] * fa <= fb)
        S = tp.samplers
        if skind == "random":
            s = S.RandomUniformSampler(sh.dom, n_points=n, filter_fn=filter_fn)
        elif skind == "grid":
            s = S.GridSampler(sh.dom, n_points=n, filter_fn=filter_fn)
        elif skind == "gauss":
            dim = sum(d for _, d in sh.space_vars)
            mean = env.tensor("gm", (dim,))
            std = env.tensor("gs", ())
            env.assume(L.gt(SH.elems(env, std)[0], 0))
            s = S.GaussianSampler(sh.dom, n_points=n, mean=mean, std=std)
        elif skind == "lhs":
            s = S.LHSSampler(sh.dom, n_points=n)
        elif skind == "adaptive_threshold":
            s = S.AdaptiveThresholdRejectionSampler(sh.dom, resample_ratio=0.5, n_points=n)
        elif skind == "adaptive_random":
            s = S.AdaptiveRandomRejectionSampler(sh.dom, n_points=n)
        else:
            raise ValueError(skind)
        if skind.startswith("adaptive"):
            s.sample_points(params=P)
            loss = env.tensor("loss", (n * max(k, 1),))
            P2 = P
            if k:  # the next call comes with OTHER parameter rows: kept points stay paired with the rows they were drawn for
                P2, rows2 = SH.params(env, sh.pvars, k, tag="prm2")
                for prm in rows2:
                    env.assume(sh.oset.positive(prm, L))
            pts = s.sample_points(unreduced_loss=loss, params=P2)
        else:
            pts = s.sample_points(P)
        names, dims = list(pts.space.keys()), [pts.space[v] for v in pts.space]
        fvals = (SH.elems(env, fa)[0], SH.elems(env, fb)[0]) if filt else None
        return dict(pts=pts, names=names, dims=dims, sh=sh, rows=rows, nrows=len(pts), f=fvals)

    def goals(o, L, env):
        sh = o["sh"]
        pv = sh.pvars if k else []
        have = set(o["names"])
        yield "space_has_domain_and_params", all(v in have for v, _ in sh.space_vars) and all(v in have for v, _ in pv)
        if not all(v in have for v, _ in sh.space_vars):
            return
        rr = _rows(o["pts"], o["names"], o["dims"], sh.space_vars, pv)
        yield "some_rows", len(rr) >= 1
        for i, (p, prm) in enumerate(rr):
            yield "in_closed_set[row%d]" % i, sh.oset.closure(p, prm, L, 0)
            if o["f"] is not None:
                fa, fb = o["f"]
                yield "filter_respected[row%d]" % i, L.le(p[0] * fa, fb)

    return Case(cname, body, goals, family="sampler/%s/%s" % (skind, name),
                params=dict(sampler=skind, shape=name, n=n, k=k, filter=filt, **info),
                max_paths=96, max_forks_per_site=8, max_decisions=64)


def history_case(kind, method, n, boundary, wrap=None):
    """second use: two shapes A and B of one kind (different symbolic parameters) are sampled in turn with the same
    method and count -- A, B, A again (and, wrap='translate': through two Translate wrappers sharing the inner object A,
    then A itself): every sample lies in the set of the object it was asked from (a memo shared between objects or calls,
    or a result written into a cached tensor, would show in the later samples)"""
    cname = "history/%s%s/%s/%s/n%d" % ("b" if boundary else "", kind, "via_translate" if wrap else "A_B_A", method, n)

    def body(env):
        L = env.L
        a = SH.PRIMS[kind](env, tag="A")
        b = SH.PRIMS[kind](env, tag="B")
        for sh in (a, b):
            env.assume(sh.oset.positive({}, L))
        if wrap:
            t1, t2 = SH.translate(env, a, tag="tr1"), SH.translate(env, a, tag="tr2")
            seq = [t1, t2, t1, a]
        else:
            seq = [a, b, a]
        outs = []
        for sh in seq:
            d = sh.dom.boundary if boundary else sh.dom
            pts = (d.sample_random_uniform if method == "random" else d.sample_grid)(n=n)
            outs.append((sh, pts.as_tensor, len(pts)))
        return dict(outs=outs)

    def goals(o, L, env):
        for j, (sh, pts, m) in enumerate(o["outs"]):
            yield "row_count[call%d]" % j, m == n
            for i, p in enumerate(pts):
                if boundary:
                    yield "on_boundary[call%d,row%d]" % (j, i), sh.oset.boundary_band(p, {}, L, 0)
                else:
                    yield "in_closed_set[call%d,row%d]" % (j, i), sh.oset.closure(p, {}, L, 0)

    return Case(cname, body, goals, family="history/" + kind, params=dict(kind=kind, method=method, n=n, boundary=boundary, wrap=wrap),
                max_paths=48, max_forks_per_site=6, max_decisions=64)


def cases(tier):
    cs = []
    cat = SH.catalog(tier)
    quick = tier == "quick"
    ns_rand = (1, 2) if quick else (1, 2, 3)
    for name, mk, info in cat:
        dep = c05_dep(info, name)
        ks = (2,) if dep else ((0, 2) if not quick else (0,))
        if dep and not quick:
            ks = (1, 2)
        prod = info.get("fam") == "product"
        poly = any(p in name for p in ("Parallelogram", "Triangle"))
        ns_grid = ((2,) if poly else (2, 3)) if quick else (1, 2, 4, 5)
        heavy2d = info.get("fam") in ("bool", "nested", "transform") and "Interval" not in name
        ns_r = ns_rand
        if not quick and (heavy2d or poly):
            # sized by wall time: 2-D Boolean combinations / polygons cost minutes per case (non-linear accept/reject forks)
            ns_r, ns_grid = (1, 2), ((2,) if heavy2d else (2, 4))
            if heavy2d:
                ks = ks[-1:]
        for k in ks:
            for n in ns_r:
                cs.append(domain_case(name, mk, info, "random", n, k, False))
            if not prod:
                for n in ns_grid:
                    cs.append(domain_case(name, mk, info, "grid", n, k, False))
        if prod:
            continue
        if quick and info.get("fam") in ("bool", "nested") and "Interval" not in name:
            continue  # boundary sampling of 2-D Boolean combinations: thorough tier (heavy non-linear queries)
        kb = ks[-1]
        for n in (ns_rand if quick or not (heavy2d or poly) else (2,)):
            cs.append(domain_case(name, mk, info, "random", n, kb, True))
        cs.append(domain_case(name, mk, info, "grid", ns_grid[-1], kb, True))
    # smallest counts of the sphere surface lattice (n-1 appears in a denominator)
    sph = ("Sphere", (lambda env: SH.sphere(env)), dict(kind="Sphere", fam="prim"))
    for n in (1, 2):
        cs.append(domain_case(sph[0], sph[1], sph[2], "grid", n, 0, True))
    # a shape function with an OPTIONAL argument (declared default) whose value arrives through the parameter rows
    from .c17 import circle_optional_s
    opt = ("Circle[r(t,s=1)]", circle_optional_s, dict(kind="Circle", fam="dep", dep=True))
    for method, n in (("random", 2), ("grid", 2)):
        cs.append(domain_case(opt[0], opt[1], opt[2], method, n, 2, False))
    cs.append(domain_case(opt[0], opt[1], opt[2], "random", 2, 2, True))
    # second use of objects / several objects of one kind in turn
    for kind in ("Interval", "Circle", "Sphere") + (("Parallelogram",) if not quick else ()):
        for method in ("grid", "random"):
            cs.append(history_case(kind, method, 2, True))
            if kind != "Sphere" or not quick:
                cs.append(history_case(kind, method, 2, False))
    for kind in ("Circle",) + (("Interval", "Parallelogram") if not quick else ()):
        cs.append(history_case(kind, "grid", 3, False, wrap="translate"))
        cs.append(history_case(kind, "random", 2, False, wrap="translate"))
    # point samplers over a few representative shapes
    reps = [c for c in cat if c[0] in ("Interval", "Circle", "Parallelogram", "Circle[t]", "(Circle-Parallelogram)")]
    for name, mk, info in reps:
        dep = c05_dep(info, name)
        k = 2 if dep else 0
        simple = name in ("Interval", "Circle", "Parallelogram")
        for skind in ("random", "grid"):
            for filt in (False, True):
                if quick and filt and name not in ("Interval", "Circle"):
                    continue
                cs.append(sampler_case(skind, name, mk, info, 2, k, filt))
        if name == "Circle[t]" or (name == "Interval[t]" and not quick):
            cs.append(sampler_case("adaptive_threshold", name, mk, info, 2, 2, False))
            cs.append(sampler_case("adaptive_random", name, mk, info, 2, 2, False))
            cs.append(sampler_case("gauss", name, mk, info, 2, 2, False))  # every row's points in the set of THAT row
        if simple:
            cs.append(sampler_case("gauss", name, mk, info, 2, 0, False))
            cs.append(sampler_case("lhs", name, mk, info, 2, 0, False))
            cs.append(sampler_case("adaptive_threshold", name, mk, info, 2, 0, False))
            cs.append(sampler_case("adaptive_random", name, mk, info, 2, 0, False))
        if not quick:
            cs.append(sampler_case("random", name, mk, info, 3, 2, True))
            cs.append(sampler_case("lhs", name, mk, info, 3, k, False))
    if not quick:
        for c in cs:
            if c.budget_s is None:
                c.budget_s = 300  # thorough: 5 minutes per case (quick: 75 s)
    for c in cs:
        c.must_terminate = True  # "the sampling call terminates": paths beyond the unwinding bound are replayed with a time limit
    if quick:
        for c in cs:
            c.max_forks_per_site = min(c.max_forks_per_site, 3)
            c.max_paths = min(c.max_paths, 40)
            c.budget_s = 75
    return cs


def c05_dep(info, name):
    return bool(info.get("fam") == "dep" or info.get("dep") or info.get("dependent") or "[t]" in name)
