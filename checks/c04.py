"""C04  A condition's loss is reduce(error(residual)) on exactly its sampled points.

Every case builds a REAL condition around
  * a real `tp.models.FCN` (one hidden layer, activation z -> z*z) whose weights are symbolic,
  * a sampler whose produced points are symbolic and recorded (a `FixedSampler` returning symbolic
    Points, the real `DataSampler`, or the real `RandomUniformSampler` over real Intervals whose draws
    are the engine's rand symbols), static or not,
  * a real learnable `Parameter` with symbolic value, data functions a*x + b*t + c with symbolic
    coefficients (and a constant tensor), all generated with signatures whose order differs from the
    order of the sampler's space and of the model's input space,
  * a generated residual function that stores what it receives (and `tp.utils.grad` of the outputs).
The goals are z3 identities over all symbols: every named argument equals coordinates / model output /
parameter / data function AT THE ROWS THE SAMPLER PRODUCED, `grad(u, x)` equals the analytic derivative,
and the returned loss equals the documented reduction recomputed by an independent oracle from the
produced points (oracle: checks/condkit.py:FcnOracle, LinFn.value and the formulas below).
"""
from __future__ import annotations

import itertools

import torch
import torchphysics as tp
from torchphysics.problem.spaces import Space
from torchphysics.problem.spaces.points import Points
from torchphysics.problem.conditions import condition as C
from torchphysics.problem.conditions.deeponet_condition import PIDeepONetCondition, DeepONetDataCondition

from symtorch.harness import Case
from . import shapes as SH
from . import condkit as K

META = dict(
    level="model_checking",
    bounds="conditions PINN/Mean/DeepRitz/AdaptiveWeights/SingleModule(custom polynomial error+weighted-sum reduce)/"
           "HPM_at_Sampler/HPM_at_DataPoints/Periodic/IntegroPINN/Data/Parameter/PIDeepONet/DeepONetData/VariationalPINN (stub "
           "test-function set); model = real FCN, 1 hidden layer of 2 neurons (DeepONet trunk/branch: 1) with activation z*z, "
           "all weights symbolic; n in {2,3} sampled points (integral points, input functions, discretisation points: 2), every "
           "coordinate symbolic; variables x (dim 1 or 2), t, s; orders of the sampler space x orders of the model input space: "
           "quick 2 (+2 with three variables), thorough all 4 for two variables and all 6 sampler orders for three; 1 or 2 output "
           "components in either order; samplers: fixed symbolic points (static / not), real DataSampler (static / not), real "
           "RandomUniformSampler (static / not) over intervals with symbolic bounds, 1-2 evaluations; with/without learnable "
           "Parameter, data function, constant data tensor; residual = fixed polynomial in its arguments and their derivatives, "
           "or ('freeres') arbitrary fresh symbols per row and component; data conditions: norm 1/2/inf, root 1/2, iterating "
           "(up to 3 calls over 2 batches) / full data set of 2 batches, with/without constrain_fn, real PointsDataLoader / "
           "DeepONetDataLoader",
    outside=["models other than the one-hidden-layer polynomial FCN / DeepONet (the conditions never look inside the model)",
             "more than 3 points / 3 variables / 2 output components", "adaptive samplers (C15)",
             "FE / harmonic function sets (VariationalPINNCondition is run with a stub test-function set)",
             "devices other than cpu", "HPCMCondition",
             "use_full_dataset is compared with the per-batch aggregation the code documents (mean of the batch means), as in "
             "C16; batches of unequal size are not compared with the data-set-wide mean",
             "PIDeepONetCondition: the reduction is decided for arbitrary residual values (freeres), not for a polynomial residual"],
    assumptions=["interval bounds of the random-sampler cases satisfy lb < ub",
                 "data targets are given in the model's output space (documented precondition of DataCondition)",
                 "a data value that is constant along an axis may arrive with extent 1 on that axis (broadcasts to the rows)"],
)

DIMS1 = {"x": 1, "t": 1, "s": 1, "u": 1, "v": 1, "p": 1, "q": 1}
DIMS2 = dict(DIMS1, x=2)


def _rsig(S, outs, has_f, has_c, has_p):
    """residual signature: an order different from the sampler space, the model's spaces and the call order"""
    rs = list(reversed(S))
    sig = (["f"] if has_f else []) + (["v"] if "v" in outs else []) + rs[:1] + (["p"] if has_p else []) + \
          (["c"] if has_c else []) + (["u"] if "u" in outs else []) + rs[1:]
    return sig


# --------------------------------------------------------------------------
# samplers of a case
# --------------------------------------------------------------------------


def _mk_sampler(env, kind, S, dims, n):
    """-> (sampler handed to the condition, recorder with .produced, space of the points)"""
    sp = K.space_of(S, dims)
    static = kind.endswith("_static")
    base = kind[:-7] if static else kind
    if base == "fixed":
        rec = K.FixedSampler(K.fixed_points(env, "pts", S, dims, n))
    elif base == "data":
        rec = K.record(tp.samplers.DataSampler(K.fixed_points(env, "pts", S, dims, n)))
    elif base == "random":
        dom = None
        for v in S:
            assert dims[v] == 1
            sh = SH.interval(env, tag="I" + v, var=v)
            SH.assume_positive(env, sh, [{}])
            dom = sh.dom if dom is None else dom * sh.dom
        rec = K.record(tp.samplers.RandomUniformSampler(dom, n_points=n))
    elif base == "gridfill":
        # GridSampler whose grid does not fit n: the remainder is filled with fresh random points on every call
        assert tuple(S) == ("x",) and dims["x"] == 2
        sh = SH.parallelogram(SH.ConcShapeEnv(env), tag="P", var="x")
        rec = K.record(tp.samplers.GridSampler(sh.dom, n_points=n))
    else:
        raise ValueError(kind)
    smp = rec.make_static() if static else rec
    return smp, rec, sp


# --------------------------------------------------------------------------
# family 1: single-module conditions
# --------------------------------------------------------------------------

SINGLE = ("PINN", "Mean", "DeepRitz", "Adaptive", "Custom", "HPMSampler")


def single_case(cond, S, M, outs, kind, has_p=True, has_f=True, has_c=False, xdim=1, n=2, calls=1, free=False, declared=None,
                warm_order=None):
    """free=True: the residual returns fresh symbols R (an ARBITRARY residual value per row and component) after recording
    what it received; the loss must then be the documented reduction of R"""
    name = "single/%s/S=%s/M=%s/out=%s/%s/x%d/n%d%s%s%s%s%s" % (
        cond, "".join(S), "".join(M), "".join(outs), kind, xdim, n, "/p" if has_p else "", "/f" if has_f else "",
        "/c" if has_c else "", "/calls%d" % calls if calls > 1 else "", "/freeres" if free else "")
    # declared: {name: default} -- trailing residual parameters with declared defaults that nobody supplies
    declared = dict(declared or {})
    if declared:
        name += "/declared_defaults=" + ",".join(declared)
    if warm_order:
        # history: the SAME model object was evaluated before on points whose variables come in yet another order
        # (another condition sharing the model, with its own sampler)
        name += "/model_used_before_with_order_" + "".join(warm_order)
    dims = DIMS2 if xdim == 2 else DIMS1
    use_model = cond != "HPMSampler"
    outs_eff = tuple(outs) if use_model else ()

    def body(env):
        L = env.L
        model, orc = K.sym_fcn(env, "m", K.space_of(M, dims), K.space_of(outs, dims))
        smp, recorder, sp = _mk_sampler(env, kind, S, dims, n)
        if warm_order:
            model(K.fixed_points(env, "warm_pts", tuple(warm_order), dims, n))
        prm, prm_o = (K.sym_parameter(env, "p", Space({"p": 1})) if has_p else (None, {}))
        f = K.LinFn(env, "f", list(reversed(S)), dims) if has_f else None
        c_t = env.tensor("c", (n, 1)) if has_c else None
        wgt = env.tensor("wgt", ())
        rec = []
        sig = _rsig(S, outs_eff, has_f, has_c, has_p)
        ncomp = len(outs_eff) if use_model else 1
        R_t = [env.tensor("R%d" % ci, (n, ncomp)) for ci in range(calls)] if free else None

        got_declared = []

        def impl(**kw):
            got_declared.append({k: kw.pop(k) for k in declared})
            e = dict(kw)
            r0 = None
            if "u" in kw:
                e["du_dx"] = tp.utils.grad(kw["u"], kw["x"])
                r0 = e["du_dx"].sum(dim=-1, keepdim=True) + 3 * kw["u"]
            else:
                r0 = (kw["x"] * kw["t"]).sum(dim=-1, keepdim=True)
            if has_f:
                r0 = r0 - kw["f"]
            if has_p:
                r0 = r0 + kw["p"] * kw["t"]
            if has_c:
                r0 = r0 + kw["c"]
            res = r0
            if "v" in kw:
                e["dv_dt"] = tp.utils.grad(kw["v"], kw["t"])
                r1 = kw["v"] - 2 * kw["t"] + e["dv_dt"]
                res = torch.cat([r0, r1], dim=-1)
            if free:
                res = R_t[len(rec)]
            rec.append(e)
            return res

        residual = K.make_fn(sig + list(declared), impl, "residual", defaults=declared)
        dfs = {}
        if has_f:
            dfs["f"] = f.fn
        if has_c:
            dfs["c"] = c_t
        kw = dict(data_functions=dfs, weight=wgt)
        if has_p:
            kw["parameter"] = prm
        extra = {}
        if cond == "PINN":
            cnd = C.PINNCondition(model, smp, residual, **kw)
        elif cond == "Mean":
            cnd = C.MeanCondition(model, smp, residual, **kw)
        elif cond == "DeepRitz":
            cnd = C.DeepRitzCondition(model, smp, residual, **kw)
        elif cond == "Adaptive":
            cnd = C.AdaptiveWeightsCondition(model, smp, residual, **kw)
            aw = env.tensor("aw", (n,))
            with torch.no_grad():
                cnd.adaptive_layer.weight.copy_(aw)
            extra["aw"] = SH.elems(env, aw)
        elif cond == "Custom":
            ew, eb, rw = env.tensor("ew", (ncomp,)), env.tensor("eb", (ncomp,)), env.tensor("rw", (n,))
            cnd = C.SingleModuleCondition(model, smp, residual, error_fn=lambda r: torch.sum(ew * r * r + eb * r, dim=1),
                                          reduce_fn=lambda e: torch.sum(e * rw), **kw)
            extra.update(ew=SH.elems(env, ew), eb=SH.elems(env, eb), rw=SH.elems(env, rw))
        elif cond == "HPMSampler":
            cnd = C.HPM_EquationLoss_at_Sampler(model, smp, residual, **kw)
        else:
            raise ValueError(cond)
        losses = [cnd(), ] + [cnd() for _ in range(calls - 1)]
        # ---- oracle, from the points the sampler produced ---------------------------------
        want_args, want_loss = [], []
        static = kind.endswith("_static")
        for ci in range(calls):
            produced = recorder.produced[0 if static else min(ci + (len(recorder.produced) - calls), len(recorder.produced) - 1)]
            rows = K.rows_by_name(_rows(env, produced), produced.space)
            wa = {k: [] for k in sig}
            wa.update({k: [] for k in (("du_dx",) if "u" in outs_eff else ()) + (("dv_dt",) if "v" in outs_eff else ())})
            resid = []
            for i, co in enumerate(rows):
                vals = dict(co)
                if use_model:
                    y = orc.value(co)
                    for o in outs_eff:
                        vals[o] = y[o]
                if has_f:
                    vals["f"] = [f.value(co)]
                if has_c:
                    vals["c"] = [SH.elems(env, c_t)[i]]
                for k in sig:
                    if k != "p":
                        wa[k].append(vals[k])
                if "u" in outs_eff:
                    du = orc.deriv(co, "u", 0, "x")
                    wa["du_dx"].append(du)
                    r0 = sum(du) + 3 * vals["u"][0]
                else:
                    r0 = sum(xc * co["t"][0] for xc in co["x"])
                if has_f:
                    r0 = r0 - vals["f"][0]
                if has_p:
                    r0 = r0 + prm_o["p"][0] * co["t"][0]
                if has_c:
                    r0 = r0 + vals["c"][0]
                rr = [r0]
                if "v" in outs_eff:
                    dv = orc.deriv(co, "v", 0, "t")
                    wa["dv_dt"].append(dv)
                    rr.append(vals["v"][0] - 2 * co["t"][0] + dv[0])
                if free:
                    rr = SH.elems(env, R_t[ci])[i * ncomp:(i + 1) * ncomp]
                resid.append(rr)
            if has_p:
                wa["p"] = [prm_o["p"]]
            want_args.append(wa)
            if cond in ("PINN", "HPMSampler"):
                wl = K.mean(sum(r * r for r in rr) for rr in resid)
            elif cond in ("Mean", "DeepRitz"):
                wl = K.mean(r for rr in resid for r in rr)
            elif cond == "Adaptive":
                wl = K.mean(extra["aw"][i] * sum(r * r for r in rr) for i, rr in enumerate(resid))
            else:
                wl = sum(extra["rw"][i] * sum(extra["ew"][c] * r * r + extra["eb"][c] * r for c, r in enumerate(rr))
                         for i, rr in enumerate(resid))
            want_loss.append(wl)
        got_args = rec
        return dict(losses=[l.reshape(1) for l in losses], loss_numel=[l.numel() for l in losses], got=got_args, want=want_args,
                    want_loss=want_loss, n_res_calls=len(rec), produced=len(recorder.produced),
                    weight_kept=cnd.weight is wgt, static=static, got_declared=got_declared)

    def goals(o, L, env):
        yield "residual_called_once_per_forward", o["n_res_calls"] == calls
        yield "weight_not_applied_but_kept", o["weight_kept"]
        if o["static"]:
            yield "static_sampler_sampled_once", o["produced"] == 1
        if o["n_res_calls"] != calls:
            return
        for ci, gd in enumerate(o["got_declared"]):
            for k, v in declared.items():
                yield "absent_optional_argument_gets_its_declared_default[%s,call%d]" % (k, ci), type(gd[k]) is type(v) and gd[k] == v
        for ci in range(calls):
            g, w = o["got"][ci], o["want"][ci]
            yield "receives_exactly_its_signature[call%d]" % ci, sorted(g) == sorted(w)
            for k in sorted(w):
                if k in g:
                    yield from K.cells_eq(L, "arg_%s[call%d]" % (k, ci), g[k], w[k])
            yield "loss_is_scalar[call%d]" % ci, o["loss_numel"][ci] == 1
            if o["loss_numel"][ci] == 1:
                yield "loss_is_documented_reduction[call%d]" % ci, L.eq(o["losses"][ci][0], o["want_loss"][ci])

    return Case(name, body, goals, family="single/" + cond,
                params=dict(cond=cond, S=S, M=M, outs=outs, sampler=kind, p=has_p, f=has_f, c=has_c, xdim=xdim, n=n, calls=calls,
                            free_residual=free))


def _rows(env, pts):
    """formula-level rows of a Points object (batch dims flattened)"""
    t = pts.as_tensor
    d = t.shape[-1]
    el = SH.elems(env, t)
    return [el[i * d:(i + 1) * d] for i in range(len(el) // d)]


# --------------------------------------------------------------------------
# family 2: PeriodicCondition (left / right point sets)
# --------------------------------------------------------------------------


def periodic_case(M, outs, kind, nonper=("t",), has_p=True, has_f=True, n=2):
    name = "periodic/M=%s/out=%s/%s/nonper=%s/n%d%s%s" % ("".join(M), "".join(outs), kind, "".join(nonper) or "none", n,
                                                         "/p" if has_p else "", "/f" if has_f else "")
    dims = DIMS1
    static = kind.endswith("_static")

    def body(env):
        model, orc = K.sym_fcn(env, "m", K.space_of(M, dims), K.space_of(outs, dims))
        lb_t, ub_t = env.tensor("lb", ()), env.tensor("ub", ())
        lb, ub = SH.elems(env, lb_t)[0], SH.elems(env, ub_t)[0]
        interval = tp.domains.Interval(Space({"x": 1}), lb_t, ub_t)
        recorder = None
        kw = {}
        if nonper:
            recorder = K.FixedSampler(K.fixed_points(env, "pts", nonper, dims, n))
            kw["non_periodic_sampler"] = recorder.make_static() if static else recorder
        nrow = n if nonper else 1
        prm, prm_o = (K.sym_parameter(env, "p", Space({"p": 1})) if has_p else (None, {}))
        if has_p:
            kw["parameter"] = prm
        f = K.LinFn(env, "f", list(reversed(nonper)) + ["x"], dims) if has_f else None
        if has_f:
            kw["data_functions"] = {"f": f.fn}
        rec = []
        sig = (["f_right"] if has_f else []) + list(reversed(nonper)) + ["u_left"] + (["p"] if has_p else []) + ["x_right"] + \
              (["f_left"] if has_f else []) + (["v_right", "v_left"] if "v" in outs else []) + ["u_right", "x_left"]

        def impl(**a):
            e = dict(a)
            e["du_left"] = tp.utils.grad(a["u_left"], a["x_left"])
            e["du_right"] = tp.utils.grad(a["u_right"], a["x_right"])
            r0 = a["u_left"] - 2 * a["u_right"] + e["du_left"] - 5 * e["du_right"]
            if has_f:
                r0 = r0 + a["f_left"] - 3 * a["f_right"]
            if has_p:
                r0 = r0 + a["p"] * (a["x_right"] - 7 * a["x_left"])
            if nonper:
                r0 = r0 + a[nonper[0]]
            res = r0
            if "v" in outs:
                res = torch.cat([r0, a["v_left"] * a["v_right"]], dim=-1)
            rec.append(e)
            return res

        cnd = C.PeriodicCondition(model, interval, K.make_fn(sig, impl, "residual"), **kw)
        loss = cnd()
        # ---- oracle
        if nonper:
            produced = recorder.produced[0 if static else -1]
            brows = K.rows_by_name(_rows(env, produced), produced.space)
        else:
            brows = [{}]
        wa = {k: [] for k in sig + ["du_left", "du_right"]}
        resid = []
        for co in brows:
            side = {"left": dict(co, x=[lb]), "right": dict(co, x=[ub])}
            val = {}
            for sd, cs in side.items():
                y = orc.value(cs)
                for o_ in outs:
                    val[o_ + "_" + sd] = y[o_]
                val["x_" + sd] = cs["x"]
                val["du_" + sd] = orc.deriv(cs, "u", 0, "x")
                if has_f:
                    val["f_" + sd] = [f.value(cs)]
            for v in nonper:
                val[v] = co[v]
            for k in wa:
                if k != "p":
                    wa[k].append(val[k])
            r0 = val["u_left"][0] - 2 * val["u_right"][0] + val["du_left"][0] - 5 * val["du_right"][0]
            if has_f:
                r0 = r0 + val["f_left"][0] - 3 * val["f_right"][0]
            if has_p:
                r0 = r0 + prm_o["p"][0] * (ub - 7 * lb)
            if nonper:
                r0 = r0 + co[nonper[0]][0]
            rr = [r0]
            if "v" in outs:
                rr.append(val["v_left"][0] * val["v_right"][0])
            resid.append(rr)
        if has_p:
            wa["p"] = [prm_o["p"]]
        want_loss = K.mean(sum(r * r for r in rr) for rr in resid)
        return dict(loss=loss.reshape(1), numel=loss.numel(), got=rec, want=wa, want_loss=want_loss, nrow=nrow)

    def goals(o, L, env):
        yield "residual_called_once", len(o["got"]) == 1
        if len(o["got"]) != 1:
            return
        g, w = o["got"][0], o["want"]
        yield "receives_exactly_its_signature", sorted(g) == sorted(w)
        for k in sorted(w):
            if k in g:
                yield from K.cells_eq(L, "arg_%s" % k, g[k], w[k])
        yield "loss_is_scalar", o["numel"] == 1
        if o["numel"] == 1:
            yield "loss_is_documented_reduction", L.eq(o["loss"][0], o["want_loss"])

    return Case(name, body, goals, family="periodic/" + ("static" if static else "nonstatic"),
                params=dict(M=M, outs=outs, sampler=kind, nonper=nonper, p=has_p, f=has_f, n=n))


# --------------------------------------------------------------------------
# family 3: IntegroPINNCondition (second, integral point set)
# --------------------------------------------------------------------------


def integro_case(S, M, outs, kind, has_p=True, has_f=True, n=2, nint=2):
    name = "integro/S=%s/M=%s/out=%s/%s/n%d_int%d%s%s" % ("".join(S), "".join(M), "".join(outs), kind, n, nint,
                                                          "/p" if has_p else "", "/f" if has_f else "")
    dims = DIMS1
    static = kind.endswith("_static")

    def body(env):
        model, orc = K.sym_fcn(env, "m", K.space_of(M, dims), K.space_of(outs, dims))
        recorder = K.FixedSampler(K.fixed_points(env, "pts", S, dims, n))
        smp = recorder.make_static() if static else recorder
        irec = K.FixedSampler(K.fixed_points(env, "ipts", ("x",), dims, nint))
        prm, prm_o = (K.sym_parameter(env, "p", Space({"p": 1})) if has_p else (None, {}))
        f = K.LinFn(env, "f", list(reversed(S)), dims) if has_f else None
        kw = {}
        if has_p:
            kw["parameter"] = prm
        if has_f:
            kw["data_functions"] = {"f": f.fn}
        rec = []
        rs = list(reversed(S))
        sig = (["f"] if has_f else []) + ["x_integral"] + rs[:1] + ["u_integral"] + (["p"] if has_p else []) + \
              (["v", "v_integral"] if "v" in outs else []) + ["u"] + rs[1:]

        def impl(**a):
            e = dict(a)
            e["du_dx"] = tp.utils.grad(a["u"], a["x"])
            if "t" in a:  # the output at the integral points still depends on the row's own coordinates
                e["dui_dt"] = tp.utils.grad(a["u_integral"], a["t"])
            integral = (a["u_integral"] * a["x_integral"]).mean(dim=1, keepdim=True)
            r0 = e["du_dx"] + a["u"] - integral
            if has_f:
                r0 = r0 - a["f"]
            if has_p:
                r0 = r0 + a["p"] * a["t"]
            res = r0
            if "v" in outs:
                res = torch.cat([r0, a["v"] + a["v_integral"].mean(dim=1, keepdim=True)], dim=-1)
            rec.append(e)
            return res

        cnd = C.IntegroPINNCondition(model, smp, K.make_fn(sig, impl, "residual"), irec, **kw)
        loss = cnd()
        # ---- oracle
        produced = recorder.produced[0 if static else -1]
        rows = K.rows_by_name(_rows(env, produced), produced.space)
        irows = K.rows_by_name(_rows(env, irec.produced[-1]), irec.produced[-1].space)
        wa = {k: [] for k in sig + ["du_dx"] + (["dui_dt"] if "t" in S else [])}
        resid = []
        wa["x_integral"] = [[r["x"] for r in irows]]
        for co in rows:
            y = orc.value(co)
            yi = [orc.value(dict(co, x=ir["x"])) for ir in irows]
            val = dict(co)
            for o_ in outs:
                val[o_] = y[o_]
                val[o_ + "_integral"] = [yy[o_] for yy in yi]
            val["du_dx"] = orc.deriv(co, "u", 0, "x")
            if "t" in S:
                dts = [orc.deriv(dict(co, x=ir["x"]), "u", 0, "t") for ir in irows]
                val["dui_dt"] = [sum(d_[c] for d_ in dts) for c in range(len(dts[0]))]
            if has_f:
                val["f"] = [f.value(co)]
            for k in wa:
                if k in ("p", "x_integral"):
                    continue
                wa[k].append(val[k] if k.endswith("_integral") else [val[k]])
            r0 = val["du_dx"][0] + val["u"][0] - K.mean(yy["u"][0] * ir["x"][0] for yy, ir in zip(yi, irows))
            if has_f:
                r0 = r0 - val["f"][0]
            if has_p:
                r0 = r0 + prm_o["p"][0] * co["t"][0]
            rr = [r0]
            if "v" in outs:
                rr.append(val["v"][0] + K.mean(yy["v"][0] for yy in yi))
            resid.append(rr)
        if has_p:
            wa["p"] = [prm_o["p"]]
        want_loss = K.mean(sum(r * r for r in rr) for rr in resid)
        return dict(loss=loss.reshape(1), numel=loss.numel(), got=rec, want=wa, want_loss=want_loss)

    def goals(o, L, env):
        yield "residual_called_once", len(o["got"]) == 1
        if len(o["got"]) != 1:
            return
        g, w = o["got"][0], o["want"]
        yield "receives_exactly_its_signature", sorted(g) == sorted(w)
        for k in sorted(w):
            if k in g:
                yield from K.cells_eq(L, "arg_%s" % k, g[k], w[k])
        yield "loss_is_scalar", o["numel"] == 1
        if o["numel"] == 1:
            yield "loss_is_documented_reduction", L.eq(o["loss"][0], o["want_loss"])

    return Case(name, body, goals, family="integro/%dcomp" % len(outs),
                params=dict(S=S, M=M, outs=outs, sampler=kind, p=has_p, f=has_f, n=n, nint=nint))


# --------------------------------------------------------------------------
# family 4: data conditions
# --------------------------------------------------------------------------


def _agg(L, dist_batches, norm, root, full, call):
    """documented aggregation of |model - target| cells: per batch mean of d**norm (or max), mean over the batches of a
    full pass, else the batch of this call; root applied last.  -> (value, squared?)"""
    def one(d):
        if norm == "inf":
            m = None
            for x in d:
                m = x if m is None else L.max(m, x)
            return m
        return K.mean((x if norm == 1 else x * x) for x in d)

    if full:
        if norm == "inf":
            v = 0
            for d in dist_batches:
                v = L.max(v, one(d))
        else:
            v = K.mean(one(d) for d in dist_batches)
    else:
        v = one(dist_batches[call % len(dist_batches)])
    return v


def _root_goal(L, got, want, root):
    if root == 1:
        return L.eq(got, want)
    assert root == 2
    return L.And(L.ge(got, 0), L.eq(got * got, want))


def data_case(S, M, outs, norm, root=1, full=False, constrain=False, nb=1, bs=2, calls=1, stub_loader=False):
    name = "data/S=%s/M=%s/out=%s/norm%s/root%d/%s%s/nb%d_bs%d%s%s" % (
        "".join(S), "".join(M), "".join(outs), norm, root, "full" if full else "iter", "/constrain" if constrain else "", nb, bs,
        "/calls%d" % calls if calls > 1 else "", "/listloader" if stub_loader else "")
    dims = DIMS1

    def body(env):
        L = env.L
        in_sp, out_sp = K.space_of(S, dims), K.space_of(outs, dims)
        model, orc = K.sym_fcn(env, "m", K.space_of(M, dims), out_sp)
        N = nb * bs
        X, Y = env.tensor("X", (N, in_sp.dim)), env.tensor("Y", (N, out_sp.dim))
        if stub_loader:
            loader = [(Points(X[b * bs:(b + 1) * bs], in_sp), Points(Y[b * bs:(b + 1) * bs], out_sp)) for b in range(nb)]
        else:
            loader = tp.utils.PointsDataLoader((Points(X, in_sp), Points(Y, out_sp)), batch_size=bs)
        rec = []
        kw = {}
        if constrain:
            sig = ["t"] + list(reversed(outs)) + ["x"]

            def impl(**a):
                rec.append(dict(a))
                cols = [a["u"] * a["x"] + a["t"]]
                if "v" in outs:
                    cols.append(a["v"] - a["u"])
                return torch.cat(cols, dim=-1)

            kw["constrain_fn"] = K.make_fn(sig, impl, "constrain")
        cnd = C.DataCondition(model, loader, norm=norm, root=float(root), use_full_dataset=full, **kw)
        losses = [cnd() for _ in range(calls)]
        # ---- oracle
        xr = K.rows_by_name(_rows(env, Points(X, in_sp)), in_sp)
        yr = _rows(env, Points(Y, out_sp))
        dist, cargs = [], []
        for b in range(nb):
            d = []
            wa = {k: [] for k in (sig if constrain else [])}
            for i in range(b * bs, (b + 1) * bs):
                y = orc.value(xr[i])
                if constrain:
                    for k in wa:
                        wa[k].append(y[k] if k in y else xr[i][k])
                    cols = [y["u"][0] * xr[i]["x"][0] + xr[i]["t"][0]] + ([y["v"][0] - y["u"][0]] if "v" in outs else [])
                else:
                    cols = [y[o_][0] for o_ in outs]
                d += [L.abs(c - yr[i][j]) for j, c in enumerate(cols)]
            dist.append(d)
            cargs.append(wa)
        want = [_agg(L, dist, norm, root, full, ci) for ci in range(calls)]
        per_call = nb if full else 1
        want_args = [cargs[(k if full else k) % nb] for k in range(calls * per_call)] if constrain else []
        return dict(losses=[l.reshape(-1) for l in losses], numel=[l.numel() for l in losses], want=want, got=rec, want_args=want_args)

    def goals(o, L, env):
        for ci in range(calls):
            yield "loss_is_scalar[call%d]" % ci, o["numel"][ci] == 1
            if o["numel"][ci] == 1:
                yield "loss_is_stated_norm[call%d]" % ci, _root_goal(L, o["losses"][ci][0], o["want"][ci], root)
        if constrain:
            yield "constrain_fn_called_once_per_batch", len(o["got"]) == len(o["want_args"])
            if len(o["got"]) == len(o["want_args"]):
                for bi, (g, w) in enumerate(zip(o["got"], o["want_args"])):
                    yield "constrain_receives_its_signature[batch%d]" % bi, sorted(g) == sorted(w)
                    for k in sorted(w):
                        if k in g:
                            yield from K.cells_eq(L, "constrain_arg_%s[batch%d]" % (k, bi), g[k], w[k])

    return Case(name, body, goals, family="data/" + ("full" if full else "iter"),
                params=dict(S=S, M=M, outs=outs, norm=str(norm), root=root, full=full, constrain=constrain, nb=nb, bs=bs, calls=calls))


def hpm_data_case(S, norm, root=1, full=False, nb=2, bs=2, calls=1):
    """HPM_EquationLoss_at_DataPoints: per batch a = mean_i sum_c residual^2 on the batch's points, then the data-condition
    aggregation of the batch values a (a**norm, mean over the batches of a full pass, root)"""
    name = "hpm_data/S=%s/norm%s/root%d/%s/nb%d_bs%d%s" % ("".join(S), norm, root, "full" if full else "iter", nb, bs,
                                                          "/calls%d" % calls if calls > 1 else "")
    dims = DIMS1

    def body(env):
        L = env.L
        in_sp, out_sp = K.space_of(S, dims), Space({"u": 1})
        model, orc = K.sym_fcn(env, "m", in_sp, out_sp)
        N = nb * bs
        X, Y = env.tensor("X", (N, in_sp.dim)), env.tensor("Y", (N, 1))
        loader = tp.utils.PointsDataLoader((Points(X, in_sp), Points(Y, out_sp)), batch_size=bs)
        prm, prm_o = K.sym_parameter(env, "p", Space({"p": 1}))
        rec = []
        sig = ["p"] + list(reversed(S))

        def impl(**a):
            rec.append(dict(a))
            return torch.cat([a["x"] * a["t"] - a["p"], a["t"] + a["p"] * a["p"]], dim=-1)

        cnd = C.HPM_EquationLoss_at_DataPoints(model, loader, norm, K.make_fn(sig, impl, "residual"), root=float(root),
                                               use_full_dataset=full, parameter=prm)
        losses = [cnd() for _ in range(calls)]
        xr = K.rows_by_name(_rows(env, Points(X, in_sp)), in_sp)
        p = prm_o["p"][0]
        a_b, args_b = [], []
        for b in range(nb):
            rows = xr[b * bs:(b + 1) * bs]
            # a mean of sums of squares: non-negative, so |a| = a (keeps the queries free of case splits)
            a_b.append([K.mean((r["x"][0] * r["t"][0] - p) * (r["x"][0] * r["t"][0] - p) + (r["t"][0] + p * p) * (r["t"][0] + p * p)
                               for r in rows)])
            args_b.append(dict(p=[prm_o["p"]], x=[r["x"] for r in rows], t=[r["t"] for r in rows]))
        want = [_agg(L, a_b, norm, root, full, ci) for ci in range(calls)]
        per_call = nb if full else 1
        want_args = [args_b[k % nb] for k in range(calls * per_call)]
        return dict(losses=[l.reshape(-1) for l in losses], numel=[l.numel() for l in losses], want=want, got=rec, want_args=want_args)

    def goals(o, L, env):
        for ci in range(calls):
            yield "loss_is_scalar[call%d]" % ci, o["numel"][ci] == 1
            if o["numel"][ci] == 1:
                yield "loss_is_documented_reduction[call%d]" % ci, _root_goal(L, o["losses"][ci][0], o["want"][ci], root)
        yield "residual_called_once_per_batch", len(o["got"]) == len(o["want_args"])
        if len(o["got"]) == len(o["want_args"]):
            for bi, (g, w) in enumerate(zip(o["got"], o["want_args"])):
                yield "receives_exactly_its_signature[batch%d]" % bi, sorted(g) == sorted(w)
                for k in sorted(w):
                    if k in g:
                        yield from K.cells_eq(L, "arg_%s[batch%d]" % (k, bi), g[k], w[k])

    return Case(name, body, goals, family="hpm_data", params=dict(S=S, norm=str(norm), root=root, full=full, nb=nb, bs=bs, calls=calls))


# --------------------------------------------------------------------------
# family 5: ParameterCondition
# --------------------------------------------------------------------------


def parameter_case(order, joined=False):
    name = "parameter/%s%s" % ("".join(order), "/joined" if joined else "")
    pd = {"p": 1, "q": 2}

    def body(env):
        if joined:
            parts = [K.sym_parameter(env, v, Space({v: pd[v]})) for v in order]
            prm = parts[0][0]
            for q_, _ in parts[1:]:
                prm = prm.join(q_)
            prm_o = {}
            for _, o_ in parts:
                prm_o.update(o_)
        else:
            prm, prm_o = K.sym_parameter(env, "pq", K.space_of(order, pd))
        rec = []

        def penalty(q, p):
            rec.append(dict(p=p, q=q))
            return (p * p + 3 * q[:, :1] - q[:, 1:] * p).sum()

        wgt = env.tensor("wgt", ())
        cnd = C.ParameterCondition(prm, penalty, weight=wgt)
        loss = cnd()
        p, q = prm_o["p"], prm_o["q"]
        return dict(loss=loss.reshape(1), numel=loss.numel(), got=rec, want=dict(p=[p], q=[q]),
                    want_loss=p[0] * p[0] + 3 * q[0] - q[1] * p[0], registered=len(list(cnd.parameters())))

    def goals(o, L, env):
        yield "penalty_called_once", len(o["got"]) == 1
        yield "parameter_registered_for_training", o["registered"] == 1
        if len(o["got"]) == 1:
            for k in ("p", "q"):
                yield from K.cells_eq(L, "arg_%s" % k, o["got"][0][k], o["want"][k])
        yield "loss_is_scalar", o["numel"] == 1
        if o["numel"] == 1:
            yield "loss_is_penalty", L.eq(o["loss"][0], o["want_loss"])

    return Case(name, body, goals, family="parameter/" + ("joined" if joined else "single"), params=dict(order=order, joined=joined))


# --------------------------------------------------------------------------
# family 6 (thorough): DeepONet conditions
# --------------------------------------------------------------------------


def _deeponet(env, out_order, neurons, k, trunk_order=("t",)):
    """real DeepONet (FC trunk + FC branch, one hidden neuron each, activation z*z), symbolic weights.
    -> (net, oracle(trunk coords by name, [function values at the k discretisation points]) -> ({out: comps}, {out: d/dt}),
        discretisation sampler, function space)"""
    dims = DIMS1
    fdom = tp.domains.Interval(Space({"t": 1}), 0.0, 1.0)
    fsp = tp.spaces.FunctionSpace(fdom, Space({"f": 1}))
    disc = K.FixedSampler(K.fixed_points(env, "disc", ("t",), dims, k))
    trunk = tp.models.FCTrunkNet(K.space_of(trunk_order, dims), hidden=(1,), activations=K.Sq())
    branch = tp.models.FCBranchNet(fsp, disc, hidden=(1,), activations=K.Sq())
    out_sp = K.space_of(out_order, dims)
    net = tp.models.DeepONet(trunk, branch, out_sp, output_neurons=neurons)
    Wt, Wb = K.symbolize(env, "wt", trunk), K.symbolize(env, "wb", branch)
    per = neurons // out_sp.dim

    def oracle(coords, fvals):
        z = []
        for v in trunk_order:
            z += coords[v]
        tr, dtr = K.mlp_sq(Wt, z)
        br, _ = K.mlp_sq(Wb, fvals)
        col = {v: j for j, v in enumerate(trunk_order)}
        val, dval = {}, {}
        for oi, o_ in enumerate(out_order):
            idx = range(oi * per, (oi + 1) * per)
            val[o_] = [sum(tr[m] * br[m] for m in idx)]
            dval[o_] = {v: [sum(dtr[m][col[v]] * br[m] for m in idx)] for v in trunk_order}
        return val, dval

    return net, oracle, disc, fsp


def pideeponet_case(outs, kind, has_p=True, has_g=True, uses_f=True, n=2, nf=2, k=2, after_other_set=False):
    """after_other_set: ANOTHER condition on the same network, with its own function set of the same size, was evaluated
    just before in the same iteration (the order of Solver.training_step)"""
    name = "deeponet/pi/out=%s/%s/n%d_nf%d_k%d%s%s%s%s" % ("".join(outs), kind, n, nf, k, "/p" if has_p else "", "/g" if has_g else "",
                                                         "/f" if uses_f else "", "/after_condition_with_other_function_set" if after_other_set else "")
    dims = DIMS1
    static = kind.endswith("_static")

    def body(env):
        net, orc, disc, fsp = _deeponet(env, outs, 2 * len(outs), k)
        ksamp = K.FixedSampler(K.fixed_points(env, "kpts", ("q",), dims, nf))
        fa = env.tensor("fa", ())
        fa_v = SH.elems(env, fa)[0]
        fset = tp.domains.CustomFunctionSet(fsp, ksamp, lambda t, q: q * t + fa * q * q)
        fun = lambda q_, t_: q_ * t_ + fa_v * q_ * q_  # noqa: E731  (oracle of the function set)
        recorder = K.FixedSampler(K.fixed_points(env, "pts", ("t",), dims, n))
        smp = recorder.make_static() if static else recorder
        prm, prm_o = (K.sym_parameter(env, "p", Space({"p": 1})) if has_p else (None, {}))
        g = K.LinFn(env, "g", ["t"], dims) if has_g else None
        kw = {}
        if has_p:
            kw["parameter"] = prm
        if has_g:
            kw["data_functions"] = {"g": g.fn}
        rec = []
        sig = (["g"] if has_g else []) + (["v"] if "v" in outs else []) + ["t"] + (["p"] if has_p else []) + \
              (["f"] if uses_f else []) + ["u"]
        # the residual value is ARBITRARY (fresh symbols per function, point and component): the DeepONet output is a
        # polynomial of degree > 10 in the symbols, so the reduction is decided on free residual values and the arguments
        # (incl. the derivative) are decided cell by cell
        R_t = env.tensor("R", (nf, n, len(outs)))

        def impl(**a):
            e = dict(a)
            e["du_dt"] = tp.utils.grad(a["u"], a["t"])
            rec.append(e)
            return R_t

        cnd = PIDeepONetCondition(net, fset, smp, K.make_fn(sig, impl, "residual"), **kw)
        if after_other_set:
            ksamp0 = K.FixedSampler(K.fixed_points(env, "kpts0", ("q",), dims, nf))
            fset0 = tp.domains.CustomFunctionSet(fsp, ksamp0, lambda t, q: 2 * q * t + fa)
            smp0 = K.FixedSampler(K.fixed_points(env, "pts0", ("t",), dims, n))
            cnd0 = PIDeepONetCondition(net, fset0, smp0, K.make_fn(["u"], lambda u: u, "residual0"))
            cnd0(iteration=0)
        loss = cnd(iteration=0)
        # ---- oracle
        produced = recorder.produced[0 if static else -1]
        trows = K.rows_by_name(_rows(env, produced), produced.space)
        drows = K.rows_by_name(_rows(env, disc.produced[-1]), disc.produced[-1].space)
        qs = [r["q"][0] for r in K.rows_by_name(_rows(env, ksamp.produced[-1]), ksamp.produced[-1].space)]
        wa = {k_: [] for k_ in sig + ["du_dt"] if k_ != "p"}
        resid = []
        for q in qs:
            fv = [fun(q, d["t"][0]) for d in drows]
            row_args = {k_: [] for k_ in wa}
            rf = []
            for co in trows:
                val, dval = orc(co, fv)
                v_ = dict(t=co["t"], du_dt=dval["u"]["t"])
                v_.update(val)
                if uses_f:
                    v_["f"] = [fun(q, co["t"][0])]
                if has_g:
                    v_["g"] = [g.value(co)]
                for k_ in wa:
                    row_args[k_].append(v_[k_])
                fi, pi, nc = len(resid), len(rf), len(outs)
                rf.append(SH.elems(env, R_t)[(fi * n + pi) * nc:(fi * n + pi + 1) * nc])
            for k_ in wa:
                wa[k_].append(row_args[k_])
            resid.append(rf)
        if has_p:
            wa["p"] = [prm_o["p"]]
        want_loss = K.mean(sum(r * r for r in rr) for rf in resid for rr in rf)
        return dict(loss=loss.reshape(1), numel=loss.numel(), got=rec, want=wa, want_loss=want_loss)

    def goals(o, L, env):
        yield "residual_called_once", len(o["got"]) == 1
        if len(o["got"]) != 1:
            return
        g, w = o["got"][0], o["want"]
        yield "receives_exactly_its_signature", sorted(g) == sorted(w)
        for k_ in sorted(w):
            if k_ in g:
                yield from K.cells_eq(L, "arg_%s" % k_, g[k_], w[k_])
        yield "loss_is_scalar", o["numel"] == 1
        if o["numel"] == 1:
            yield "loss_is_mean_over_functions_and_points", L.eq(o["loss"][0], o["want_loss"])

    return Case(name, body, goals, family="deeponet/pi", params=dict(outs=outs, sampler=kind, p=has_p, g=has_g, f=uses_f, n=n, nf=nf, k=k))


def deeponet_data_case(outs, norm, root=1, full=False, constrain=False, nf=2, nt=2, k=2):
    name = "deeponet/data/out=%s/norm%s/root%d/%s%s/nf%d_nt%d_k%d" % ("".join(outs), norm, root, "full" if full else "iter",
                                                                      "/constrain" if constrain else "", nf, nt, k)
    dims = DIMS1

    def body(env):
        L = env.L
        net, orc, disc, fsp = _deeponet(env, outs, 2 * len(outs), k)
        out_sp = K.space_of(outs, dims)
        BR, TR, OUT = env.tensor("BR", (nf, k, 1)), env.tensor("TR", (nt, 1)), env.tensor("OUT", (nf, nt, out_sp.dim))
        loader = tp.utils.DeepONetDataLoader(BR, TR, OUT, Space({"f": 1}), Space({"t": 1}), out_sp, nf, nt, shuffle_branch=False,
                                             shuffle_trunk=False)
        rec = []
        kw = {}
        if constrain:
            sig = ["t"] + list(reversed(outs))

            def impl(**a):
                rec.append(dict(a))
                cols = [a["u"] * a["t"] + a["t"]] + ([a["v"] - a["u"]] if "v" in outs else [])
                return torch.cat(cols, dim=-1)

            kw["constrain_fn"] = K.make_fn(sig, impl, "constrain")
        cnd = DeepONetDataCondition(net, loader, norm=norm, root=float(root), use_full_dataset=full, **kw)
        loss = cnd()
        br, tr, out = SH.elems(env, BR), SH.elems(env, TR), SH.elems(env, OUT)
        d = []
        wa = {k_: [] for k_ in (sig if constrain else [])}
        od = out_sp.dim
        for i in range(nf):
            ra = {k_: [] for k_ in wa}
            for j in range(nt):
                val, _ = orc({"t": [tr[j]]}, br[i * k:(i + 1) * k])
                if constrain:
                    for k_ in wa:
                        ra[k_].append(val[k_] if k_ in val else [tr[j]])
                    cols = [val["u"][0] * tr[j] + tr[j]] + ([val["v"][0] - val["u"][0]] if "v" in outs else [])
                else:
                    cols = [val[o_][0] for o_ in outs]
                d += [L.abs(c - out[(i * nt + j) * od + ci]) for ci, c in enumerate(cols)]
            for k_ in wa:
                wa[k_].append(ra[k_])
        want = _agg(L, [d], norm, root, full, 0)
        return dict(loss=loss.reshape(-1), numel=loss.numel(), want=want, got=rec, want_args=wa)

    def goals(o, L, env):
        yield "loss_is_scalar", o["numel"] == 1
        if o["numel"] == 1:
            yield "loss_is_stated_norm", _root_goal(L, o["loss"][0], o["want"], root)
        if constrain:
            yield "constrain_fn_called_once", len(o["got"]) == 1
            if len(o["got"]) == 1:
                g, w = o["got"][0], o["want_args"]
                yield "constrain_receives_its_signature", sorted(g) == sorted(w)
                for k_ in sorted(w):
                    if k_ in g:
                        yield from K.cells_eq(L, "constrain_arg_%s" % k_, g[k_], w[k_])

    return Case(name, body, goals, family="deeponet/data", params=dict(outs=outs, norm=str(norm), root=root, full=full, constrain=constrain))


# --------------------------------------------------------------------------
# family 7 (thorough): VariationalPINNCondition with a stub test-function set
# --------------------------------------------------------------------------


class _StubTestSet:
    """stands for a TestFunctionSet: test functions phi(x, t) = a*x + b*t (symbolic), quadrature weights symbolic"""

    def __init__(self, env, n):
        self.phi = K.LinFn(env, "phi", ["t", "x"], DIMS1)
        self.qw = env.tensor("qw", (n, 1))

    def __call__(self, coords):
        return Points(self.phi.fn(**{k: coords[k] for k in ("t", "x")}), Space({"phi": 1}))

    def get_quad_weights(self, n):
        return self.qw

    def to(self, device):
        return self


def variational_case(S, M, has_p, kind="fixed", n=2):
    name = "variational/S=%s/M=%s/%s/n%d%s" % ("".join(S), "".join(M), kind, n, "/p" if has_p else "")
    dims = DIMS1
    static = kind.endswith("_static")

    def body(env):
        from torchphysics.problem.conditions.variational_condition import VariationalPINNCondition

        model, orc = K.sym_fcn(env, "m", K.space_of(M, dims), Space({"u": 1}))
        recorder = K.FixedSampler(K.fixed_points(env, "pts", S, dims, n))
        smp = recorder.make_static() if static else recorder
        ts = _StubTestSet(env, n)
        f = K.LinFn(env, "f", list(reversed(S)), dims)
        prm, prm_o = (K.sym_parameter(env, "p", Space({"p": 1})) if has_p else (None, {}))
        rec = []
        sig = ["quad_weights", "f"] + list(reversed(S))[:1] + (["p"] if has_p else []) + ["phi", "u"] + list(reversed(S))[1:]

        def impl(**a):
            e = dict(a)
            e["du_dx"] = tp.utils.grad(a["u"], a["x"])
            r = (e["du_dx"] + a["u"] - a["f"]) * a["phi"] * a["quad_weights"]
            if has_p:
                r = r + a["p"] * a["t"]
            rec.append(e)
            return r

        kw = dict(data_functions={"f": f.fn})
        if has_p:
            kw["parameter"] = prm
        cnd = VariationalPINNCondition(model, K.make_fn(sig, impl, "residual"), smp, ts, **kw)
        loss = cnd()
        produced = recorder.produced[0 if static else -1]
        rows = K.rows_by_name(_rows(env, produced), produced.space)
        qw = SH.elems(env, ts.qw)
        wa = {k_: [] for k_ in sig + ["du_dx"] if k_ != "p"}
        resid = []
        for i, co in enumerate(rows):
            y = orc.value(co)
            v_ = dict(co, u=y["u"], f=[f.value(co)], phi=[ts.phi.value(co)], quad_weights=[qw[i]], du_dx=orc.deriv(co, "u", 0, "x"))
            for k_ in wa:
                wa[k_].append(v_[k_])
            r = (v_["du_dx"][0] + v_["u"][0] - v_["f"][0]) * v_["phi"][0] * qw[i]
            if has_p:
                r = r + prm_o["p"][0] * co["t"][0]
            resid.append([r])
        if has_p:
            wa["p"] = [prm_o["p"]]
        return dict(loss=loss.reshape(1), numel=loss.numel(), got=rec, want=wa, want_loss=K.mean(sum(r * r for r in rr) for rr in resid))

    def goals(o, L, env):
        yield "residual_called_once", len(o["got"]) == 1
        if len(o["got"]) != 1:
            return
        g, w = o["got"][0], o["want"]
        yield "receives_exactly_its_signature", sorted(g) == sorted(w)
        for k_ in sorted(w):
            if k_ in g:
                yield from K.cells_eq(L, "arg_%s" % k_, g[k_], w[k_])
        yield "loss_is_scalar", o["numel"] == 1
        if o["numel"] == 1:
            yield "loss_is_documented_reduction", L.eq(o["loss"][0], o["want_loss"])

    return Case(name, body, goals, family="variational/" + ("p" if has_p else "nop"), params=dict(S=S, M=M, p=has_p, sampler=kind, n=n))


def gridfill_case(n):
    """PINNCondition fed by a NON-static GridSampler whose grid does not fit n (the remainder is filled with fresh
    random points on every call): data functions must be evaluated at the rows sampled in THIS forward"""
    name = "gridfill/PINN/Parallelogram/n%d/calls2" % n

    def body(env):
        X, U_ = Space({"x": 2}), Space({"u": 1})
        model, orc = K.sym_fcn(env, "m", X, U_)
        sh = SH.parallelogram(SH.ConcShapeEnv(env), tag="P", var="x")
        smp = K.record(tp.samplers.GridSampler(sh.dom, n_points=n))
        f = K.LinFn(env, "f", ["x"], {"x": 2})
        rec = []

        def residual(f, u, x):
            rec.append(dict(f=f, u=u, x=x))
            return u * f - x[:, :1]

        cond = tp.conditions.PINNCondition(model, smp, residual, data_functions={"f": f.fn})
        losses = [cond.forward(), cond.forward()]
        return dict(losses=losses, rec=rec, produced=list(smp.produced), f=f, orc=orc, X=X)

    def goals(o, L, env):
        prod = o["produced"][-len(o["losses"]):]
        yield "one_sample_per_forward", len(o["rec"]) == len(o["losses"]) and len(prod) == len(o["losses"])
        for c, (r, pts, loss) in enumerate(zip(o["rec"], prod, o["losses"])):
            rows = K.rows_by_name(pts, o["X"])
            yield from K.cells_eq(L, "arg_x[call%d]" % c, r["x"], [ro["x"] for ro in rows])
            yield from K.cells_eq(L, "arg_f[call%d]" % c, r["f"], [[o["f"].value(ro)] for ro in rows])
            us = [o["orc"].value(ro)["u"] for ro in rows]
            yield from K.cells_eq(L, "arg_u[call%d]" % c, r["u"], us)
            res = [us[i][0] * o["f"].value(rows[i]) - rows[i]["x"][0] for i in range(len(rows))]
            yield "loss_is_mean_squared_residual[call%d]" % c, L.eq(loss, K.mean(x * x for x in res))

    return Case(name, body, goals, family="gridfill", params=dict(n=n), max_paths=16)


def cases(tier):
    th = tier == "thorough"
    cs = []
    XT, TX = ("x", "t"), ("t", "x")
    U, UV, VU = ("u",), ("u", "v"), ("v", "u")
    # ---- single-module conditions -----------------------------------------------------------
    for cond in SINGLE:
        st = "fixed_static" if cond == "Adaptive" else "fixed"
        cs.append(single_case(cond, XT, TX, U, st))
        cs.append(single_case(cond, TX, XT, UV, st, xdim=2))
        if th:
            cs.append(single_case(cond, XT, XT, VU, st, n=3))
            cs.append(single_case(cond, TX, TX, U, st, has_p=False, has_f=False))
            cs.append(single_case(cond, XT, TX, U, "fixed_static", has_c=True, calls=2))
    for kind in ("fixed_static", "data", "data_static", "random", "random_static"):
        cs.append(single_case("PINN", TX, XT, U, kind, calls=2))
    cs.append(single_case("PINN", XT, TX, U, "fixed", has_c=True, has_p=False))
    cs.append(single_case("PINN", XT, TX, U, "fixed", declared={"k1": 2.0, "k2": 0.5}))
    cs.append(single_case("Mean", TX, XT, U, "fixed", has_p=False, declared={"k1": 2.0, "k2": 0.5, "k3": -1.0}))
    cs.append(single_case("PINN", XT, TX, U, "fixed", has_f=False, has_p=False))
    cs.append(single_case("Mean", TX, XT, U, "random", calls=2))
    cs.append(gridfill_case(3))
    # arbitrary residual values (fresh symbols): the reduction for ALL residual functions of this shape
    for cond in SINGLE:
        cs.append(single_case(cond, XT, TX, UV if cond != "HPMSampler" else U, "fixed_static" if cond == "Adaptive" else "random",
                              free=True, n=3, calls=1 if cond == "Adaptive" else 2))
    cs.append(single_case("PINN", ("s", "x", "t"), ("t", "s", "x"), U, "fixed"))
    cs.append(single_case("PINN", ("s", "x", "t"), ("t", "s", "x"), U, "fixed", warm_order=("x", "t", "s")))
    cs.append(single_case("Mean", ("t", "s", "x"), ("x", "t", "s"), UV, "fixed_static"))
    if th:
        for S in itertools.permutations(("x", "t", "s")):
            for M in (("x", "t", "s"), ("s", "x", "t")):
                cs.append(single_case("PINN", S, M, U, "fixed"))
            cs.append(single_case("Mean", S, tuple(reversed(S)), UV, "fixed_static"))
        for cond in ("Mean", "Custom", "HPMSampler"):
            for kind in ("random", "random_static", "data_static"):
                cs.append(single_case(cond, XT, TX, UV if cond != "HPMSampler" else U, kind, calls=2))
        cs.append(single_case("Adaptive", TX, XT, UV, "random_static", calls=2))
        cs.append(single_case("PINN", XT, TX, UV, "fixed", xdim=2, n=3, has_c=True))
        # every condition x every pair of orders x output layouts x static / not
        for cond in SINGLE:
            for S_, M_ in itertools.product((XT, TX), repeat=2):
                for outs_ in ((U, UV, VU) if cond != "HPMSampler" else (U,)):
                    for kind in (("fixed", "fixed_static") if cond != "Adaptive" else ("fixed_static",)):
                        cs.append(single_case(cond, S_, M_, outs_, kind, xdim=2 if outs_ == VU else 1, n=3 if outs_ == UV else 2,
                                              has_c=(kind == "fixed_static"), calls=2 if outs_ == U else 1))
    # ---- periodic ----------------------------------------------------------------------------
    cs.append(periodic_case(TX, U, "fixed"))
    cs.append(periodic_case(XT, UV, "fixed"))
    cs.append(periodic_case(("x",), U, "fixed", nonper=()))
    cs.append(periodic_case(TX, U, "fixed_static", has_f=False))
    cs.append(periodic_case(TX, U, "fixed_static"))
    if th:
        cs.append(periodic_case(XT, VU, "fixed", n=3))
        cs.append(periodic_case(("s", "x", "t"), U, "fixed", nonper=("t", "s")))
        cs.append(periodic_case(("x", "t", "s"), U, "fixed", nonper=("s", "t"), has_p=False))
        cs.append(periodic_case(("x",), U, "fixed", nonper=(), has_p=False, has_f=False))
        cs.append(periodic_case(XT, UV, "fixed_static", n=1))
        for M_ in (XT, TX):
            for outs_ in (U, UV, VU):
                for hp, hf in ((True, False), (False, True), (False, False)):
                    cs.append(periodic_case(M_, outs_, "fixed", has_p=hp, has_f=hf, n=3 if outs_ == U else 2))
                cs.append(periodic_case(M_, outs_, "fixed_static", has_f=False))
    # ---- integro -----------------------------------------------------------------------------
    cs.append(integro_case(XT, TX, U, "fixed"))
    cs.append(integro_case(XT, TX, U, "fixed", nint=1))
    cs.append(integro_case(TX, XT, U, "fixed_static"))
    cs.append(integro_case(TX, XT, UV, "fixed"))
    if th:
        cs.append(integro_case(XT, XT, U, "fixed", n=3, nint=3))
        cs.append(integro_case(TX, TX, U, "fixed", has_p=False, has_f=False))
        cs.append(integro_case(XT, TX, VU, "fixed_static"))
        for S_, M_ in itertools.product((XT, TX), repeat=2):
            cs.append(integro_case(S_, M_, U, "fixed", has_p=(S_ == M_), has_f=(S_ != M_), n=3))
            cs.append(integro_case(S_, M_, U, "fixed_static", has_f=False, nint=3))
    # ---- data conditions -----------------------------------------------------------------------
    cs.append(data_case(TX, XT, U, 2))
    cs.append(data_case(XT, TX, UV, "inf", constrain=True))
    cs.append(data_case(TX, XT, U, 2, root=2, full=True, nb=2))
    cs.append(data_case(XT, TX, U, 1, nb=2, calls=3))
    cs.append(data_case(TX, XT, UV, "inf", full=True, nb=2, bs=1, constrain=True))
    if th:
        for norm in (1, 2, "inf"):
            for full in (False, True):
                cs.append(data_case(XT, TX, UV, norm, full=full, nb=2, bs=1 if norm == "inf" else 2, calls=2))
                cs.append(data_case(XT, TX, U, norm, root=2, full=full, nb=2, calls=2))
                cs.append(data_case(TX, XT, VU, norm, full=full, nb=2, constrain=True))
        cs.append(data_case(TX, XT, U, 2, stub_loader=True, nb=2, calls=3))
    cs.append(hpm_data_case(TX, 2, full=True))
    cs.append(hpm_data_case(XT, 1, calls=3))
    if th:
        cs.append(hpm_data_case(TX, "inf", full=True))
        cs.append(hpm_data_case(XT, 1, root=2, nb=1))
        cs.append(hpm_data_case(XT, "inf", calls=2))
    # ---- DeepONet / variational (mostly thorough) ---------------------------------------------------
    cs.append(pideeponet_case(U, "fixed"))
    cs.append(pideeponet_case(U, "fixed", after_other_set=True))
    cs.append(deeponet_data_case(U, 2))
    cs.append(variational_case(XT, TX, False))
    if th:
        cs.append(pideeponet_case(UV, "fixed_static"))
        cs.append(pideeponet_case(U, "fixed", has_p=False, has_g=False, uses_f=False, n=3))
        cs.append(deeponet_data_case(UV, 2, constrain=True))
        cs.append(deeponet_data_case(U, "inf", nf=1, nt=2))
        cs.append(deeponet_data_case(U, 2, root=2, full=True))
        cs.append(variational_case(TX, XT, False, "fixed_static"))
        cs.append(variational_case(XT, TX, True))
    # ---- parameter ---------------------------------------------------------------------------
    cs.append(parameter_case(("p", "q")))
    cs.append(parameter_case(("q", "p")))
    cs.append(parameter_case(("q", "p"), joined=True))
    seen, out = set(), []
    for c in cs:
        if c.name not in seen:
            seen.add(c.name)
            out.append(c)
    return out
