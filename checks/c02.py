"""C02  Samplers return exactly n points per parameter row, paired in order."""
from __future__ import annotations

import torch
import torchphysics as tp
from torchphysics.problem.spaces.points import Points

from symtorch.harness import Case
from . import shapes as SH
from .c01 import _rows, c05_dep

META = dict(
    level="model_checking",
    bounds="SHAPE PARAMETERS ARE CONCRETE (non-axis-aligned fixed values; row counts and pairing do not depend on the geometry; "
           "random draws, accept/reject outcomes, parameter rows, filters stay symbolic); domain methods and RandomUniform/Grid/Gaussian/LHS/Data samplers over catalogue shapes with n<=2 (quick)/n<=4 "
           "(thorough) and k in {0,1,2} (thorough: 3) symbolic parameter rows; filtered samplers (symbolic half-plane filter); "
           "sampler algebra (*, +, append, static) of depth 1 (quick) / 2 (thorough); two consecutive calls with different k",
    outside=["n, k above the bounds", "devices", "shapely/trimesh primitives"],
    assumptions=["shapes have positive measure; parameter rows are arbitrary reals (each row a distinct symbol, so any "
                 "mis-pairing is a satisfiable difference)"],
)


def _param_goals(o, L, n, k, pvars_all):
    """rows i*n..(i+1)*n-1 carry parameter row i unchanged"""
    names, dims = o["names"], o["dims"]
    offs = {}
    c = 0
    for nm, d in zip(names, dims):
        offs[nm] = (c, d)
        c += d
    for r, row in enumerate(o["pts"]):
        i = r // n
        for nm, d in pvars_all:
            if nm not in offs:
                continue
            a, dd = offs[nm]
            for j in range(dd):
                yield "param_row_unchanged[row%d,%s%d]" % (r, nm, j), L.eq(row[a + j], o["prows"][i][nm][j])


def direct_case(name, mk, info, method, n, k, boundary):
    """domain.sample_*(n, params): exactly n*k rows of the domain's space (parameters are joined by samplers)"""
    cname = "domain/%s%s/%s/n%d/k%d" % ("bd:" if boundary else "", name, method, n, k)

    def body(env):
        sh = mk(SH.ConcShapeEnv(env))
        P, rows = SH.params(env, sh.pvars, k)
        for prm in rows:
            env.assume(sh.oset.positive(prm, env.L))
        d = sh.dom.boundary if boundary else sh.dom
        f = d.sample_random_uniform if method == "random" else d.sample_grid
        pts = f(n=n, params=P)
        return dict(nrows=len(pts), names=list(pts.space.keys()), want=[v for v, _ in sh.space_vars])

    def goals(o, L, env):
        yield "row_count_is_n_times_k", o["nrows"] == n * max(k, 1)
        yield "space_is_domain_space", o["names"] == o["want"]

    heavy = info.get("fam") in ("bool", "nested") or info.get("dependent")
    return Case(cname, body, goals, family="domain/%s%s/%s" % ("bd:" if boundary else "", name, method),
                params=dict(shape=name, method=method, n=n, k=k, boundary=boundary), max_paths=40,
                max_forks_per_site=3 if heavy else 6, check_obligations=False)


def _mk_filter(env, sh):
    fa, fb = env.tensor("fa", ()), env.tensor("fb", ())
    first = sh.space_vars[0][0]
    if first == "x":
        def filter_fn(x):
            return x[:, :1] * fa <= fb
    else:
        def filter_fn(t):
            return t[:, :1] * fa <= fb
    return filter_fn


def _mk_sampler(env, skind, sh, n, filt):
    S = tp.samplers
    ff = _mk_filter(env, sh) if filt else None
    if skind == "random":
        return S.RandomUniformSampler(sh.dom, n_points=n, filter_fn=ff)
    if skind == "grid":
        return S.GridSampler(sh.dom, n_points=n, filter_fn=ff)
    if skind == "brandom":
        return S.RandomUniformSampler(sh.dom.boundary, n_points=n, filter_fn=ff)
    if skind == "bgrid":
        return S.GridSampler(sh.dom.boundary, n_points=n, filter_fn=ff)
    if skind == "gauss":
        dim = sum(d for _, d in sh.space_vars)
        std = env.tensor("gs", ())
        env.assume(env.L.gt(SH.elems(env, std)[0], 0))
        return S.GaussianSampler(sh.dom, n_points=n, mean=env.tensor("gm", (dim,)), std=std)
    if skind == "lhs":
        return S.LHSSampler(sh.dom, n_points=n)
    raise ValueError(skind)


def sampler_case(skind, name, mk, info, n, k, filt, static=False, second_k=None, extra_var=False):
    """extra_var: the parameter rows carry one more variable ('zz') the domain does not depend on (what a nested product
    of three samplers hands to its innermost factor); rows may agree in the needed variable and differ in that one"""
    cname = "sampler/%s/%s/n%d/k%d%s%s%s%s" % (skind, name, n, k, "/filter" if filt else "", "/static" if static else "",
                                             "/then_k%d" % second_k if second_k is not None else "", "/extra_parameter_variable" if extra_var else "")

    def body(env):
        sh = mk(SH.ConcShapeEnv(env))
        pv = sh.pvars if sh.pvars else [("q", 1)]
        if extra_var:
            pv = list(sh.pvars) + [("zz", 1)]
        P, rows = SH.params(env, pv if extra_var else sh.pvars, k)
        for prm in rows:
            env.assume(sh.oset.positive(prm, env.L))
        s = _mk_sampler(env, skind, sh, n, filt)
        if static:
            s = s.make_static()
        pts = s.sample_points(P)
        out = dict(pts=pts, names=list(pts.space.keys()), dims=[pts.space[v] for v in pts.space], prows=rows,
                   nrows=len(pts), want_space=[v for v, _ in sh.space_vars] + ([v for v, _ in pv] if k else []))
        if second_k is not None:
            # history: a later parameter-free call must return len(sampler) rows
            if sh.pvars:
                P2, rows2 = SH.params(env, sh.pvars, max(second_k, 1), tag="prm2")
                for prm in rows2:
                    env.assume(sh.oset.positive(prm, env.L))
            else:
                P2 = Points.empty() if second_k == 0 else SH.params(env, [], second_k, tag="prm2")[0]
            pts2 = s.sample_points(P2)
            out["nrows2"] = len(pts2)
            out["k2"] = max(second_k, 1) if sh.pvars else second_k
            try:
                out["len_after"] = len(s)
            except Exception as e:  # noqa
                out["len_after"] = repr(e)
        else:
            try:
                out["len"] = len(s)
            except Exception as e:  # noqa
                out["len"] = repr(e)
        return out

    def goals(o, L, env):
        yield "row_count_is_n_times_k", o["nrows"] == n * max(k, 1)
        yield "space_is_domain_times_params", o["names"] == o["want_space"]
        if o["nrows"] == n * max(k, 1) and k:
            pv = [(nm, d) for nm, d in zip(o["names"], o["dims"]) if nm in o["prows"][0]]
            yield from _param_goals(o, L, n, k, pv)
        if "len" in o:
            # also right after a call WITH parameter rows: len() is the row count of a parameter-free call
            yield "len_equals_rows_of_parameter_free_call", o["len"] == n
        if "nrows2" in o:
            yield "second_call_row_count", o["nrows2"] == n * max(o["k2"], 1)
            if o["k2"] == 0:
                yield "len_equals_rows_of_parameter_free_call", o["len_after"] == o["nrows2"]

    return Case(cname, body, goals, family="sampler/%s/%s" % (skind, name),
                params=dict(sampler=skind, shape=name, n=n, k=k, filter=filt, static=static),
                max_paths=160 if filt else 40, max_forks_per_site=10 if filt else 3, max_decisions=64,
                check_obligations=False)


class _Rec:
    """records what a sampler returned (wraps the instance's sample_points)"""

    def __init__(self, s):
        self.s, self.out, self.params = s, [], []
        orig = s.sample_points

        def wrapped(params=Points.empty(), device="cpu", **kw):
            r = orig(params, device=device, **kw)
            self.out.append(r)
            self.params.append(params)
            return r

        s.sample_points = wrapped


def algebra_case(op, ka, kb, na, nb, k=0, grid_a=False, dep=False):
    cname = "algebra/%s/%s%s_%s/na%d_nb%d/k%d" % (op, "grid:" if grid_a else "", ka + ("[t]" if dep else ""), kb, na, nb, k)

    def body(env):
        L = env.L
        cenv = SH.ConcShapeEnv(env)
        if op == "product":
            a = SH.PRIMS[ka](cenv, tag="A", dep="t" if dep else None)
            b = SH.interval(cenv, tag="B", var="t")
        else:
            a = SH.PRIMS[ka](cenv, tag="A")
            b = SH.PRIMS[kb](cenv, tag="B", var="x" if op == "concat" else "y")
        S = tp.samplers
        sa = (S.GridSampler if grid_a else S.RandomUniformSampler)(a.dom, n_points=na)
        sb = S.RandomUniformSampler(b.dom, n_points=nb)
        env.assume(b.oset.positive({}, L))
        if dep:
            lbv, ubv = b.oset.lb({})[0], b.oset.ub({})[0]
            env.assume(a.oset.positive({"t": [lbv]}, L))
            env.assume(a.oset.positive({"t": [ubv]}, L))
        else:
            env.assume(a.oset.positive({}, L))
        ra, rb = _Rec(sa), _Rec(sb)
        if op == "product":
            s = sa * sb
        elif op == "concat":
            s = sa + sb
        else:
            s = sa.append(sb)
        P, rows = (Points.empty(), [{}]) if k == 0 else SH.params(env, [], k)
        pts = s.sample_points(P)
        out = dict(pts=pts, names=list(pts.space.keys()), dims=[pts.space[v] for v in pts.space], nrows=len(pts),
                   a_out=ra.out, b_out=rb.out, a_names=[list(p.space.keys()) for p in ra.out],
                   b_names=[list(p.space.keys()) for p in rb.out], a_sh=a, b_sh=b)
        try:
            out["len"] = len(s)
        except Exception as e:  # noqa
            out["len"] = repr(e)
        return out

    def goals(o, L, env):
        kk = max(k, 1)
        if op == "product":
            yield "row_count", o["nrows"] == na * nb * kk
            yield "each_factor_sampled_once", len(o["a_out"]) == 1 and len(o["b_out"]) == 1
            if o["nrows"] != na * nb * kk or len(o["b_out"]) != 1:
                return
            a_sh = o["a_sh"]
            names, dims = o["names"], o["dims"]
            offs, c = {}, 0
            for nm, d in zip(names, dims):
                offs[nm] = (c, d)
                c += d
            yield "space_order_a_then_b", names[:2] == [a_sh.space_vars[0][0], "t"]
            b_rows = o["b_out"][0]
            bn = o["b_names"][0]
            tb = bn.index("t")
            toff = sum(1 for _ in bn[:tb])  # all 1-d here
            for r, row in enumerate(o["pts"]):
                i = r // na  # partner point index
                a0, ad = offs["t"]
                yield "partner_point_carried[row%d]" % r, L.eq(row[a0], b_rows[i][toff])
                # the a-part lies in a evaluated at that partner point
                xa, xd = offs[a_sh.space_vars[0][0]]
                p = row[xa:xa + xd]
                yield "first_factor_evaluated_at_partner[row%d]" % r, a_sh.oset.closure(p, {"t": [row[a0]]}, L, 0)
            if grid_a and not dep:
                # the complete grid is repeated for every partner point
                xa, xd = offs[a_sh.space_vars[0][0]]
                for r in range(na, o["nrows"]):
                    for j in range(xd):
                        yield "complete_grid_per_partner[row%d,%d]" % (r, j), L.eq(o["pts"][r][xa + j], o["pts"][r % na][xa + j])
            if k == 0:
                yield "len_equals_rows_of_parameter_free_call", o["len"] == o["nrows"]
        elif op == "concat":
            yield "row_count", o["nrows"] == (na + nb) * kk
            if len(o["a_out"]) == 1 and len(o["b_out"]) == 1 and o["nrows"] == len(o["a_out"][0]) + len(o["b_out"][0]):
                cat = o["a_out"][0] + o["b_out"][0]
                for r, (row, want) in enumerate(zip(o["pts"], cat)):
                    for j, (x, y) in enumerate(zip(row, want)):
                        yield "concatenation[row%d,%d]" % (r, j), L.eq(x, y)
            if k == 0:
                yield "len_equals_rows_of_parameter_free_call", o["len"] == o["nrows"]
        else:
            yield "row_count", o["nrows"] == na * kk
            if len(o["a_out"]) == 1 and len(o["b_out"]) == 1 and o["nrows"] == len(o["a_out"][0]) == len(o["b_out"][0]):
                yield "space_is_a_then_b", o["names"][:2] == [o["a_names"][0][0], o["b_names"][0][0]]
                wa, wb = len(o["a_out"][0][0]), len(o["b_out"][0][0])
                for r, row in enumerate(o["pts"]):
                    want = list(o["a_out"][0][r]) + list(o["b_out"][0][r])
                    if k:
                        break
                    for j, (x, y) in enumerate(zip(row, want)):
                        yield "column_stack[row%d,%d]" % (r, j), L.eq(x, y)
            if k == 0:
                yield "len_equals_rows_of_parameter_free_call", o["len"] == o["nrows"]

    return Case(cname, body, goals, family="algebra/" + op, params=dict(op=op, a=ka, b=kb, na=na, nb=nb, k=k, grid_a=grid_a, dep=dep),
                max_paths=40, max_forks_per_site=3, check_obligations=False)


def data_case(k, three_d, second_call=False):
    """second_call: the sampler was already asked once with OTHER parameter rows (same number of rows)"""
    cname = "sampler/data/%s/k%d%s" % ("3d" if three_d else "2d", k, "/second_call_other_parameters" if second_call else "")
    n = 2

    def body(env):
        shape = (n, 2, 2) if three_d else (n, 2)
        data = env.tensor("data", shape)
        s = tp.samplers.DataSampler({"x": data})
        if second_call:
            P0, _ = SH.params(env, [("t", 1)], k, tag="prm0")
            s.sample_points(P0)
        P, rows = (Points.empty(), [{}]) if k == 0 else SH.params(env, [("t", 1)], k)
        pts = s.sample_points(P)
        t = pts.as_tensor
        return dict(pts=pts, shape=list(t.shape), names=list(pts.space.keys()), data=data, prows=rows, len=len(s))

    def goals(o, L, env):
        kk = max(k, 1)
        yield "row_count", o["shape"][0] == n * kk
        yield "space", o["names"] == (["x", "t"] if k else ["x"])
        if o["shape"][0] != n * kk:
            return
        for r in range(n * kk):
            i, j = r // n, r % n
            row, src = o["pts"][r], o["data"][j]
            if three_d:
                for q in range(2):
                    for c in range(2):
                        yield "data_row[row%d,%d,%d]" % (r, q, c), L.eq(row[q][c], src[q][c])
                    if k:
                        yield "param_row_unchanged[row%d,%d]" % (r, q), L.eq(row[q][2], o["prows"][i]["t"][0])
            else:
                for c in range(2):
                    yield "data_row[row%d,%d]" % (r, c), L.eq(row[c], src[c])
                if k:
                    yield "param_row_unchanged[row%d]" % r, L.eq(row[2], o["prows"][i]["t"][0])
        if k == 0:
            yield "len_equals_rows", o["len"] == n

    return Case(cname, body, goals, family="sampler/data", params=dict(k=k, three_d=three_d, second_call=second_call), check_obligations=False)


def cases(tier):
    cs = []
    quick = tier == "quick"
    cat = SH.catalog(tier)
    ns = (1, 2) if quick else (1, 2, 3, 4)
    def heavy2d(name, info):
        # accept/reject decisions over circle draws are non-linear in the draw symbols: thorough tier only
        return info.get("fam") in ("bool", "nested") and "Interval" not in name

    for name, mk, info in cat:
        if quick and heavy2d(name, info):
            continue
        dep = c05_dep(info, name)
        prod = info.get("fam") == "product"
        ks = (1, 2) if dep else (0, 2)
        if not quick:
            ks = ks + (3,)
        for k in ks:
            for n in ns:
                cs.append(direct_case(name, mk, info, "random", n, k, False))
            if not prod and k <= 1:
                # (samplers call sample_grid with at most one parameter row at a time)
                cs.append(direct_case(name, mk, info, "grid", 2 if quick else 4, k, False))
        if not prod and (not quick or info.get("fam") in ("prim", "bool")):
            cs.append(direct_case(name, mk, info, "random", ns[-1], ks[-1], True))
            cs.append(direct_case(name, mk, info, "grid", 3, min(ks), True))
    reps = [c for c in cat if c[0] in ("Interval", "Circle", "Parallelogram", "Circle[t]", "Interval[t]", "(Circle-Parallelogram)",
                                       "(Interval-Interval)", "Translate[t](Circle)", "(Circle[t]*Interval)")]
    for name, mk, info in reps:
        if quick and heavy2d(name, info):
            continue
        dep = c05_dep(info, name)
        prod = info.get("fam") == "product"
        for skind in ("random",) + (() if prod else ("grid",)):
            for k in ((1, 2) if dep else (0, 2)):
                cs.append(sampler_case(skind, name, mk, info, 2, k, False))
            if name in (("Interval", "Interval[t]") if quick else ("Interval", "Interval[t]", "Circle", "Circle[t]")):
                cs.append(sampler_case(skind, name, mk, info, 2, 2, True))
                cs.append(sampler_case(skind, name, mk, info, 2, 0 if not dep else 1, True))
        if name in ("Interval[t]", "Circle[t]"):
            for skind in ("grid", "random"):
                cs.append(sampler_case(skind, name, mk, info, 2, 2, False, extra_var=True))
        if name in ("Interval", "Circle"):
            cs.append(sampler_case("grid", name, mk, info, 2, 2, False, extra_var=True))
            for skind in ("gauss", "lhs", "brandom", "bgrid"):
                cs.append(sampler_case(skind, name, mk, info, 2, 0, False))
                cs.append(sampler_case(skind, name, mk, info, 2, 2, False))
            cs.append(sampler_case("random", name, mk, info, 2, 2, False, static=True))
            cs.append(sampler_case("random", name, mk, info, 2, 2, False, second_k=0))
            cs.append(sampler_case("grid", name, mk, info, 2, 2, False, second_k=0))
    for op in ("product", "concat", "append"):
        cs.append(algebra_case(op, "Circle", "Interval" if op != "concat" else "Circle", 2, 2))
        cs.append(algebra_case(op, "Interval", "Interval", 2, 2 if op == "append" else 1, k=2))
        if op == "product":
            cs.append(algebra_case(op, "Circle", "Interval", 2, 2, grid_a=True))
            cs.append(algebra_case(op, "Circle", "Interval", 1, 2, dep=True))
            cs.append(algebra_case(op, "Interval", "Interval", 2, 2, dep=True, grid_a=True))
        if not quick:
            cs.append(algebra_case(op, "Parallelogram", "Interval" if op != "concat" else "Parallelogram", 3, 3 if op == "append" else 2))
    for k in (0, 2):
        cs.append(data_case(k, False))
        cs.append(data_case(k, True))
        if k:
            cs.append(data_case(k, False, second_call=True))
    return cs
