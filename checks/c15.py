"""C15  Static and adaptive samplers follow their documented state machines.

*Static.*  The real `StaticSampler` (also obtained through `PointSampler.make_static`) wraps a stub
inner sampler that returns a fresh, non-empty `Points` carrying its draw number as tag.  The resample
interval is a symbolic int; a prefix of M calls is executed; the path conditions partition the
interval values; on every path z3 is asked whether the tag returned by call t is floor((t-1)/r) --
identical set within a block, fresh set after exactly r uses.  Histories with re-staticising
(`make_static(r2)` at a symbolic position), device/params arguments, `math.inf`, and `next()` are
compared with the documented reference machine

    use:            if no set yet or uses >= interval: draw a fresh set, uses := 1   else uses += 1
    make_static(r): interval := r

An inductive family starts from an *arbitrary* state (counter, cached set) with intervals up to 10^6,
which extends the claim to call histories of any length.

*Adaptive.*  The real `AdaptiveThresholdRejectionSampler` / `AdaptiveRandomRejectionSampler` over a real
domain with symbolic shape parameters, symbolic loss vector and ratio, under SymMode; the Boolean-mask
fork enumerates the keep sets.  Goals: row count constant; rows with loss >= min + ratio*(max-min)
(random variant: loss_i >= min + (max-min)*u_i for the i-th fresh uniform draw, i.e. kept with
probability (loss_i-min)/(max-min)) keep their previous coordinates cell by cell, all others equal
the corresponding row of the fresh sample, which lies inside the domain.
"""
from __future__ import annotations

import math

import torch
import torchphysics as tp
from torch.utils._python_dispatch import TorchDispatchMode
from torchphysics.problem.spaces.points import Points
from torchphysics.problem.samplers.sampler_base import PointSampler, StaticSampler
from torchphysics.problem.samplers.random_samplers import (AdaptiveRandomRejectionSampler, AdaptiveThresholdRejectionSampler,
                                                           RandomUniformSampler)

from symtorch.harness import Case
from . import shapes as SH

BOUNDS = {"quick": dict(R=4, M=9, n=3), "thorough": dict(R=8, M=20, n=4)}

META = dict(
    level="model_checking",
    bounds="static: resample interval symbolic in [1,R] (and math.inf), prefixes of M calls (R=4,M=9 quick; R=8,M=20 thorough), "
           "re-staticising at every position with a second symbolic interval, device/params arguments; inductive step from an "
           "arbitrary state with interval and counter up to 10^6; adaptive: n<=3 (quick) / 4 (thorough) points, all loss vectors, "
           "all ratios, all keep sets, Interval (and Parallelogram, Circle in thorough) with symbolic shape parameters, two "
           "consecutive adaptive steps",
    outside=["density-based adaptive sampling (point count from the volume)", "adaptive samplers with filter_fn or parameter points",
             "devices other than cpu", "loss tensors of shape other than (n,)"],
    assumptions=["the inner sampler of a StaticSampler is a stub that returns a fresh non-empty tagged Points per call",
                 "next(sampler) is a use of the sampler (PointSampler.__iter__: 'with next the sample_points method can be called')",
                 "rand/rand_like draws are arbitrary reals in [0,1); 'kept with the stated probability' is checked as the keep "
                 "condition on the i-th fresh draw u_i (kept iff (max-min)*u_i <= loss_i-min)"],
)

TAGSPACE = tp.spaces.R1("x")


class _Tagged(PointSampler):
    """stub inner sampler: every call returns a fresh one-row Points whose coordinate is the draw number"""

    def __init__(self, space=None):
        super().__init__(n_points=1)
        self.calls = 0
        self.devices = []
        self.params = []
        self.space = space or TAGSPACE

    def sample_points(self, params=Points.empty(), device="cpu", **kwargs):
        self.devices.append(device)
        self.params.append(params)
        p = Points(torch.tensor([[float(self.calls)], [float(self.calls) + 0.5]]), self.space)
        self.calls += 1
        return p


def _tag(p):
    t = p.as_tensor
    assert tuple(t.shape) == (2, 1)
    return int(round(float(t[0, 0])))


CPU = torch.device("cpu")  # distinguishable (by identity) from the default argument "cpu"
PRM = Points.empty()  # distinguishable (by identity) from the default argument
CPU0 = torch.device("cpu", 0)  # another legal spelling of the same device
CALL_ARGS = [dict(), dict(device=CPU), dict(params=PRM, device="cpu"), dict(params=PRM), dict(device="cpu"),
             dict(device="cpu:0"), dict(device=CPU0), dict(params=PRM, device="cpu:0")]


def _forwarded(tags, inner):
    """the inner sampler received the params/device arguments of exactly the calls that drew a fresh set"""
    ok, seen = len(inner.devices) == len(inner.params), -1
    k = 0
    for t, tag in enumerate(tags):
        if tag != seen:  # call t drew set number `tag`
            seen = tag
            a = CALL_ARGS[t % len(CALL_ARGS)]
            ok = ok and k < len(inner.devices) and (inner.devices[k] is a["device"] if "device" in a else inner.devices[k] == "cpu") and (
                inner.params[k] is a["params"] if "params" in a else len(inner.params[k]) == 0)
            k += 1
    return ok and k == len(inner.devices)



def _mk_static(ctor, inner, r):
    if ctor == "StaticSampler":
        return StaticSampler(inner, r) if r is not None else StaticSampler(inner)
    return inner.make_static(r) if r is not None else inner.make_static()


def _iv(env, x):
    """formula-level value of an interval (None = math.inf)"""
    return None if x is None else env.v(x)


def _ref_tags(L, ops):
    """documented reference machine -> expected tag of every use"""
    uses, tag, r = 0, -1, None
    out = []
    for op in ops:
        if op[0] == "make_static":
            r = op[1]
            continue
        fresh = L.eq(uses, 0) if r is None else L.Or(L.eq(uses, 0), L.ge(uses, r))
        tag = L.If(fresh, tag + 1, tag)
        uses = L.If(fresh, 1, uses + 1)
        out.append(tag)
    return out


# --------------------------------------------------------------------------
# static sampler
# --------------------------------------------------------------------------


def static_plain_case(R, M, ctor):
    name = "static/plain/%s/R%d_M%d" % (ctor, R, M)

    def body(env):
        r = env.integer("r", 1, R)
        inner = _Tagged()
        s = _mk_static(ctor, inner, r)
        tags = [_tag(s.sample_points(**CALL_ARGS[t % len(CALL_ARGS)])) for t in range(M)]
        return dict(tags=tags, r=env.v(r), draws=inner.calls, forwarded=_forwarded(tags, inner), is_static=(s.is_static, inner.is_static))

    def goals(o, L, env):
        r = o["r"]
        for t, tag in enumerate(o["tags"], start=1):
            want = (t - 1) / r if env.symbolic else (t - 1) // int(r)  # z3 integer division
            yield "tag_is_floor((t-1)/r)[call%d]" % t, L.eq(tag, want)
        last = (M - 1) / r if env.symbolic else (M - 1) // int(r)
        yield "inner_sampler_drawn_once_per_block", L.eq(o["draws"], last + 1)
        yield "params_and_device_forwarded_to_inner_sampler", o["forwarded"]
        yield "is_static_flags", list(o["is_static"]) == [True, False]

    return Case(name, body, goals, family="static/plain", params=dict(R=R, M=M, ctor=ctor), max_paths=4 * R + 8, max_decisions=4 * M + 16,
                max_forks_per_site=R + 4)


def static_twins_case(R, M, second):
    """TWO static samplers made from one base sampler (make_static called twice), used alternately: each follows its own
    state machine -- its point set is kept for exactly its own resample interval of its own uses"""
    name = "static/twins/second_%s/R%d_M%d" % (second, R, M)
    pattern = [0, 1, 0, 0, 1, 1, 0, 1, 0, 0, 1, 0, 1, 1, 0, 0][:M]

    def body(env):
        r1 = env.integer("r1", 1, R)
        r2 = env.integer("r2", 1, R) if second == "sym" else None
        inner = _Tagged()
        a = inner.make_static(r1)
        b = inner.make_static(r2) if r2 is not None else inner.make_static()
        tags = [_tag((a, b)[w].sample_points()) for w in pattern]
        return dict(tags=tags, r=[env.v(r1), _iv(env, r2)], distinct=a is not b, ivs=[a.resample_interval, b.resample_interval])

    def goals(o, L, env):
        yield "two_wrappers", bool(o["distinct"])
        for w in (0, 1):
            own = [tag for tag, who in zip(o["tags"], pattern) if who == w]
            r = o["r"][w]
            for t in range(len(own)):
                for u in range(t + 1, len(own)):
                    if r is None:
                        same_block = True
                    else:
                        same_block = L.eq(t / r, u / r) if env.symbolic else (t // int(r) == u // int(r))
                    yield "own_uses_%d_and_%d_of_sampler%d" % (t + 1, u + 1, w), L.If(same_block, L.eq(own[t], own[u]), L.lt(own[t], own[u]))

    return Case(name, body, goals, family="static/twins", params=dict(R=R, M=M, second=second), max_paths=R * R * 4 + 8,
                max_decisions=6 * M + 16, max_forks_per_site=R + 4)


def static_product_case(R, M, second):
    """a PRODUCT of two individually static samplers (first factor: interval r, second: infinite or its own interval),
    used M times: the first factor is redrawn after exactly r uses of the product"""
    name = "static/product_of_static_samplers/second_%s/R%d_M%d" % (second, R, M)

    def body(env):
        r = env.integer("r", 1, R)
        r2 = env.integer("r2", 1, R) if second == "sym" else None
        a, b = _Tagged(), _Tagged(tp.spaces.R1("t"))
        prod = a.make_static(r) * (b.make_static(r2) if r2 is not None else b.make_static())
        tags = [_tag(prod.sample_points()) for _ in range(M)]
        return dict(tags=tags, r=env.v(r), draws=a.calls)

    def goals(o, L, env):
        r = o["r"]
        for t, tag in enumerate(o["tags"], start=1):
            want = (t - 1) / r if env.symbolic else (t - 1) // int(r)
            yield "first_factor_tag_is_floor((t-1)/r)[call%d]" % t, L.eq(tag, want)

    return Case(name, body, goals, family="static/product_of_static_samplers", params=dict(R=R, M=M, second=second),
                max_paths=R * R * 4 + 8, max_decisions=6 * M + 16, max_forks_per_site=R + 4)


def static_inf_case(M, ctor, explicit):
    name = "static/inf/%s/%s/M%d" % (ctor, "explicit" if explicit else "default", M)

    def body(env):
        inner = _Tagged()
        s = _mk_static(ctor, inner, math.inf if explicit else None)
        tags = [_tag(s.sample_points(**CALL_ARGS[t % len(CALL_ARGS)])) for t in range(M)]
        return dict(tags=tags, draws=inner.calls)

    def goals(o, L, env):
        yield "never_resampled", all(t == 0 for t in o["tags"]) and o["draws"] == 1

    return Case(name, body, goals, family="static/inf", params=dict(M=M, ctor=ctor), nontrivial=False)


def static_restatic_case(R, M, first, second):
    """make_static(second) after a symbolic number a of uses of a sampler created with interval `first`;
    first/second: 'sym' (symbolic in [1,R]) or 'inf'"""
    name = "static/restaticise/%s_to_%s/R%d_M%d" % (first, second, R, M)

    def body(env):
        r1 = env.integer("r1", 1, R) if first == "sym" else None
        r2 = env.integer("r2", 1, R) if second == "sym" else None
        a = int(env.integer("a", 0, M))  # position of the re-staticising (forks)
        inner = _Tagged()
        s = _mk_static("make_static", inner, r1)
        ops, tags = [("make_static", _iv(env, r1))], []
        for t in range(M):
            if t == a:
                s2 = s.make_static(r2) if r2 is not None else s.make_static()
                assert s2 is s
                ops.append(("make_static", _iv(env, r2)))
            tags.append(_tag(s.sample_points(**CALL_ARGS[t % len(CALL_ARGS)])))
            ops.append(("use",))
        return dict(tags=tags, ops=ops, draws=inner.calls)

    def goals(o, L, env):
        want = _ref_tags(L, o["ops"])
        if M > 12:  # long prefixes: one query per path instead of one per call
            yield "tag_follows_reference_machine[all calls]", L.And([L.eq(tag, w) for tag, w in zip(o["tags"], want)])
        else:
            for t, (tag, w) in enumerate(zip(o["tags"], want), start=1):
                yield "tag_follows_reference_machine[call%d]" % t, L.eq(tag, w)
        yield "inner_sampler_drawn_once_per_block", L.eq(o["draws"], want[-1] + 1)

    return Case(name, body, goals, family="static/restaticise", params=dict(R=R, M=M, first=first, second=second),
                max_paths=(M + 2) * (R + 1) * (R + 1) + 16, max_decisions=6 * M + 32, max_forks_per_site=M + R + 4, int_hi=M + 1)


def static_next_case(R, M, pattern):
    """next(sampler) interleaved with sample_points(); pattern: string over S (sample_points) / N (next)"""
    name = "static/next/%s/R%d" % (pattern, R)

    def body(env):
        r = env.integer("r", 1, R)
        inner = _Tagged()
        s = StaticSampler(inner, r)
        assert iter(s) is s
        tags = [_tag(next(s) if c == "N" else s.sample_points()) for c in pattern]
        return dict(tags=tags, r=env.v(r))

    def goals(o, L, env):
        want = _ref_tags(L, [("make_static", o["r"])] + [("use",)] * len(pattern))
        for t, (tag, w) in enumerate(zip(o["tags"], want), start=1):
            yield "tag_follows_reference_machine[call%d:%s]" % (t, pattern[t - 1]), L.eq(tag, w)

    return Case(name, body, goals, family="static/next", params=dict(R=R, pattern=pattern), max_paths=4 * R + 8,
                max_decisions=4 * len(pattern) + 16, max_forks_per_site=R + 4)


BIG = 10 ** 6


def static_step_case(kind):
    """inductive step from an arbitrary state: cached set present, counter c (the set has been used c+1 times)"""
    name = "static/step/%s" % kind

    def body(env):
        inner = _Tagged()
        c = env.integer("c", 0, BIG)
        if kind == "inf":
            r = None
            s = StaticSampler(inner)
        else:
            r = env.integer("r", 1, BIG)
            s = StaticSampler(inner, r)
        P0 = inner.sample_points()
        s.created_points = P0
        s.counter = c
        r2 = None
        if kind == "restaticise":
            r2 = env.integer("r2", 1, BIG)
            same = s.make_static(r2) is s and s.created_points is P0
            kept = dict(same=same, counter=env.v(s.counter))
        else:
            kept = dict(same=True, counter=env.v(c))
        out = s.sample_points(device="cpu")
        return dict(fresh=out is not P0, tag=_tag(out), c=env.v(c), r=_iv(env, r2 if kind == "restaticise" else r), post=env.v(s.counter),
                    cached_is_returned=s.created_points is out, kept=kept, draws=inner.calls)

    def goals(o, L, env):
        c, r = o["c"], o["r"]
        uses = c + 1
        elapsed = False if r is None else L.ge(uses, r)
        yield "restaticising_keeps_set_and_count", L.And(o["kept"]["same"], L.eq(o["kept"]["counter"], c))
        yield "fresh_iff_interval_elapsed", L.Iff(o["fresh"], elapsed)
        yield "fresh_set_is_a_new_draw", L.Iff(o["fresh"], o["tag"] == 1) and (o["draws"] == (2 if o["fresh"] else 1))
        yield "returned_set_is_cached", o["cached_is_returned"]
        yield "use_count_tracked", L.eq(o["post"] + 1, L.If(o["fresh"], 1, uses + 1))

    return Case(name, body, goals, family="static/step", params=dict(kind=kind))


# --------------------------------------------------------------------------
# non-static sampler: fresh draw on every call
# --------------------------------------------------------------------------


class _RandRec(TorchDispatchMode):
    """records the result of every uniform draw (works above SymMode and above the replay RNG)"""

    NAMES = ("rand", "rand_like")

    def __init__(self):
        super().__init__()
        self.draws = []

    def __torch_dispatch__(self, func, types, args=(), kwargs=None):
        out = func(*args, **(kwargs or {}))
        if func._schema.name.split("::", 1)[1] in self.NAMES:
            self.draws.append(out.clone())  # the code under test goes on in place on the drawn tensor
        return out


def nonstatic_case(n, calls, density=False):
    """density: the sampler is built with density= instead of n_points= (the interval has length n/2 and the density is 2,
    so that n points are due)"""
    name = "nonstatic/RandomUniformSampler/%s%d_calls%d" % ("density_n" if density else "n", n, calls)

    def body(env):
        sh = SH.interval(env)
        SH.assume_positive(env, sh, [{}])
        if density:
            lb_, ub_ = sh.oset.bbox({}, env.L)[0]
            env.assume(env.L.eq(ub_ - lb_, env.L.num(n) / 2))
            s = RandomUniformSampler(sh.dom, density=2)
        else:
            s = RandomUniformSampler(sh.dom, n_points=n)
        with _RandRec() as rec:
            pts = [s.sample_points() if k % 2 == 0 else next(s) for k in range(calls)]
        lb, ub = sh.oset.bbox({}, env.L)[0]
        return dict(pts=[p.as_tensor for p in pts], draws=[d.reshape(-1) for d in rec.draws], lb=lb, ub=ub, distinct=len({id(p) for p in pts}),
                    is_static=s.is_static)

    def goals(o, L, env):
        yield "one_draw_per_call", len(o["draws"]) == calls and o["distinct"] == calls and o["is_static"] is False
        if len(o["draws"]) != calls:
            return
        for k in range(calls):
            yield "call_uses_its_own_fresh_draw[call%d]" % (k + 1), L.And(
                [L.eq(o["pts"][k][j][0], o["lb"] + (o["ub"] - o["lb"]) * o["draws"][k][j]) for j in range(n)] + [len(o["pts"][k]) == n])

    return Case(name, body, goals, family="nonstatic", params=dict(n=n, calls=calls, density=density))


# --------------------------------------------------------------------------
# adaptive samplers
# --------------------------------------------------------------------------


def _minmax(L, xs):
    lo = hi = xs[0]
    for x in xs[1:]:
        lo, hi = L.min(lo, x), L.max(hi, x)
    return lo, hi


def adaptive_case(variant, kind, n, steps=1):
    name = "adaptive/%s/%s/n%d%s" % (variant, kind, n, "" if steps == 1 else "_steps%d" % steps)

    def body(env):
        sh = SH.PRIMS[kind](env)
        SH.assume_positive(env, sh, [{}])
        if variant == "threshold":
            ratio = env.scalar("ratio")
            s = AdaptiveThresholdRejectionSampler(sh.dom, resample_ratio=ratio, n_points=n)
        else:
            ratio = None
            s = AdaptiveRandomRejectionSampler(sh.dom, n_points=n)
        fresh, inner_draws = [], [0]
        inner_sample = s.random_sampler.sample_points

        def recording(*a, **kw):  # the real RandomUniformSampler, its result recorded
            k0 = len(rec.draws)
            p = inner_sample(*a, **kw)
            inner_draws[0] += len(rec.draws) - k0
            fresh.append(p.as_tensor.clone())
            return p

        s.random_sampler.sample_points = recording
        trace = []
        with _RandRec() as rec:
            p0 = s.sample_points()
            first = p0.as_tensor.clone()
            for k in range(steps):
                loss = env.tensor("loss%d" % k, (n,))
                prev = s.last_points.as_tensor.clone()
                n_draws = len(rec.draws) - inner_draws[0]
                out = s.sample_points(unreduced_loss=loss)
                u = rec.draws[-1] if variant == "random" else None
                trace.append(dict(loss=loss, prev=prev, new=out.as_tensor.clone(), fresh=fresh[-1], u=u, same_object=out is s.last_points,
                                  draws=len(rec.draws) - inner_draws[0] - n_draws))
        member = [[sh.oset.closure(SH.elems(env, f[i]), {}, env.L, 0) for i in range(f.shape[0])] for f in fresh]
        return dict(first=first, fresh0=fresh[0], trace=trace, ratio=None if ratio is None else env.v(ratio), member=member, is_adaptive=s.is_adaptive,
                    n_fresh=len(fresh))

    def goals(o, L, env):
        yield "first_call_returns_the_fresh_sample", L.And(len(o["first"]) == n, [_rows(L, a, b) for a, b in zip(o["first"], o["fresh0"])])
        yield "one_fresh_sample_per_call", o["n_fresh"] == steps + 1 and o["is_adaptive"] is True
        for m, ok in enumerate(o["member"]):
            yield "fresh_points_inside_domain[sample%d]" % m, L.And(ok + [len(ok) == n])
        for k, st in enumerate(o["trace"]):
            tagk = "" if steps == 1 else "step%d," % (k + 1)
            yield "row_count_constant[%s]" % tagk.rstrip(","), len(st["new"]) == n == len(st["prev"]) == len(st["fresh"]) and st["same_object"]
            if not (len(st["new"]) == n == len(st["prev"]) == len(st["fresh"])):
                continue
            lo, hi = _minmax(L, st["loss"])
            if variant == "random":
                yield "one_uniform_draw_per_point[%s]" % tagk.rstrip(","), st["draws"] == 1 and len(st["u"]) == n
                if len(st["u"]) != n:
                    continue
            for i in range(n):
                if variant == "threshold":
                    keep = L.ge(st["loss"][i], lo + o["ratio"] * (hi - lo))
                else:
                    # kept iff u_i <= (loss_i - min)/(max - min): probability (loss_i-min)/(max-min) for a uniform draw
                    keep = L.le((hi - lo) * st["u"][i], st["loss"][i] - lo)
                yield "kept_rows_unchanged[%srow%d]" % (tagk, i), L.Implies(keep, _rows(L, st["new"][i], st["prev"][i]))
                yield "other_rows_replaced_by_fresh_rows[%srow%d]" % (tagk, i), L.Implies(L.Not(keep), _rows(L, st["new"][i], st["fresh"][i]))

    return Case(name, body, goals, family="adaptive/%s/%s" % (variant, kind), params=dict(variant=variant, kind=kind, n=n, steps=steps),
                max_paths=(2 ** n) ** steps + 8, max_decisions=8 * n * steps + 16, max_forks_per_site=(2 ** n) ** steps + 4)


def _rows(L, a, b):
    return L.And([L.eq(x, y) for x, y in zip(a, b)] + [len(a) == len(b)])


# --------------------------------------------------------------------------


def cases(tier):
    b = BOUNDS[tier]
    R, M, n = b["R"], b["M"], b["n"]
    th = tier == "thorough"
    cs = []
    for ctor in ("StaticSampler", "make_static"):
        cs.append(static_plain_case(R, M, ctor))
        cs.append(static_inf_case(M, ctor, False))
    cs.append(static_inf_case(M, "make_static", True))
    cs.append(static_product_case(min(R, 3), min(M, 8), "inf"))
    cs.append(static_product_case(min(R, 3), min(M, 8), "sym"))
    cs.append(static_twins_case(min(R, 3), min(M, 10), "sym"))
    cs.append(static_twins_case(min(R, 3), min(M, 10), "inf"))
    cs.append(static_restatic_case(R, M, "sym", "sym"))
    cs.append(static_restatic_case(R, M, "sym", "inf"))
    cs.append(static_restatic_case(R, M, "inf", "sym"))
    for kind in ("interval", "inf", "restaticise"):
        cs.append(static_step_case(kind))
    pats = ["NSSSSSSSS", "SNSNSNSNS", "SNNNNNNNN"] if not th else ["NSSSSSSSSSSSSSSSSSSS", "SNSNSNSNSNSNSNSNSNSN", "SNNNNNNNNNNNNNNNNNNN",
                                                                  "SSNNSSNNSSNNSSNNSSNN"]
    for p in pats:
        cs.append(static_next_case(R, M, p))
    cs.append(nonstatic_case(2, 3))
    cs.append(nonstatic_case(2, 3, density=True))
    if th:
        cs.append(nonstatic_case(3, 4))
    kinds = ["Interval"] + (["Parallelogram", "Circle"] if th else [])
    for variant in ("threshold", "random"):
        for kind in kinds:
            for k in sorted({1, 2, n}):
                cs.append(adaptive_case(variant, kind, k))
        cs.append(adaptive_case(variant, "Interval", 2, steps=2))
    return cs
