"""C20  Fourier layers are shift-equivariant, resolution-consistent convolutions.

The real `_FourierLayer` / `FNO` modules (models/FNO.py) are executed on symbolic input
fields with symbolic complex kernels and symbolic channel maps; the FFTs are the exact
DFT kernels of symtorch/ops_fft.py (twiddles in Q(sqrt2,sqrt3), see there).

Goal families
  equivariant[axis,shift]   module(roll(x, s, axis)) == roll(module(x), s, axis), every spatial
                            axis, every non-trivial shift (elementwise polynomial identity)
  nodal_agreement           band-limited 1-D field sampled exactly on N and 2N nodes: the
                            single-layer outputs coincide at the shared nodes
  input_unchanged           the argument tensor's payload is what it was before the call(s)
  shape_preserved           output geometry
  fft_kernels_match_torch   differential self test of the engine's FFT kernels (234 transforms)
  engine_reproduces_torch_forward  the real modules evaluated by the engine on random concrete data
                            agree with float64 torch (whole pipeline: pad/truncate, complex mul_, ...)
"""
from __future__ import annotations

import contextlib
import itertools
from fractions import Fraction

import torch
import torchphysics as tp
from torchphysics.models.FNO import FNO, _FourierLayer
from torchphysics.problem.spaces.points import Points

from symtorch.harness import Case
from symtorch import ops_fft as F

META = dict(
    level="model_checking",
    bounds="single _FourierLayer: 1-D grids N in {2,3,4,6,8} (quick) / {2,3,4,6,8,12,24} (thorough); 2-D grids 2x2..4x4 (a sample "
           "in quick, all nine in thorough) plus 6x4, 4x6, 8x3, 3x8, 6x6, 2x12; 3-D 2x2x2, 2x3x2, 3x2x4, 4x4x2 and 4-D 2x2x2x2 "
           "(thorough); channels 1..2, batch 1..2; mode counts below / equal to / above the available half spectrum on every axis "
           "(truncation and zero padding); linear and skip connection on/off, bias on/off; every non-trivial shift along every "
           "spatial axis and one simultaneous shift of all axes.  FNO with 1..4 Fourier layers, identity and tanh (uninterpreted) "
           "activations, symbolic up/down-sampling maps, 1..2 input/output channels, 1-D N in {2,3,4,6,8,12}, 2-D 2x2, 3x4, 4x3, "
           "3-D 2x2x2, mode arguments in every documented form (int, per-layer list, tuple of N numbers, list of lists); the hidden "
           "state after every Fourier layer is compared as well.  Resolution pairs N->Nf with N in {2,3,4,6,8,12}, Nf a multiple of "
           "N in {4,6,8,12,24}, every band limit K < N/2 (field resolved by the coarse grid) with K below the kept modes, plus the "
           "cosine-only coarse-Nyquist edge K = N/2.  Input field / Fourier coefficients, complex kernel, all weights and biases "
           "are unconstrained real symbols.",
    outside=["grid sizes that do not divide 24 (roots of unity outside Q(sqrt2,sqrt3))",
             "the space_res batch-normalisation variant of the layer (per-node statistics and affine parameters: not a convolution)",
             "more than 2 channels, more than 4 Fourier layers, custom up/down-sampling networks",
             "band-limited inputs that the coarse grid does not resolve (frequencies >= N/2, except the cosine at N/2): "
             "their coarse samples alias, no grid-based operator can be consistent there"],
    assumptions=["tanh is an uninterpreted function (equalities by congruence)",
                 "the DFT kernels are the mathematical DFT with torch's normalisation conventions; they and the whole layer/FNO "
                 "pipeline are compared against the installed torch on random concrete inputs by the selftest cases of every run",
                 "the real inverse transform ignores the imaginary parts of the DC and Nyquist coefficients (behaviour of the "
                 "installed pocketfft/MKL backend, confirmed by the selftest)",
                 "equalities are asserted as two-sided bands of width 1e-3 (solver) / 1e-6 (float64 replay); all symbols are "
                 "unconstrained and both sides polynomial, so this is as strong as equality"],
)

FLAGS = {
    "plain": dict(lin=False, skip=False, bias=False),
    "lin": dict(lin=True, skip=False, bias=False),
    "linb": dict(lin=True, skip=False, bias=True),
    "skip": dict(lin=False, skip=True, bias=False),
    "all": dict(lin=True, skip=True, bias=True),
}


# --------------------------------------------------------------------------
# building the real modules with symbolic parameters
# --------------------------------------------------------------------------


def symbolize_parameters(env, module, tag):
    """replace every registered parameter by fresh symbols of the same shape (complex
    parameters: two real tensors joined by torch.complex); works in replay mode too"""
    n = 0
    for name, p in list(module.named_parameters()):
        shape = tuple(p.shape)
        base = "%s%d" % (tag, n)
        n += 1
        if p.is_complex():
            new = torch.complex(env.tensor(base + "re", shape), env.tensor(base + "im", shape))
        else:
            new = env.tensor(base, shape)
        parent, _, leaf = name.rpartition(".")
        mod = module.get_submodule(parent) if parent else module
        setattr(mod, leaf, torch.nn.Parameter(new))
    return n


def make_layer(env, C, modes, lin, skip, bias, tag="k"):
    layer = _FourierLayer(C, modes, linear_connection=lin, skip_connection=skip, bias=bias)
    symbolize_parameters(env, layer, tag)
    return layer


def _flat(v):
    if isinstance(v, (list, tuple)):
        for x in v:
            yield from _flat(x)
    else:
        yield v


# Two-sided band instead of bare equality: a solver counterexample must differ by more than
# TOL_SYM, which the float64 replay (band TOL_REPLAY) reproduces robustly -- an arbitrary model of
# `a != b` is typically 1e-18 off and would be lost in rounding.  All symbols are unconstrained and
# both sides are polynomial in them (tanh: uninterpreted), so a band that holds for all inputs is
# exactly as strong as equality.
TOL_SYM = Fraction(1, 1000)
TOL_REPLAY = 1e-6


def _all_eq(L, a, b):
    fa, fb = list(_flat(a)), list(_flat(b))
    if len(fa) != len(fb):
        return False
    tol = L.num(TOL_SYM if L.symbolic else TOL_REPLAY)
    return L.And([L.eq(x, y, tol) for x, y in zip(fa, fb)])


def _roll(v, s, ax):
    if isinstance(v, dict):
        return dict(out=torch.roll(v["out"], s, ax), hidden=[torch.roll(h, s, ax) for h in v["hidden"]])
    return torch.roll(v, s, ax)


def _real(v):
    if isinstance(v, dict):
        return dict(out=F.realize(v["out"]), hidden=[F.realize(h) for h in v["hidden"]])
    return F.realize(v)


def _shift_pairs(f, x, y, axes_sizes, combined=False):
    """[(label, f(roll(x)), roll(f(x)))] for every spatial axis / non-trivial shift; f returns a
    tensor or dict(out=tensor, hidden=[tensors]) (all of them are rolled and compared)"""
    out = []
    for ax, n in axes_sizes:
        for s in range(1, n):
            got = f(torch.roll(x, s, ax))
            out.append(("axis%d,shift%d" % (ax, s), _real(got), _real(_roll(y, s, ax))))
    if combined and len(axes_sizes) > 1:
        axes = [a for a, _ in axes_sizes]
        shifts = [1 + (i % max(n - 1, 1)) if n > 1 else 0 for i, (_, n) in enumerate(axes_sizes)]
        got = f(torch.roll(x, shifts, axes))
        out.append(("axes%s,shifts%s" % ("".join(map(str, axes)), "".join(map(str, shifts))), _real(got),
                    _real(_roll(y, shifts, axes))))
    return out


def _equiv_goals(o, L, env):
    yield "input_unchanged", _all_eq(L, o["x_after"], o["x_before"])
    yield "shape_preserved", bool(o["shape_ok"])
    for label, got, want in o["pairs"]:
        if isinstance(got, dict):  # FNO: hidden states after every Fourier layer, then the output
            for i, (g, w) in enumerate(zip(got["hidden"], want["hidden"])):
                yield "equivariant_hidden[layer%d,%s]" % (i, label), _all_eq(L, g, w)
            got, want = got["out"], want["out"]
        yield "equivariant[%s]" % label, _all_eq(L, got, want)


def _name_grid(N):
    return "x".join(str(n) for n in N)


# --------------------------------------------------------------------------
# case families
# --------------------------------------------------------------------------


def selftest_case():
    def body(env):
        r = F.selftest()
        return dict(compared=r["compared"], bad=len(r["bad"]), detail="; ".join(r["bad"][:5]))

    def goals(o, L, env):
        yield "fft_kernels_match_torch", o["bad"] == 0 and o["compared"] > 200

    return Case("selftest/fft_kernels", body, goals, family="selftest", params={}, check_obligations=False)


DIFF_CONFIGS = [
    # grid, channels, modes, flags
    ((4,), 2, 2, "all"), ((3,), 1, 3, "plain"), ((8,), 2, 7, "linb"), ((6,), 1, 2, "skip"), ((12,), 1, 5, "all"), ((24,), 1, 9, "plain"),
    ((2, 2), 1, (3, 1), "all"), ((3, 4), 2, (2, 2), "plain"), ((4, 3), 1, (5, 3), "lin"), ((8, 3), 1, (3, 2), "plain"),
    ((6, 4), 1, (7, 4), "all"), ((2, 3, 4), 1, (2, 2, 2), "all"), ((2, 2, 2), 2, (3, 3, 3), "plain"),
]


def engine_vs_torch_case():
    """differential test of the whole pipeline: the real _FourierLayer / FNO evaluated by the engine on
    random concrete (dyadic rational) weights and inputs must reproduce the float64 torch result"""
    import numpy as np

    def set_params(module, vals, conv):
        for name, p in list(module.named_parameters()):
            parent, _, leaf = name.rpartition(".")
            mod = module.get_submodule(parent) if parent else module
            v = vals[name]
            new = torch.complex(conv(v[0]), conv(v[1])) if p.is_complex() else conv(v)
            setattr(mod, leaf, torch.nn.Parameter(new))

    def body(env):
        rnd = np.random.RandomState(3)
        bad, compared = [], 0

        def draw(shape):
            return rnd.randint(-8, 9, size=tuple(shape)) / 4.0

        builders = []
        for N, C, modes, flags in DIFF_CONFIGS:
            fl = FLAGS[flags]
            builders.append(("layer N=%r C=%d M=%r %s" % (N, C, modes, flags), (2,) + tuple(N) + (C,),
                             lambda C=C, modes=modes, fl=fl: _FourierLayer(C, modes, linear_connection=fl["lin"],
                                                                          skip_connection=fl["skip"], bias=fl["bias"]), None))
        for N, modes, layers in (((4,), 3, 2), ((6,), [2, 4], 2), ((3, 4), [[2, 2], [4, 1]], 2)):
            X, U = tp.spaces.Rn("f", 2), tp.spaces.Rn("u", 1)
            builders.append(("fno N=%r M=%r L=%d" % (N, modes, layers), (1,) + tuple(N) + (2,),
                             lambda modes=modes, layers=layers, X=X, U=U: FNO(X, U, fourier_layers=layers, hidden_channels=2,
                                                                             fourier_modes=modes, skip_connections=True,
                                                                             activations=torch.nn.Identity()), X))
        for label, xshape, build, space in builders:
            with F.reference():
                old = torch.get_default_dtype()
                torch.set_default_dtype(torch.float64)
                try:
                    ref = build()
                    vals = {}
                    for name, p in ref.named_parameters():
                        vals[name] = (draw(p.shape), draw(p.shape)) if p.is_complex() else draw(p.shape)
                    xv = draw(xshape)
                    set_params(ref, vals, lambda a: torch.tensor(a, dtype=torch.float64))
                    xt = torch.tensor(xv, dtype=torch.float64)
                    want = (ref(Points(xt, space)).as_tensor if space is not None else ref(xt)).detach().numpy()
                finally:
                    torch.set_default_dtype(old)
            try:
                with F.engine():
                    mod = build()
                    set_params(mod, vals, F.exact_tensor)
                    xs = F.exact_tensor(xv)
                    got = mod(Points(xs, space)).as_tensor if space is not None else mod(xs)
                    val = F.engine_value(got)
            except Exception as e:  # reported through the goal
                bad.append("%s: engine raised %r" % (label, e))
                continue
            compared += 1
            err = float(np.abs(val - want).max()) if val.shape == want.shape else float("inf")
            if not err <= 1e-9 * max(1.0, float(np.abs(want).max())):
                bad.append("%s: max abs deviation %.3e" % (label, err))
        return dict(compared=compared, bad=len(bad), detail="; ".join(bad[:5]))

    def goals(o, L, env):
        yield "engine_reproduces_torch_forward", o["bad"] == 0 and o["compared"] == len(DIFF_CONFIGS) + 3

    return Case("selftest/modules_engine_vs_torch", body, goals, family="selftest", params={}, check_obligations=False)


def layer_case(N, C, modes, flags, B=1, nograd=False):
    """single Fourier layer on a grid N (tuple), every axis and shift; nograd: evaluated under torch.no_grad() (inference),
    the first result is kept and compared AFTER the later calls of the same layer object, and the layer is applied to its
    own output (which it must not modify)"""
    N = tuple(N)
    modes_t = tuple(modes) if isinstance(modes, (tuple, list)) else (modes,)
    fl = FLAGS[flags]
    name = "layer%dd/N%s/C%d/M%s/%s%s%s" % (len(N), _name_grid(N), C, _name_grid(modes_t), flags, "" if B == 1 else "/B%d" % B,
                                            "/no_grad" if nograd else "")

    def body(env):
        layer = make_layer(env, C, modes if len(N) > 1 else modes_t[0], **fl)
        x = env.tensor("x", (B,) + N + (C,))
        snap = F.snapshot(x)
        ctxm = torch.no_grad() if nograd else contextlib.nullcontext()
        with ctxm:
            y = layer(x)
            y_first = F.snapshot(y) if nograd else None
            axes = [(1 + i, n) for i, n in enumerate(N)]
            pairs = _shift_pairs(layer, x, y, axes, combined=True)
            res = dict(x_before=snap, x_after=F.realize(x), shape_ok=tuple(y.shape) == tuple(x.shape) and not y.is_complex(),
                       pairs=pairs)
            if nograd:
                y_now = F.realize(y)
                y2 = layer(y)
                res.update(first_result=[y_first, y_now, F.realize(y)], ok2=tuple(y2.shape) == tuple(y.shape))
        return res

    def goals(o, L, env):
        yield from _equiv_goals(o, L, env)
        if nograd:
            yield "first_result_intact_after_later_calls", _all_eq(L, o["first_result"][1], o["first_result"][0])
            yield "layer_does_not_modify_its_input_when_fed_its_own_output", bool(o["ok2"]) and _all_eq(L, o["first_result"][2], o["first_result"][0])

    return Case(name, body, goals, family="layer%dd/%s" % (len(N), flags),
                params=dict(N=N, C=C, modes=modes_t, B=B, nograd=nograd, **fl))


ACTS = {"id": torch.nn.Identity, "tanh": torch.nn.Tanh}


def fno_case(N, C, modes, layers, act, flags, in_dim=1, out_dim=1, modes_form="asis", reordered=False):
    """FNO(up-sampling, `layers` Fourier layers + activation, down-sampling).
    modes_form: 'asis' hands `modes` to the constructor unchanged (int, or the documented
    tuple of N numbers for an N-D domain), 'perlayer' hands a list with one entry per layer."""
    N = tuple(N)
    fl = FLAGS[flags]
    mt = tuple(modes) if isinstance(modes, (tuple, list)) else (modes,)
    name = "fno%dd/N%s/C%d/M%s%s/L%d/%s/%s%s" % (len(N), _name_grid(N), C, _name_grid(mt), "" if modes_form == "asis" else "pl",
                                                  layers, act, flags, "" if (in_dim, out_dim) == (1, 1) else "/io%d%d" % (in_dim, out_dim))
    if reordered:
        # the input field has two named channels (f, g); the Points handed to the model list them as (g, f)
        name += "/input_variables_reordered"

    def body(env):
        X = tp.spaces.Rn("f", in_dim) if not reordered else tp.spaces.R1("f") * tp.spaces.R1("g")
        XIN = X if not reordered else tp.spaces.R1("g") * tp.spaces.R1("f")
        U = tp.spaces.Rn("u", out_dim)
        fm = modes if modes_form == "asis" else [list(mt) if len(mt) > 1 else mt[0] for _ in range(layers)]
        model = FNO(X, U, fourier_layers=layers, hidden_channels=C, fourier_modes=fm, activations=ACTS[act](),
                    skip_connections=fl["skip"], linear_connections=fl["lin"], bias=fl["bias"])
        symbolize_parameters(env, model, "w")
        x = env.tensor("x", (1,) + N + (in_dim,))
        snap = F.snapshot(x)

        # observe the hidden state after every Fourier layer too (forward hooks of the real modules)
        hidden = []
        for m in model.fourier_sequential:
            if isinstance(m, _FourierLayer):
                m.register_forward_hook(lambda mod, inp, out: hidden.append(F.realize(out)))

        def f(t):
            del hidden[:]
            out = model(Points(t, XIN)).as_tensor
            return dict(out=out, hidden=list(hidden))

        y = f(x)
        same_named = None
        if reordered:  # the same named data in declaration order gives the same output
            y2 = model(Points(torch.flip(x, dims=(-1,)), X)).as_tensor
            same_named = (F.realize(y2), F.realize(y["out"]))
        axes = [(1 + i, n) for i, n in enumerate(N)]
        pairs = _shift_pairs(f, x, y, axes, combined=True)
        return dict(x_before=snap, x_after=F.realize(x), pairs=pairs, same_named=same_named,
                    shape_ok=tuple(y["out"].shape) == (1,) + N + (out_dim,) and len(y["hidden"]) == layers)

    def goals(o, L, env):
        yield from _equiv_goals(o, L, env)
        if o.get("same_named") is not None:
            yield "same_named_data_in_declaration_order", _all_eq(L, o["same_named"][0], o["same_named"][1])

    return Case(name, body, goals, family="fno%dd/%s/%s" % (len(N), act, flags),
                params=dict(N=N, C=C, modes=mt, layers=layers, act=act, modes_form=modes_form, **fl))


def resolution_case(N, K, C, M, flags, nyquist_cos=False, Nf=None):
    """1-D layer, field  a0 + sum_{k<=K} a_k cos(2 pi k x) + b_k sin(2 pi k x)  sampled exactly at
    j/N and j/Nf (Nf a multiple of N, default 2N).  K < N/2 (strictly below the coarse Nyquist
    frequency, i.e. the coarse samples determine the field) and K <= M-1 (below the kept modes);
    nyquist_cos: K == N/2 with the sine at K dropped (the coarse grid cannot see it), M >= N/2+1."""
    fl = FLAGS[flags]
    Nf = Nf or 2 * N
    r = Nf // N
    assert Nf == r * N and r >= 2
    name = "resolution/N%dto%d/K%d%s/C%d/M%d/%s" % (N, Nf, K, "nyqcos" if nyquist_cos else "", C, M, flags)
    if nyquist_cos:
        assert 2 * K == N and M >= K + 1
    else:
        assert 2 * K < N and K <= M - 1
    ncoef = 2 * K + 1 - (1 if nyquist_cos else 0)

    def body(env):
        layer = make_layer(env, C, M, **fl)
        coef = env.tensor("coef", (ncoef, C))
        tabs = {}
        for n in (N, Nf):
            t = F.trig_table(env.symbolic, n, K)
            tabs[n] = t[:, :ncoef]
        xc = torch.mm(tabs[N], coef)[None]
        xf = torch.mm(tabs[Nf], coef)[None]
        sc, sf = F.snapshot(xc), F.snapshot(xf)
        yc = layer(xc)
        yf = layer(xf)
        # the samples themselves agree at the shared nodes (sanity of the generator)
        gen_ok = [F.realize(xf[:, ::r]), F.realize(xc)]
        return dict(coarse=F.realize(yc), fine_shared=F.realize(yf[:, ::r]), gen=gen_ok,
                    x_before=[sc, sf], x_after=[F.realize(xc), F.realize(xf)],
                    shape_ok=tuple(yc.shape) == (1, N, C) and tuple(yf.shape) == (1, Nf, C))

    def goals(o, L, env):
        yield "input_unchanged", _all_eq(L, o["x_after"], o["x_before"])
        yield "shape_preserved", bool(o["shape_ok"])
        yield "samples_agree_at_shared_nodes", _all_eq(L, o["gen"][0], o["gen"][1])
        yield "nodal_agreement", _all_eq(L, o["fine_shared"], o["coarse"])

    return Case(name, body, goals, family="resolution/%s" % flags,
                params=dict(N=N, Nf=Nf, K=K, C=C, M=M, nyquist_cos=nyquist_cos, **fl))


def two_grids_case(N1, N2, C, M, flags):
    """history: the SAME layer object is evaluated on grid N1 and then on grid N2 (e.g. 2k then 2k+1 nodes, whose half
    spectra have the same shape): the second result is what a fresh layer with the same weights returns on N2"""
    fl = FLAGS[flags]
    N1, N2 = tuple(N1), tuple(N2)
    name = "two_grids/N%s_then_N%s/C%d/M%s/%s" % (_name_grid(N1), _name_grid(N2), C, _name_grid(M if isinstance(M, tuple) else (M,)), flags)

    def body(env):
        layer = make_layer(env, C, M, **fl)
        x1 = env.tensor("x1", (1,) + N1 + (C,))
        x2 = env.tensor("x2", (1,) + N2 + (C,))
        layer(x1)
        y2 = layer(x2)
        fresh = make_layer(env, C, M, **fl)  # same parameter symbols
        z2 = fresh(x2)
        axes = [(1 + i, n) for i, n in enumerate(N2)]
        pairs = _shift_pairs(layer, x2, y2, axes)
        return dict(shape_ok=tuple(y2.shape) == tuple(x2.shape) and not y2.is_complex(), got=F.realize(y2) if tuple(y2.shape) == tuple(z2.shape) else None,
                    want=F.realize(z2), pairs=pairs if tuple(y2.shape) == tuple(x2.shape) else [])

    def goals(o, L, env):
        yield "shape_preserved", bool(o["shape_ok"])
        if o["got"] is not None:
            yield "same_as_fresh_layer_on_second_grid", _all_eq(L, o["got"], o["want"])
        for label, got, want in o["pairs"]:
            yield "equivariant[%s]" % label, _all_eq(L, got, want)

    return Case(name, body, goals, family="two_grids/%s" % flags, params=dict(N1=N1, N2=N2, C=C, M=M, **fl),
                allowed_exc=())


def _mode_set_1d(N):
    half = N // 2 + 1  # length of the half spectrum
    return sorted({1, 2, half - 1, half, half + 1, N + 1} - {0})


def cases(tier):
    cs = [selftest_case(), engine_vs_torch_case()]
    thorough = tier == "thorough"

    # ---- single 1-D layers: every shift, modes truncating / exact / zero-padding ----------
    if not thorough:
        for N in (2, 3, 4):
            for M in (1, 2, 3, 4):
                for C, flags in ((1, "plain"), (2, "all"), (2, "lin"), (1, "skip")):
                    cs.append(layer_case((N,), C, M, flags))
        for N in (6, 8):
            for M in (2, N // 2 + 1, N // 2 + 2):
                cs.append(layer_case((N,), 1, M, "plain"))
                cs.append(layer_case((N,), 2, M, "all"))
        cs.append(layer_case((4,), 1, 2, "all", B=2))
    else:
        for N in (2, 3, 4, 6, 8, 12):
            for M in _mode_set_1d(N):
                for C, flags in ((1, "plain"), (2, "all"), (2, "lin"), (1, "skip"), (2, "linb"), (2, "plain")):
                    if N == 12 and C == 2 and flags not in ("all", "plain"):
                        continue
                    cs.append(layer_case((N,), C, M, flags))
        for M in (1, 12, 13, 14):
            cs.append(layer_case((24,), 1, M, "plain"))
        cs.append(layer_case((24,), 1, 13, "all"))
        cs.append(layer_case((4,), 2, 2, "all", B=2))
        cs.append(layer_case((6,), 1, 3, "all", B=2))
        cs.append(layer_case((8,), 1, 6, "lin", B=2))

    # ---- N-D layers: every axis, every shift -----------------------------------------------
    if not thorough:
        for N, m in (((2, 2), (1, 1)), ((2, 2), (2, 2)), ((3, 4), (2, 2)), ((4, 3), (5, 3)), ((3, 3), (3, 2)), ((4, 4), (3, 4))):
            cs.append(layer_case(N, 1, m, "plain"))
            cs.append(layer_case(N, 1, m, "all"))
        cs.append(layer_case((2, 2, 2), 1, (2, 2, 2), "plain"))
    else:
        grids = list(itertools.product((2, 3, 4), repeat=2)) + [(6, 4), (4, 6), (8, 3), (3, 8), (6, 6), (2, 12)]
        for N in grids:
            spec = (N[0], N[1] // 2 + 1)  # shape of the half spectrum
            mode_sets = [(1, 1), spec, (spec[0] + 1, spec[1] + 1), (max(spec[0] - 1, 1), spec[1] + 1), (spec[0] + 1, max(spec[1] - 1, 1)),
                         (max(spec[0] // 2, 1), max(spec[1] - 1, 1))]
            seen = set()
            for m in mode_sets:
                if m in seen:
                    continue
                seen.add(m)
                cs.append(layer_case(N, 1, m, "plain"))
                cs.append(layer_case(N, 1, m, "all"))
            if N[0] * N[1] <= 16:
                cs.append(layer_case(N, 2, spec, "all"))
                cs.append(layer_case(N, 2, (2, 2), "lin"))
        cs.append(layer_case((3, 4), 1, (2, 2), "lin", B=2))
        for N in ((2, 2, 2), (2, 3, 2), (3, 2, 4), (4, 4, 2)):
            for m in ((1, 1, 1), (2, 2, 2), (N[0] + 1, N[1], N[2] // 2 + 2)):
                cs.append(layer_case(N, 1, m, "plain"))
            cs.append(layer_case(N, 1, (2, 2, 2), "all"))
        cs.append(layer_case((2, 2, 2, 2), 1, (2, 2, 2, 2), "all"))

    # ---- inference mode (torch.no_grad): results of earlier calls stay intact, the layer can be fed its own output
    for N, m, flags in (((4,), 2, "plain"), ((4,), 3, "all"), ((3,), 2, "lin")) + ((((2, 2), (2, 2), "all"), ((6,), 3, "skip")) if thorough else ()):
        cs.append(layer_case(N, 1, m, flags, nograd=True))
    # ---- one layer object on two grids (2k and 2k+1 nodes share the shape of the half spectrum) ----------
    for N1, N2 in (((2,), (3,)), ((3,), (2,)), ((4,), (2,))) + ((((2, 2), (2, 3)), ((3, 3), (3, 2)), ((6,), (3,)), ((8,), (4,))) if thorough else ()):
        for flags in ("plain", "all"):
            cs.append(two_grids_case(N1, N2, 1, (2,) * len(N1) if len(N1) > 1 else 2, flags))
    # ---- FNO ------------------------------------------------------------------------------
    if not thorough:
        for N, M in ((4, 2), (3, 2), (2, 3), (8, 3), (6, 5)):
            for act in ("id", "tanh"):
                cs.append(fno_case((N,), 2, M, 1, act, "linb"))
        cs.append(fno_case((4,), 2, 2, 2, "tanh", "all"))
        cs.append(fno_case((4,), 1, 3, 2, "id", "plain"))
        cs.append(fno_case((3,), 2, 2, 1, "tanh", "skip", in_dim=2, out_dim=2))
        cs.append(fno_case((4,), 1, 2, 1, "tanh", "linb", in_dim=2, reordered=True))
        # 2-D domain, modes in the list-of-lists form and in the documented "tuple of N numbers" form
        cs.append(fno_case((2, 2), 1, (2, 2), 1, "tanh", "linb", modes_form="perlayer"))
        cs.append(fno_case((2, 2), 1, (2, 2), 3, "tanh", "linb", modes_form="asis"))
        cs.append(fno_case((2, 2), 1, (2, 2), 1, "tanh", "linb", modes_form="asis"))
    else:
        for N in (2, 3, 4, 6, 8):
            for M in (1, N // 2 + 1, N // 2 + 2):
                for act in ("id", "tanh"):
                    cs.append(fno_case((N,), 2, M, 1, act, "linb"))
                    cs.append(fno_case((N,), 1 if N > 4 else 2, M, 2, act, "all"))
                    cs.append(fno_case((N,), 1, M, 2, act, "plain"))
            cs.append(fno_case((N,), 1, 2, 3, "tanh", "plain"))
            cs.append(fno_case((N,), 1, 2, 3, "tanh", "linb"))
            cs.append(fno_case((N,), 2, 2, 1, "tanh", "skip", in_dim=2, out_dim=2))
        cs.append(fno_case((12,), 1, 4, 1, "tanh", "linb"))
        # per-layer mode lists in 1-D (documented form)
        cs.append(fno_case((4,), 1, [1, 3], 2, "tanh", "linb"))
        cs.append(fno_case((6,), 1, [4, 2, 5], 3, "tanh", "linb"))
        # N-D domains: the documented "tuple of N numbers" and the list-of-lists form
        for N in ((2, 2), (3, 4), (4, 3)):
            for layers in (1, 2, 3):
                cs.append(fno_case(N, 1, (2, 2), layers, "tanh", "linb", modes_form="asis"))
            cs.append(fno_case(N, 1, (2, 2), 1, "tanh", "linb", modes_form="perlayer"))
            cs.append(fno_case(N, 1, (2, 3), 2, "id", "all", modes_form="perlayer"))
            cs.append(fno_case(N, 2, (3, 1), 2, "tanh", "all", modes_form="perlayer"))
        cs.append(fno_case((2, 2, 2), 1, (2, 2, 2), 1, "tanh", "linb", modes_form="perlayer"))
        cs.append(fno_case((2, 2, 2), 1, (2, 2, 2), 4, "tanh", "linb", modes_form="asis"))
        cs.append(fno_case((2, 2, 2), 1, (2, 2, 2), 3, "tanh", "linb", modes_form="asis"))

    # ---- resolution consistency (single 1-D layer) ----------------------------------------
    if not thorough:
        res = [(2, 4, 0), (3, 6, 1), (4, 8, 1), (4, 12, 1), (6, 12, 2)]
    else:
        res = []
        for N in (2, 3, 4, 6, 8, 12):
            for Nf in (4, 6, 8, 12, 24):
                if Nf > N and Nf % N == 0:
                    for K in range(0, (N - 1) // 2 + 1):
                        res.append((N, Nf, K))
    for N, Nf, K in res:
        for M in sorted({K + 1, K + 2, N + 2}):
            for C, flags in ((1, "plain"), (2, "all")) + (((2, "lin"), (1, "skip")) if thorough and Nf <= 12 else ()):
                cs.append(resolution_case(N, K, C, M, flags, Nf=Nf))
    for N, Nf in (((4, 8),) if not thorough else ((2, 4), (2, 6), (4, 8), (4, 12), (6, 12), (8, 24), (12, 24))):
        for M in (N // 2 + 1, N // 2 + 2):
            cs.append(resolution_case(N, N // 2, 1, M, "plain", nyquist_cos=True, Nf=Nf))
            cs.append(resolution_case(N, N // 2, 2, M, "all", nyquist_cos=True, Nf=Nf))
    names = [c.name for c in cs]
    assert len(names) == len(set(names)), "duplicate case names"
    return cs
