"""C13  User functions receive their arguments by name.

The real `UserFunction` / `DomainUserFunction` (utils/user_fun.py) wrap *generated* user
functions of every signature shape.  Argument values are tokens = free symbolic reals
(scalars or tensor cells), presence of every name in the supplied mapping is a symbolic
bool (forked), the order of the supplied mapping is varied by configuration.  The generated
function returns the list of what it received (plus a captured constant), so every routing
claim is an equality between free symbols that only holds when the value stored under the
*name* arrived at the parameter of that name.
"""
from __future__ import annotations

import copy
import itertools

import torch

from torchphysics.utils.user_fun import UserFunction, DomainUserFunction
from torchphysics.problem.spaces.points import Points

from symtorch.harness import Case
from . import shapes as SH

META = dict(
    level="model_checking",
    bounds="generated functions with n<=3 (quick) / n<=4 (thorough) positional-or-keyword parameters and every number "
           "m<=n of trailing defaults; tokens are free symbolic reals (UserFunction+dict) or (2,1) tensors of free symbols "
           "(DomainUserFunction, Points route, vectorize route); presence of every declared name and of one undeclared name "
           "in the supplied mapping is a symbolic bool; 2 (quick) / 4 (thorough) orders of the supplied mapping; "
           "partial evaluation in two stages with symbolic membership in each stage; operation sequences of length <=2 "
           "(quick) / <=3 (thorough) over {call, minimal call, partially_evaluate(some), partially_evaluate(all), "
           "deepcopy+set_default, partially_evaluate+set_default on the result, re-wrap+call}",
    outside=["*args/**kwargs/keyword-only signatures (rejected by the class)", "more than 4 parameters",
             "callable objects (__call__) and functools.partial objects (plain functions, lambdas and bound methods are covered)",
             "vectorize=True for a zero-parameter function (batch size undefined)", "remove_default",
             "non-cpu devices", "shallow copy.copy of a wrapper (plain Python aliasing, not an API of the class)"],
    assumptions=["token values are arbitrary reals that are pairwise separated by at least 1 (an open set of assignments: "
                 "the code under test never inspects the values, so an identity on this set is an identity)"],
)

NAMES = ["u", "x", "t", "k"]  # declaration order differs from the sorted order (k, t, u, x)
EXTRA = "a"  # an undeclared name that may be present in the supplied mapping (sorts first)
R = 2  # rows of tensor tokens

BIG = dict(max_paths=2000, max_decisions=200, max_forks_per_site=100000)


# --------------------------------------------------------------------------
# generated user functions
# --------------------------------------------------------------------------


class Sig:
    """a generated user function of shape (n, m) and its tokens"""

    def __init__(self, env, n, m, tk, ret="list", ckind="def", vec_defaults=False, vec_first=False):
        self.n, self.m, self.tk = n, m, tk
        self.names = NAMES[:n]
        self.req = self.names[: n - m]
        self.opt = self.names[n - m:]
        self.universe = self.names + [EXTRA]
        if tk == "S":
            mk = lambda nm, shape=None: env.scalar(nm)
        else:
            mk = lambda nm, shape=None: env.tensor(nm, shape or (R, 1))
        self.tok = {nm: mk("tok_" + nm) for nm in self.universe}
        self.tok2 = {nm: mk("new_" + nm) for nm in self.universe}  # second set (set_default values)
        # with vec_defaults every second default is a 'constant parameter' of another length
        # (vec_first: the FIRST, third, ... default instead -- an absent constant declared before a supplied batched name)
        self.dfl = {nm: mk("dfl_" + nm, (1, 1) if (vec_defaults and i % 2 == (0 if vec_first else 1)) else None)
                    for i, nm in enumerate(self.opt)}
        self.K = mk("K")
        # tokens are pairwise distinct (separated by >= 1): the routing code never inspects values, and an identity
        # between arithmetic terms that holds on this open set holds everywhere; counterexamples become robust
        cells = []
        for d in (self.tok, self.tok2, self.dfl, {"K": self.K}):
            for nm in d:
                cells += [env.v(d[nm])] if tk == "S" else SH.elems(env, d[nm])
        for a, b in zip(cells, cells[1:]):
            env.assume(env.L.ge(b, a + 1))
        self.log = []
        self.defaults_tuple = tuple(self.dfl[nm] for nm in self.opt)
        params = list(self.req) + ["%s=_D[%d]" % (nm, i) for i, nm in enumerate(self.opt)]
        recv = ", ".join(self.names)
        glob = {"_D": self.defaults_tuple, "_LOG": self.log, "_K": self.K, "torch": torch}
        retexpr = "[_K%s]" % ("".join(", " + nm for nm in self.names))
        if ret == "cat":
            retexpr = "torch.cat(%s, dim=-1)" % retexpr
        if ckind == "def":
            src = "def user_f(%s):\n    _LOG.append(sorted(locals().keys()))\n    return %s\n" % (", ".join(params), retexpr)
            exec(src, glob)
            self.f = glob["user_f"]
            self.holder = None
        elif ckind == "lambda":
            src = "user_f = lambda %s: (_LOG.append(sorted(locals().keys())), %s)[1]\n" % (", ".join(params), retexpr)
            exec(src, glob)
            self.f = glob["user_f"]
            self.holder = None
        elif ckind == "method":
            src = ("class Holder:\n    def user_f(self, %s):\n        _LOG.append(sorted(k for k in locals().keys() if k != 'self'))\n"
                   "        return %s\n" % (", ".join(params), retexpr))
            exec(src, glob)
            self.holder = glob["Holder"]()
            self.f = self.holder.user_f
        else:
            raise ValueError(ckind)

    def ordered(self, order, names=None):
        u = list(self.universe if names is None else names)
        if order == "decl":
            return u
        if order == "rev":
            return u[::-1]
        if order == "rot":
            return u[1:] + u[:1]
        if order == "sorted":
            return sorted(u)
        raise ValueError(order)


def presence(env, name):
    """(decided python bool, formula-level bool)"""
    b = env.boolean(name)
    f = b.t if env.symbolic else bool(b)
    return bool(b), f


def presence_formulas(env, names, prefix):
    """symbolic membership bits, not yet decided: name -> (handle, formula)"""
    out = {}
    for nm in names:
        b = env.boolean(prefix + nm)
        out[nm] = (b, b.t if env.symbolic else bool(b))
    return out


def snapshot(w, sig, containers=()):
    f = sig.f
    fn = getattr(f, "__func__", f)
    return dict(w=w, defaults=w.defaults, d_items=list(w.defaults.items()), args=w.args, a_list=list(w.args), fun=w.fun,
                fdef=fn.__defaults__, fdef_items=list(fn.__defaults__ or ()), fcode=fn.__code__,
                cont=[(c, list(c.items())) for c in containers])


def _same_items(a, b):
    return len(a) == len(b) and all(ka == kb and va is vb for (ka, va), (kb, vb) in zip(a, b))


def unchanged(s, sig):
    """plain-Python facts: identity and content of the wrapper's state, the user's function and containers"""
    w = s["w"]
    fn = getattr(sig.f, "__func__", sig.f)
    out = {
        "wrapper_defaults_same_object": w.defaults is s["defaults"],
        "wrapper_defaults_same_content": _same_items(list(w.defaults.items()), s["d_items"]),
        "wrapper_args_same_object": w.args is s["args"],
        "wrapper_args_same_content": list(w.args) == s["a_list"],
        "wrapper_fun_same_object": w.fun is s["fun"],
        "user_function_defaults_untouched": fn.__defaults__ is s["fdef"] and len(s["fdef_items"]) == len(fn.__defaults__ or ())
        and all(a is b for a, b in zip(fn.__defaults__ or (), s["fdef_items"])),
        "user_function_code_untouched": fn.__code__ is s["fcode"],
        "user_containers_untouched": all(_same_items(list(c.items()), items) for c, items in s["cont"]),
    }
    return out


# ---- formula helpers (nested lists of z3 terms / floats) ------------------


def leaves(x):
    if isinstance(x, (list, tuple)):
        out = []
        for y in x:
            out += leaves(y)
        return out
    return [x]


def shape_of(x):
    if isinstance(x, (list, tuple)):
        return (len(x),) + (shape_of(x[0]) if len(x) else ())
    return ()


def _isnum(x):
    return isinstance(x, (int, float)) or hasattr(x, "sort") or x.__class__.__name__ == "Fraction"


def same(L, a, b):
    la, lb = leaves(a), leaves(b)
    if len(la) != len(lb) or not all(_isnum(x) for x in la + lb):
        return False
    return L.And([L.eq(x, y) for x, y in zip(la, lb)])


def ite(L, c, a, b):
    la, lb = leaves(a), leaves(b)
    if isinstance(c, bool):
        return la if c else lb
    if len(la) != len(lb):  # different shapes: the value is one of two differently shaped things
        raise ValueError("ite over different shapes needs a decided condition")
    return [L.If(c, x, y) for x, y in zip(la, lb)]


def token_cells(env, sig):
    """formula-level content of every user tensor before the code runs (tensor kinds only)"""
    if sig.tk == "S":
        return None
    pre = {}
    for grp, d in (("tok", sig.tok), ("new", sig.tok2), ("dfl", sig.dfl), ("K", {"K": sig.K})):
        for nm, t in d.items():
            pre[grp + "_" + nm] = (t, SH.elems(env, t))
    return pre


def token_cells_after(env, pre):
    if pre is None:
        return None
    return {k: (before, SH.elems(env, t)) for k, (t, before) in pre.items()}


def tokens_goals(o, L):
    if o.get("cells") is None:
        return
    for k, (before, after) in sorted(o["cells"].items()):
        yield "user_tensor_not_modified[%s]" % k, same(L, before, after)


def WCLS(kind):
    return DomainUserFunction if kind.startswith("DUF") else UserFunction


KINDS = {
    # kind: (token kind, return style, route)
    "UF": ("S", "list", "dict"),
    "UFT": ("T", "list", "dict"),
    "UFP": ("T", "list", "points"),
    "UFV": ("T", "list", "vectorize"),
    "DUF": ("T", "cat", "dict"),
    "DUFP": ("T", "cat", "points"),
}


def invoke(w, d, route):
    """call the wrapper the way the route says"""
    if route == "points":
        return w(Points.from_coordinates(dict(d)))
    if route == "vectorize":
        return w(d, vectorize=True)
    return w(d)


def expected_call(L, o, sig_names, opt, pf, kind, tok="tok", dfl="dfl"):
    """list (per declared parameter) of expected flat values for a *call* of the wrapper;
    pf: name -> formula/bool 'the name was supplied' """
    want = []
    for nm in sig_names:
        if nm in opt:
            want.append(ite(L, pf[nm], o[tok][nm], o[dfl][nm]))
        else:
            want.append(leaves(o[tok][nm]))
    return want


def received_call(out, n, kind):
    """normalise what the wrapper returned -> (K part, [per parameter flat values])"""
    ret = KINDS[kind][1]
    if ret == "list":
        return leaves(out[0]), [leaves(out[1 + j]) for j in range(n)]
    # DomainUserFunction: cat along the last axis then [:, None]  -> (R, 1, n+1)
    cols = [[row[0][j] for row in out] for j in range(n + 1)]
    return cols[0], cols[1:]


def received_raw(out, n, kind):
    """value of the user's function itself (what partially_evaluate returns)"""
    ret = KINDS[kind][1]
    if ret == "list":
        return leaves(out[0]), [leaves(out[1 + j]) for j in range(n)]
    cols = [[row[j] for row in out] for j in range(n + 1)]  # (R, n+1)
    return cols[0], cols[1:]


def shape_call_ok(out, n, kind):
    ret = KINDS[kind][1]
    if not isinstance(out, (list, tuple)):
        return False
    if ret == "list":
        return len(out) == n + 1
    return shape_of(out) == (R, 1, n + 1)


def shape_raw_ok(out, n, kind):
    ret = KINDS[kind][1]
    if not isinstance(out, (list, tuple)):
        return False
    if ret == "list":
        return len(out) == n + 1
    return shape_of(out) == (R, n + 1)


# --------------------------------------------------------------------------
# family 1: one call, everything about the supplied mapping symbolic
# --------------------------------------------------------------------------


def call_case(kind, n, m, order, ckind="def", vec_first=False):
    tk, ret, route = KINDS[kind]
    name = "call/%s/n%dm%d/%s%s%s" % (kind, n, m, order, "" if ckind == "def" else "/" + ckind, "/first_default_is_a_constant_vector" if vec_first else "")

    def body(env):
        sig = Sig(env, n, m, tk, ret, ckind, vec_defaults=(route == "vectorize"), vec_first=vec_first)
        w = WCLS(kind)(sig.f)
        pre = token_cells(env, sig)
        present, pf = {}, {}
        for nm in sig.universe:
            present[nm], pf[nm] = presence(env, "has_" + nm)
        d = {nm: sig.tok[nm] for nm in sig.ordered(order) if present[nm]}
        snap = snapshot(w, sig, [d])
        arg = d
        pts = None
        if route == "points":
            pts = Points.from_coordinates(dict(d))
            arg = pts
            pts_t, pts_space = pts._t, list(pts.space.items())
        raised, out = False, None
        try:
            if route == "vectorize":
                out = w(arg, vectorize=True)
            else:
                out = w(arg)
        except AssertionError:
            raised = True
        un = unchanged(snap, sig)
        if pts is not None:
            un["points_object_untouched"] = pts._t is pts_t and list(pts.space.items()) == pts_space
        return dict(raised=raised, out=out, tok=sig.tok, dfl=sig.dfl, K=sig.K, pf=pf, log=list(sig.log), un=un,
                    cells=token_cells_after(env, pre), declared=sorted(sig.names), req=sig.req, opt=sig.opt,
                    names=sig.names)

    def goals(o, L, env):
        pf = o["pf"]
        yield "rejected_iff_a_required_name_is_missing", L.Iff(o["raised"], L.Or([L.Not(pf[nm]) for nm in o["req"]]))
        if not o["raised"]:
            out = o["out"]
            if route == "vectorize":
                # apply_to_batch: one call per batch element i with the i-th entry of every batched input
                yield "one_result_per_batch_element", len(out) == R
                yield "called_with_exactly_declared_names", o["log"] == [o["declared"]] * R
                for i in range(min(len(out), R)):
                    for j, nm in enumerate(o["names"]):
                        got = leaves(out[i][1 + j])
                        t_i = leaves(o["tok"][nm][i])
                        if nm in o["opt"]:
                            dv = o["dfl"][nm]
                            d_i = leaves(dv[i]) if len(dv) == R else leaves(dv)
                            # presence is decided on every path; shapes of the two alternatives may differ
                            yield "routed_by_name[%s,row%d]" % (nm, i), L.And(
                                L.Implies(pf[nm], same(L, got, t_i)), L.Implies(L.Not(pf[nm]), same(L, got, d_i)))
                        else:
                            yield "routed_by_name[%s,row%d]" % (nm, i), same(L, got, t_i)
            else:
                yield "result_shape", shape_call_ok(out, n, kind)
                yield "called_with_exactly_declared_names", o["log"] == [o["declared"]]
                if shape_call_ok(out, n, kind):
                    gotK, got = received_call(out, n, kind)
                    want = expected_call(L, o, o["names"], o["opt"], pf, kind)
                    yield "captured_constant_returned", same(L, gotK, o["K"])
                    for j, nm in enumerate(o["names"]):
                        yield "routed_by_name[%s]" % nm, same(L, got[j], want[j])
        else:
            yield "user_function_not_called_when_rejected", o["log"] == []
        for k, v in o["un"].items():
            yield k, v
        yield from tokens_goals(o, L)

    return Case(name, body, goals, family="call/" + kind + ("" if ckind == "def" else "/" + ckind),
                params=dict(kind=kind, n=n, m=m, order=order, callable=ckind), **BIG)


def missing_case(kind, n, m, order):
    """dedicated rejection case: at least one required name is absent -> AssertionError on every path"""
    tk, ret, route = KINDS[kind]
    name = "missing/%s/n%dm%d/%s" % (kind, n, m, order)

    def body(env):
        sig = Sig(env, n, m, tk, ret)
        w = WCLS(kind)(sig.f)
        bits = presence_formulas(env, sig.universe, "has_")
        env.assume(env.L.Or([env.L.Not(bits[nm][1]) for nm in sig.req]))
        present = {nm: bool(bits[nm][0]) for nm in sig.universe}
        d = {nm: sig.tok[nm] for nm in sig.ordered(order) if present[nm]}
        return dict(out=invoke(w, d, route))

    def goals(o, L, env):
        # only reached when the call returned: same name as the harness' implicit goal, so a replay reproduces it
        return [("expected_exception_AssertionError", False)]

    return Case(name, body, goals, family="missing/" + kind, params=dict(kind=kind, n=n, m=m, order=order),
                expect_exc=AssertionError, **BIG)


# --------------------------------------------------------------------------
# family 2: partial evaluation in two stages
# --------------------------------------------------------------------------


def partial_case(kind, n, m, order):
    tk, ret, route = KINDS[kind]
    name = "partial/%s/n%dm%d/%s" % (kind, n, m, order)

    def body(env):
        sig = Sig(env, n, m, tk, ret)
        cls = WCLS(kind)
        w = cls(sig.f)
        pre = token_cells(env, sig)
        in1, pf1, pf2 = {}, {}, {}
        for nm in sig.universe:
            in1[nm], pf1[nm] = presence(env, "first_" + nm)
        d1 = {nm: sig.tok[nm] for nm in sig.ordered(order) if in1[nm]}
        snap = snapshot(w, sig, [d1])
        r = w.partially_evaluate(**d1)
        is_wrapper = isinstance(r, UserFunction)
        o = dict(is_wrapper=is_wrapper, pf1=pf1, tok=sig.tok, dfl=sig.dfl, K=sig.K, names=sig.names, req=sig.req,
                 opt=sig.opt, declared=sorted(sig.names))
        if not is_wrapper:
            o["value"] = r
            o["log1"] = list(sig.log)
        else:
            o["log1"] = list(sig.log)
            o["wrapper_is_new_object"] = r is not w
            o["wrapper_same_class"] = type(r) is cls
            o["wrapper_needs"] = sorted(r.necessary_args)
            o["needs_want"] = sorted(nm for nm in sig.req if not in1[nm])
            # second stage: every remaining required name, remaining optional names and the extra name symbolically
            in2 = {}
            for nm in sig.universe:
                if in1[nm] and nm != EXTRA:
                    in2[nm], pf2[nm] = False, False
                elif nm in sig.req:
                    in2[nm], pf2[nm] = True, True
                else:
                    in2[nm], pf2[nm] = presence(env, "second_" + nm)
            d2 = {nm: sig.tok[nm] for nm in sig.ordered(order)[::-1] if in2[nm]}
            snap_r = (r.defaults, list(r.defaults.items()))
            del sig.log[:]
            o["later"] = invoke(r, d2, route)
            o["log2"] = list(sig.log)
            again = r.partially_evaluate(**d2)  # now complete: must be the function value
            o["again_is_value"] = not isinstance(again, UserFunction)
            o["again"] = None if isinstance(again, UserFunction) else again
            both = dict(d1)
            both.update(d2)
            o["oneshot"] = invoke(w, both, route)
            o["pf2"] = pf2
            o["derived_wrapper_untouched_by_its_call"] = r.defaults is snap_r[0] and _same_items(list(r.defaults.items()), snap_r[1])
            o["cont2"] = _same_items(list(d2.items()), [(nm, sig.tok[nm]) for nm in d2])
        o["un"] = unchanged(snap, sig)
        o["cells"] = token_cells_after(env, pre)
        return o

    def goals(o, L, env):
        pf1 = o["pf1"]
        all_req = L.And([pf1[nm] for nm in o["req"]])
        for k, v in o["un"].items():
            yield k, v
        yield from tokens_goals(o, L)
        yield "value_iff_all_required_bound", L.Iff(o["is_wrapper"], L.Not(all_req))
        if not o["is_wrapper"]:
            yield "function_called_once_with_declared_names", o["log1"] == [o["declared"]]
            yield "result_shape", shape_raw_ok(o["value"], n, kind)
            if not shape_raw_ok(o["value"], n, kind):
                return
            gotK, got = received_raw(o["value"], n, kind)
            want = expected_call(L, o, o["names"], o["opt"], pf1, kind)
            yield "captured_constant_returned", same(L, gotK, o["K"])
            for j, nm in enumerate(o["names"]):
                yield "value_routed_by_name[%s]" % nm, same(L, got[j], want[j])
        else:
            yield "function_not_called_while_incomplete", o["log1"] == []
            for k in ("wrapper_is_new_object", "wrapper_same_class", "derived_wrapper_untouched_by_its_call"):
                yield k, o[k]
            yield "wrapper_requires_exactly_the_unbound_required_names", o["wrapper_needs"] == o["needs_want"]
            yield "second_stage_mapping_untouched", o["cont2"]
            yield "function_called_once_with_declared_names", o["log2"] == [o["declared"]]
            pf = {nm: L.Or(pf1[nm], o["pf2"][nm]) for nm in o["names"]}
            want = expected_call(L, o, o["names"], o["opt"], pf, kind)
            yield "second_partial_evaluation_is_a_value", o["again_is_value"]
            ok = shape_call_ok(o["later"], n, kind) and shape_call_ok(o["oneshot"], n, kind)
            yield "result_shape", ok
            if not ok:
                return
            gK, g_later = received_call(o["later"], n, kind)
            oK, g_one = received_call(o["oneshot"], n, kind)
            aK, g_again = received_raw(o["again"], n, kind) if o["again_is_value"] else (gK, g_later)
            yield "captured_constant_returned", L.And(same(L, gK, o["K"]), same(L, oK, o["K"]), same(L, aK, o["K"]))
            for j, nm in enumerate(o["names"]):
                yield "later_equals_one_full_evaluation[%s]" % nm, same(L, g_later[j], g_one[j])
                yield "later_routed_by_name[%s]" % nm, same(L, g_later[j], want[j])
                yield "second_partial_evaluation_is_the_value[%s]" % nm, same(L, g_again[j], want[j])

    return Case(name, body, goals, family="partial/" + kind, params=dict(kind=kind, n=n, m=m, order=order), **BIG)


# --------------------------------------------------------------------------
# family 3: operation sequences leave the original wrapper alone
# --------------------------------------------------------------------------

OPS = ("call", "callmin", "pe_some", "pe_all", "copy_sd", "pe_sd", "rewrap_call")


def _apply(op, w, sig, route, cls, rec):
    full = {nm: sig.tok2[nm] for nm in sig.ordered("rev")}  # values differ from the final call's tokens
    if op == "call":
        rec.append(("call", invoke(w, full, route)))
    elif op == "callmin":
        d = {nm: sig.tok2[nm] for nm in sig.req}
        if d or route == "dict":
            rec.append(("callmin", invoke(w, d, route)))
    elif op == "pe_some":
        names = sig.names[:1] + sig.names[-1:]
        w.partially_evaluate(**{nm: sig.tok2[nm] for nm in names})
    elif op == "pe_all":
        rec.append(("pe_all", w.partially_evaluate(**full)))
    elif op == "copy_sd":
        c = copy.deepcopy(w)
        c.set_default(**full)
        rec.append(("copy_sd", invoke(c, {EXTRA: sig.tok2[EXTRA]}, route)))  # every name now has a default
    elif op == "pe_sd":
        r = w.partially_evaluate(**{nm: sig.tok2[nm] for nm in sig.names[1:]})
        if isinstance(r, UserFunction):
            r.set_default(**full)
            r.partially_evaluate(**{sig.names[0]: sig.tok2[sig.names[0]]})
    elif op == "rewrap_call":
        rec.append(("call", invoke(cls(w), full, route)))
    elif op == "rewrap_sd":  # the aliasing scenario (family alias/)
        w2 = cls(w)
        w2.set_default(**full)
    elif op == "sibling_sd":  # ANOTHER wrapper of the same user function gets defaults for every name
        w2 = cls(sig.f)
        w2.set_default(**full)
    elif op == "bound_rewrap":  # a copy with one name bound by set_default is wrapped AGAIN: the binding survives
        c = copy.deepcopy(w)
        nm0 = sig.names[0]
        c.set_default(**{nm0: sig.tok2[nm0]})
        r = cls(c)
        rec.append(("call", invoke(r, {nm: sig.tok2[nm] for nm in list(sig.names[1:]) + [EXTRA]}, route)))
    elif op == "twin_function":  # another function object made from the SAME code (a factory / a lambda in a loop) but
        # with other declared defaults is wrapped and called: it uses ITS defaults
        import types
        f = sig.f
        twin = types.FunctionType(f.__code__, f.__globals__, f.__name__, tuple(sig.tok2[nm] for nm in sig.opt), f.__closure__)
        rec.append(("twin", invoke(cls(twin), {nm: sig.tok2[nm] for nm in list(sig.req) + [EXTRA]}, route)))
    elif op == "sibling_rd":  # ... or loses its declared defaults
        w2 = cls(sig.f)
        if sig.opt:
            w2.remove_default(*sig.opt)
    else:
        raise ValueError(op)


def seq_case(kind, n, m, seq, family="seq"):
    tk, ret, route = KINDS[kind]
    name = "%s/%s/n%dm%d/%s" % (family, kind, n, m, "-".join(seq))

    def body(env):
        sig = Sig(env, n, m, tk, ret)
        cls = WCLS(kind)
        w = cls(sig.f)
        pre = token_cells(env, sig)
        snap = snapshot(w, sig)
        rec = []
        for op in seq:
            _apply(op, w, sig, route, cls, rec)
        # final observation: one call of the ORIGINAL wrapper, membership symbolic
        present, pf = {}, {}
        for nm in sig.universe:
            present[nm], pf[nm] = presence(env, "has_" + nm)
        d = {nm: sig.tok[nm] for nm in sig.ordered("rot") if present[nm]}
        del sig.log[:]
        raised, out = False, None
        try:
            out = invoke(w, d, route)
        except AssertionError:
            raised = True
        return dict(raised=raised, out=out, tok=sig.tok, new=sig.tok2, dfl=sig.dfl, K=sig.K, pf=pf, log=list(sig.log),
                    un=unchanged(snap, sig), cells=token_cells_after(env, pre), rec=rec, names=sig.names, req=sig.req,
                    opt=sig.opt, declared=sorted(sig.names))

    def goals(o, L, env):
        pf = o["pf"]
        yield "rejected_iff_a_required_name_is_missing", L.Iff(o["raised"], L.Or([L.Not(pf[nm]) for nm in o["req"]]))
        if not o["raised"]:
            yield "result_shape", shape_call_ok(o["out"], n, kind)
            yield "called_with_exactly_declared_names", o["log"] == [o["declared"]]
            if shape_call_ok(o["out"], n, kind):
                gotK, got = received_call(o["out"], n, kind)
                want = expected_call(L, o, o["names"], o["opt"], pf, kind)  # ORIGINAL defaults
                for j, nm in enumerate(o["names"]):
                    yield "original_still_routes_by_name_with_declared_defaults[%s]" % nm, same(L, got[j], want[j])
        # values produced along the way: every name was bound to its 'new' token
        for i, (what, val) in enumerate(o["rec"]):
            okv = shape_raw_ok(val, n, kind) if what == "pe_all" else shape_call_ok(val, n, kind)
            yield "step%d_%s_result_shape" % (i, what), okv
            if not okv:
                continue
            if what == "pe_all":
                _, got = received_raw(val, n, kind)
            else:
                _, got = received_call(val, n, kind)
            for j, nm in enumerate(o["names"]):
                if what == "twin":
                    w_ = leaves(o["new"][nm])
                elif what == "callmin" and nm in o["opt"]:
                    w_ = leaves(o["dfl"][nm])
                else:
                    w_ = leaves(o["new"][nm])
                yield "step%d_%s_routed[%s]" % (i, what, nm), same(L, got[j], w_)
        for k, v in o["un"].items():
            yield k, v
        yield from tokens_goals(o, L)

    return Case(name, body, goals, family=family + "/" + kind, params=dict(kind=kind, n=n, m=m, seq=list(seq)), **BIG)


# --------------------------------------------------------------------------
# family 4: constants (non-callable "functions") and explicit defaults/args containers
# --------------------------------------------------------------------------


def constant_case(kind):
    name = "constant/%s" % kind

    def body(env):
        if kind == "UF":
            c = env.scalar("const")
            w = UserFunction(c)
            d = {"x": env.scalar("tok_x")}
            return dict(c=c, call=w(d), pe=w.partially_evaluate(**d), same_fun=w.fun is c, dkeys=list(d))
        c = env.tensor("const", (R, 1))
        w = DomainUserFunction(c)
        d = {"x": env.tensor("tok_x", (R, 1))}
        before = SH.elems(env, c)
        return dict(c=before, call=w(d), pe=w.partially_evaluate(**d), same_fun=w.fun is c, dkeys=list(d))

    def goals(o, L, env):
        yield "call_returns_the_constant", same(L, o["call"], o["c"])
        yield "partial_evaluation_returns_the_constant", same(L, o["pe"], o["c"])
        yield "wrapper_fun_same_object", o["same_fun"]
        yield "user_containers_untouched", o["dkeys"] == ["x"]

    return Case(name, body, goals, family="constant", params=dict(kind=kind))


def explicit_case(kind, op):
    """wrapper built from user-supplied `defaults` / `args` containers (the documented constructor arguments):
    calling / partially evaluating / copying must leave those containers alone"""
    tk, ret, route = KINDS[kind]
    n, m = 3, 1
    name = "explicit/%s/%s" % (kind, op)

    def body(env):
        sig = Sig(env, n, m, tk, ret)
        cls = WCLS(kind)
        user_defaults = {sig.opt[0]: sig.dfl[sig.opt[0]]}
        user_args = list(sig.names)
        w = cls(sig.f, defaults=user_defaults, args=user_args)
        snap = snapshot(w, sig, [user_defaults])
        rec = []
        _apply(op, w, sig, route, cls, rec)
        present, pf = {}, {}
        for nm in sig.universe:
            present[nm], pf[nm] = presence(env, "has_" + nm)
        d = {nm: sig.tok[nm] for nm in sig.ordered("rev") if present[nm]}
        raised, out = False, None
        try:
            out = invoke(w, d, route)
        except AssertionError:
            raised = True
        un = unchanged(snap, sig)
        un["user_args_list_untouched"] = user_args == list(sig.names)
        return dict(raised=raised, out=out, tok=sig.tok, dfl=sig.dfl, K=sig.K, pf=pf, un=un, names=sig.names, req=sig.req,
                    opt=sig.opt)

    def goals(o, L, env):
        pf = o["pf"]
        yield "rejected_iff_a_required_name_is_missing", L.Iff(o["raised"], L.Or([L.Not(pf[nm]) for nm in o["req"]]))
        if not o["raised"] and shape_call_ok(o["out"], n, kind):
            _, got = received_call(o["out"], n, kind)
            want = expected_call(L, o, o["names"], o["opt"], pf, kind)
            for j, nm in enumerate(o["names"]):
                yield "routed_by_name[%s]" % nm, same(L, got[j], want[j])
        for k, v in o["un"].items():
            yield k, v

    return Case(name, body, goals, family="explicit/" + kind, params=dict(kind=kind, op=op), **BIG)


def none_default_case(kind):
    """an optional parameter whose declared default is None (def f(x, t, weight=None)): still optional -- a call without
    it is accepted and the function receives None; partial evaluation with the required names yields the value"""
    cls = WCLS(kind)
    name = "none_default/%s" % kind

    def body(env):
        x, t = env.tensor("tok_x", (R, 1)), env.tensor("tok_t", (R, 1))
        seen = []

        def user_f(x, t, weight=None):
            seen.append(weight)
            return [x, t]

        w = cls(user_f)
        nec, opt = list(w.necessary_args), list(w.optional_args)
        out = invoke(w, {"t": t, "x": x}, KINDS[kind][2])
        pe = w.partially_evaluate(x=x, t=t)
        raised = False
        try:
            invoke(w, {"x": x}, KINDS[kind][2])
        except AssertionError:
            raised = True
        return dict(nec=nec, opt=opt, out=out, pe_is_value=not isinstance(pe, UserFunction), seen=[v is None for v in seen], raised=raised,
                    x=x, t=t)

    def goals(o, L, env):
        yield "necessary_names", o["nec"] == ["x", "t"]
        yield "optional_names", o["opt"] == ["weight"]
        yield "function_received_None", len(o["seen"]) >= 1 and all(o["seen"])
        yield "partial_evaluation_with_all_required_names_is_a_value", bool(o["pe_is_value"])
        yield "missing_required_name_still_rejected", bool(o["raised"])
        got = o["out"]
        yield "result_shape", isinstance(got, list) and len(got) == 2
        if isinstance(got, list) and len(got) == 2:
            yield "routed[x]", same(L, leaves(got[0]), leaves(o["x"]))
            yield "routed[t]", same(L, leaves(got[1]), leaves(o["t"]))

    return Case(name, body, goals, family="none_default/" + kind, params=dict(kind=kind), **BIG)


# --------------------------------------------------------------------------


def _shapes(nmax):
    return [(n, m) for n in range(nmax + 1) for m in range(n + 1)]


def cases(tier):
    thorough = tier == "thorough"
    nmax = 4 if thorough else 3
    cs = []
    # ---- calls
    for kind in ("UF", "DUF", "UFP", "DUFP", "UFV") + (("UFT",) if thorough else ()):
        if kind == "UF":
            orders = ("decl", "rev", "rot", "sorted") if thorough else ("rev", "sorted")
            shapes = _shapes(nmax)
        else:
            orders = ("rev", "sorted") if thorough else ("rot",)
            shapes = _shapes(nmax if thorough else 2) + ([] if thorough else [(3, 1), (3, 2)])
        for n, m in shapes:
            if kind == "UFV" and n == 0:
                continue
            for order in orders:
                if n == 0 and order != orders[0]:
                    continue
                cs.append(call_case(kind, n, m, order))
                if kind == "UFV" and m >= 2:
                    cs.append(call_case(kind, n, m, order, vec_first=True))
    for ck in ("lambda", "method"):
        for n, m in ([(2, 1), (1, 0)] if not thorough else [(1, 0), (2, 1), (3, 3), (3, 0)]):
            cs.append(call_case("UF", n, m, "rev", ckind=ck))
    # ---- dedicated rejection cases
    for kind in ("UF", "DUF", "UFP") + (("DUFP", "UFV") if thorough else ()):
        for n, m in _shapes(nmax if kind == "UF" else min(nmax, 3)):
            if n - m >= 1:
                cs.append(missing_case(kind, n, m, "rev"))
    # ---- partial evaluation
    for kind in ("UF", "DUF") + (("UFP", "DUFP") if thorough else ()):
        shapes = _shapes(nmax) if kind == "UF" else (_shapes(3) if thorough else [(1, 0), (2, 1), (3, 1), (3, 3)])
        for n, m in shapes:
            for order in (("rev", "sorted") if (thorough and kind == "UF") else ("rot",)):
                cs.append(partial_case(kind, n, m, order))
    # ---- sequences
    ops = [o for o in OPS]
    maxlen = 3 if thorough else 2
    for kind, sigs in (("UF", [(3, 1), (2, 2)] if not thorough else [(3, 1), (2, 2), (4, 2), (2, 0)]),
                       ("DUF", [(2, 1)] if not thorough else [(2, 1), (3, 2)])):
        for n, m in sigs:
            for ln in range(1, maxlen + 1):
                if kind == "DUF" and ln == 3 and (n, m) != (2, 1):
                    continue
                for seq in itertools.product(ops, repeat=ln):
                    if kind == "DUF" and ln >= 2 and not thorough and len(set(seq)) == 1:
                        continue
                    cs.append(seq_case(kind, n, m, seq))
    # ---- aliasing between a wrapper and a re-wrap of it
    for kind in ("UF", "DUF"):
        cs.append(seq_case(kind, 3, 1, ("rewrap_sd",), family="alias"))
    if thorough:
        cs.append(seq_case("UF", 2, 0, ("rewrap_sd", "call"), family="alias"))
    # ---- two wrappers of ONE user function: changing the defaults of one never shows in the other
    for kind in ("UF", "DUF"):
        for seq in (("sibling_sd",), ("sibling_rd",), ("sibling_sd", "call")) + ((("sibling_rd", "pe_some"), ("sibling_sd", "sibling_rd")) if thorough else ()):
            cs.append(seq_case(kind, 3, 1, seq, family="sibling"))
    cs.append(seq_case("UF", 2, 2, ("sibling_rd",), family="sibling"))
    for kind in ("UF", "DUF"):
        cs.append(seq_case(kind, 3, 1, ("bound_rewrap",), family="rewrap_bound"))
        cs.append(seq_case(kind, 2, 0, ("bound_rewrap", "call"), family="rewrap_bound"))
    # ---- two function objects sharing one code object (different declared defaults)
    for kind in ("UF", "DUF"):
        cs.append(seq_case(kind, 3, 2, ("twin_function",), family="twin"))
        cs.append(seq_case(kind, 3, 1, ("call", "twin_function"), family="twin"))
    cs.append(none_default_case("UF"))
    cs.append(none_default_case("DUF"))
    # ---- constants, explicit containers
    cs.append(constant_case("UF"))
    cs.append(constant_case("DUF"))
    for kind in ("UF",) + (("DUF",) if thorough else ()):
        for op in ("call", "pe_some", "pe_all", "copy_sd", "pe_sd"):
            cs.append(explicit_case(kind, op))
    return cs
