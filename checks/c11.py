"""C11  Samplers follow their named laws: uniform, even grid, Gaussian, LHS.

A distributional property is turned into solver queries through the change-of-variables formula.
Probabilistic lemmas used as ASSUMPTIONS (listed in META):
 (L1) rand draws are i.i.d. U[0,1);
 (L2) a piecewise-C1 map that is a.e. m-to-1 with constant |Jacobian| J pushes U[0,1)^d to the uniform law
      on its image (density m/J);
 (L3) accepting i.i.d. uniform proposals by a predicate of the proposal alone, order-preserving, gives the
      uniform law on the accepted set;
 (L4) accepting a proposal b with probability w(b)/max w gives density proportional to w.
What the solver decides is everything about the CODE: the sampling map really has constant Jacobian equal
to the measure, selection really is order preserving and row-local, thresholds really are the required ones.
"""
from __future__ import annotations

import torch
import torchphysics as tp
from torch.utils._python_dispatch import TorchDispatchMode
from torchphysics.problem.spaces.points import Points

from symtorch.harness import Case
from . import shapes as SH

META = dict(
    level="model_checking",
    bounds="closed-form samplers of Interval, Circle, Parallelogram, Triangle (thorough: Sphere) and their boundaries with all "
           "shape parameters symbolic, 1 point (the maps act row-wise: row independence is C02/C08 territory), k<=1 parameter "
           "row; translate/rotate of a primitive; union/cut/intersection/dependent product on abstract or primitive operands; "
           "grids n<=4; LHS n<=3 (all permutations); Gaussian n<=2",
    outside=["the probabilistic lemmas L1-L4 themselves", "statistical quality of torch's generator",
             "equidistribution of golden-angle sequences (angular part of Circle/Sphere grids)", "shapely/trimesh",
             "a.e. injectivity of the polar/spherical charts (assumed)"],
    assumptions=["L1-L4 (see module docstring)", "shapes of positive measure"],
)


class FixedDraws(TorchDispatchMode):
    """replay helper: rand / rand_like return the given values in call order"""

    def __init__(self, values):
        super().__init__()
        self.values = list(values)
        self.i = 0

    def __torch_dispatch__(self, func, types, args=(), kwargs=None):
        kwargs = kwargs or {}
        name = func._schema.name.split("::", 1)[1]
        if name in ("rand", "rand_like"):
            out = func(*args, **kwargs)
            n = out.numel()
            v = torch.tensor(self.values[self.i:self.i + n], dtype=out.dtype).reshape(out.shape)
            self.i += n
            return v
        return func(*args, **kwargs)


def _draws_and_points(env, sample):
    """run `sample()` (one row) -> (point coordinates, draw variables, jacobian d point / d draw)"""
    if env.symbolic:
        from symtorch import diffsym, term as T
        from symtorch.harness import _zr

        import z3
        ctx = env.ctx
        n0 = len(ctx.rand_calls)
        q0 = ctx.counter.get("quot", 0)
        pts = sample()
        calls = ctx.rand_calls[n0:]
        draws = [v for (kind, shape, vs, extra) in calls for v in vs]
        # the law is claimed for almost every draw: interior draws, away from the finitely many kinks of
        # piecewise parametrisations (clamp arguments 0 or 1)
        for v in draws:
            ctx.assume(v > 0)
        for i in range(q0, ctx.counter.get("quot", 0)):
            q = z3.Real("quot!%d" % i)
            ctx.assume(z3.And(q != 0, q != 1))
        t = pts.as_tensor if hasattr(pts, "as_tensor") else pts
        p = [_zr(x) for x in t.flat()]
        nob = len(ctx.obligations)
        jac = [[_zr(e) for e in row] for row in diffsym.jacobian(p, draws)]
        del ctx.obligations[nob:]  # definedness of the derivative formulas is not a property of the code
        return p, [_zr(v) for v in draws], jac
    # replay: the harness' ReplayRNG supplies the base draws; central differences around them
    rec = []

    class Rec(TorchDispatchMode):
        def __torch_dispatch__(self, func, types, args=(), kwargs=None):
            out = func(*args, **(kwargs or {}))
            if func._schema.name.split("::", 1)[1] in ("rand", "rand_like"):
                rec.extend(out.reshape(-1).tolist())
            return out

    with Rec():
        pts = sample()
    t = pts.as_tensor if hasattr(pts, "as_tensor") else pts
    p = t.reshape(-1).tolist()
    h = 1e-7
    jac = [[0.0] * len(rec) for _ in p]
    for j in range(len(rec)):
        up, dn = list(rec), list(rec)
        up[j] += h
        dn[j] -= h
        with FixedDraws(up):
            a = sample()
        with FixedDraws(dn):
            b = sample()
        a = (a.as_tensor if hasattr(a, "as_tensor") else a).reshape(-1).tolist()
        b = (b.as_tensor if hasattr(b, "as_tensor") else b).reshape(-1).tolist()
        for i in range(len(p)):
            jac[i][j] = (a[i] - b[i]) / (2 * h)
    return p, rec, jac


def _det(m):
    n = len(m)
    if n == 1:
        return m[0][0]
    if n == 2:
        return m[0][0] * m[1][1] - m[0][1] * m[1][0]
    acc = 0
    for j in range(n):
        minor = [[m[i][c] for c in range(n) if c != j] for i in range(1, n)]
        t = m[0][j] * _det(minor)
        acc = acc + t if j % 2 == 0 else acc - t
    return acc


def interior_case(name, mk, k, mult=1):
    """|det d p / d u| * mult == volume  (mult = number of pre-images, e.g. 2 for the mirrored triangle)"""
    cname = "uniform/%s/k%d" % (name, k)

    def body(env):
        sh = mk(env)
        P, rows = SH.params(env, sh.pvars, k)
        L = env.L
        for prm in rows:
            env.assume(sh.oset.positive(prm, L))
        p, u, jac = _draws_and_points(env, lambda: sh.dom.sample_random_uniform(n=1, params=P))
        vol = sh.oset.volume(rows[0], L)
        return dict(jac=jac, vol=vol, nd=len(u), dim=len(p))

    def goals(o, L, env):
        yield "as_many_draws_as_dimensions", o["nd"] == o["dim"]
        if o["nd"] != o["dim"]:
            return
        dt = _det(o["jac"])
        v = o["vol"] * mult
        tol = L.num(1e-4) if not L.symbolic else 0
        yield "jacobian_is_constant_and_equals_measure", L.Or(L.eq(dt, v, tol), L.eq(dt, -v, tol)) if L.symbolic else \
            (abs(abs(dt) - v) <= 1e-4 * max(1.0, abs(v)))

    return Case(cname, body, goals, family="uniform/" + name, params=dict(shape=name, k=k), max_paths=16)


def boundary_case(name, mk, k):
    """speed |d p / d u| == measure of the boundary (curves), on every piece of the parametrisation"""
    cname = "uniform_boundary/%s/k%d" % (name, k)

    def body(env):
        sh = mk(env)
        P, rows = SH.params(env, sh.pvars, k)
        L = env.L
        for prm in rows:
            env.assume(sh.oset.positive(prm, L))
        p, u, jac = _draws_and_points(env, lambda: sh.dom.boundary.sample_random_uniform(n=1, params=P))
        return dict(jac=jac, per=sh.bd_volume(rows[0], L), nd=len(u), dim=len(p))

    def goals(o, L, env):
        yield "one_draw_per_point", o["nd"] == 1
        if o["nd"] != 1:
            return
        s2 = sum(o["jac"][i][0] * o["jac"][i][0] for i in range(o["dim"]))
        per = o["per"]
        if L.symbolic:
            yield "speed_is_constant_and_equals_perimeter", L.eq(s2, per * per)
        else:
            yield "speed_is_constant_and_equals_perimeter", abs(s2 - per * per) <= 1e-3 * max(1.0, per * per)

    return Case(cname, body, goals, family="uniform_boundary/" + name, params=dict(shape=name, k=k), max_paths=24,
                split=("minmax",), timeout_ms=90000, budget_s=400)


def interval_boundary_case():
    cname = "uniform_boundary/Interval"

    def body(env):
        sh = SH.interval(env)
        env.assume(sh.oset.positive({}, env.L))
        if env.symbolic:
            n0 = len(env.ctx.rand_calls)
        pts = sh.dom.boundary.sample_random_uniform(n=1)
        if env.symbolic:
            from symtorch.harness import _zr
            u = _zr(env.ctx.rand_calls[n0][2][0])
        else:
            u = None
        lb, ub = sh.oset.lb({})[0], sh.oset.ub({})[0]
        return dict(p=pts, lb=lb, ub=ub, u=u)

    def goals(o, L, env):
        p = o["p"][0][0]
        if L.symbolic:
            # two-point law: the left end is taken exactly for draws below 1/2
            yield "left_iff_draw_below_half", L.Iff(L.eq(p, o["lb"]), L.lt(o["u"], L.num(0.5)))
            yield "right_otherwise", L.Iff(L.eq(p, o["ub"]), L.ge(o["u"], L.num(0.5)))
        else:
            yield "endpoint", abs(p - o["lb"]) < 1e-9 or abs(p - o["ub"]) < 1e-9

    return Case(cname, body, goals, family=cname)


def union_law_case(disjoint):
    """mixture law of UnionDomain._sample_random_with_n on ARBITRARY operands with symbolic measures:
    density on A = [c/b + (1-c/b)*ratio]/a, on B\\A = (1-c/b)(1-ratio)/(b-c); uniform iff they agree"""
    cname = "union_mixture/%s" % ("declared_disjoint" if disjoint else "overlapping")

    def body(env):
        L = env.L
        X = tp.spaces.R2("x")
        n = 1
        A = SH.StubDomain(X, env, "sa", n)
        B = SH.StubDomain(X, env, "sb", n)
        va, vb = env.tensor("va", ()), env.tensor("vb", ())
        A.set_volume(va)
        B.set_volume(vb)
        pa, pb = env.tensor("pa", (n, 2)), env.tensor("pb", (n, 2))
        A.sample_random_uniform = lambda n=None, d=None, params=Points.empty(), device="cpu": Points(pa, X)
        B.sample_random_uniform = lambda n=None, d=None, params=Points.empty(), device="cpu": Points(pb, X)
        from torchphysics.problem.domains.domainoperations.union import UnionDomain
        U = UnionDomain(A, B, disjoint=disjoint)
        a, b = SH.elems(env, va)[0], SH.elems(env, vb)[0]
        env.assume(L.And(L.gt(a, 0), L.gt(b, 0)))
        ea, eb = SH.elems(env, pa), SH.elems(env, pb)
        env.assume(L.Or(L.ne(ea[0], eb[0]), L.ne(ea[1], eb[1])))
        cv = SH.elems(env, env.tensor("overlap_measure", ()))[0]
        if env.symbolic:
            n0 = len(env.ctx.rand_calls)
        res = U.sample_random_uniform(n=n)
        u = None
        if env.symbolic:
            from symtorch.harness import _zr
            u = _zr(env.ctx.rand_calls[n0][2][0])
        return dict(res=res, pa=ea, pb=eb, in_a_of_b=A.f_in[0], u=u, a=a, b=b, c=cv, asked=[x[0] for x in A.asked])

    def goals(o, L, env):
        a, b, c = o["a"], o["b"], o["c"]
        ratio = a / (a + b)
        if L.symbolic:
            r = o["res"][0]
            took_a = L.And(L.eq(r[0], o["pa"][0]), L.eq(r[1], o["pa"][1]))
            yield "A_asked_about_B_sample", len(o["asked"]) == 1
            yield "selection_rule", L.Iff(took_a, L.Or(o["in_a_of_b"], L.le(o["u"], ratio)))
        # law level (lemma): with c = |A n B|: uniform on the union  <=>  density on A == density on B\\A
        hyp = L.And(L.ge(c, 0), L.lt(c, a), L.lt(c, b)) if not disjoint else L.eq(c, 0)
        if L.symbolic:
            dens_a = (c / b + (1 - c / b) * ratio) / a
            dens_b = ((1 - c / b) * (1 - ratio)) / (b - c)
            yield "mixture_is_uniform", L.Implies(hyp, L.eq(dens_a, dens_b))
        else:
            ok = True
            if hyp and b != c and a != 0 and b != 0:
                dens_a = (c / b + (1 - c / b) * ratio) / a
                dens_b = ((1 - c / b) * (1 - ratio)) / (b - c)
                ok = abs(dens_a - dens_b) <= 1e-9 * max(1.0, abs(dens_a))
            yield "mixture_is_uniform", ok

    return Case(cname, body, goals, family=cname, params=dict(disjoint=disjoint))


def rejection_case(op, ka, kb):
    """cut / intersection: output rows are proposals of the last round, unchanged, order preserving, and every
    accept/reject decision mentions the draws of ONE proposal row only (L3)"""
    cname = "rejection/%s/%s_%s" % (op, ka, kb)

    def body(env):
        a = SH.PRIMS[ka](env, tag="A")
        b = SH.PRIMS[kb](env, tag="B")
        L = env.L
        env.assume(a.oset.positive({}, L))
        env.assume(b.oset.positive({}, L))
        d = a.dom - b.dom if op == "cut" else a.dom & b.dom
        props = []
        orig = a.dom.sample_random_uniform

        def rec(n=None, d=None, params=Points.empty(), device="cpu"):
            r = orig(n=n, d=d, params=params, device=device)
            props.append(r)
            return r

        a.dom.sample_random_uniform = rec
        res = d.sample_random_uniform(n=2)
        info = None
        if env.symbolic:
            from symtorch import term as T
            lits = []
            for lit in env.ctx.pc:
                vs = [nm for nm in T.free_vars(lit) if nm.startswith("u!")]
                rows = set()
                for nm in vs:
                    call, j = nm[2:].split("_")
                    rows.add((int(call) // 2 if ka == "Circle" else int(call), int(j)))
                lits.append(len(rows))
            info = lits
        return dict(res=res, props=props, lits=info, n=len(res))

    def goals(o, L, env):
        yield "n_rows", o["n"] == 2
        last = o["props"][-1] if o["props"] else []
        # every output row is a row of the last proposal batch, in increasing order
        if L.symbolic:
            idx_prev = -1
            for j, row in enumerate(o["res"]):
                opts = []
                for i, pr in enumerate(last):
                    opts.append(L.And(*[L.eq(x, y) for x, y in zip(row, pr)]))
                yield "output_row_is_a_proposal[row%d]" % j, L.Or(*opts) if opts else False
            if o["lits"] is not None:
                yield "decisions_are_row_local", all(c <= 1 for c in o["lits"])
        else:
            for j, row in enumerate(o["res"]):
                yield "output_row_is_a_proposal[row%d]" % j, any(
                    all(abs(x - y) < 1e-12 for x, y in zip(row, pr)) for pr in last)

    return Case(cname, body, goals, family="rejection/" + op, params=dict(op=op, a=ka, b=kb), max_paths=24,
                max_forks_per_site=4)


class _StopAfter(Exception):
    """ends a helper run after the requests the goals are about (the cut is stated in the case)"""


class _OutlineStub:
    """boundary of an ARBITRARY operand: its measure is an affine function of the parameter row
    (base + slope*t, both symbolic), points are fresh symbols; every request is recorded"""

    def __init__(self, env, tag, X, log, stop_after_grid=None):
        self.env, self.tag, self.space, self.log = env, tag, X, log
        self.base = env.tensor(tag + "_base", ())
        self.slope = env.tensor(tag + "_slope", ())
        self.calls = 0
        self.grids = 0
        self.stop_after_grid = stop_after_grid

    def measure(self, t):
        return self.base + self.slope * t

    def volume(self, params=Points.empty(), device="cpu"):
        t = params.coordinates["t"]
        self.log.append(("volume", self.tag, t))
        return self.measure(t)

    def _points(self, kind, n, params):
        self.calls += 1
        t = params.coordinates["t"]
        self.log.append((kind, self.tag, int(n), t))
        return Points(self.env.tensor("%s_%s%d" % (self.tag, kind, self.calls), (int(n), 2)), self.space)

    def sample_random_uniform(self, n=None, d=None, params=Points.empty(), device="cpu"):
        return self._points("rand", n, params)

    def sample_grid(self, n=None, d=None, params=Points.empty(), device="cpu"):
        self.grids += 1
        if self.stop_after_grid is not None and self.grids > self.stop_after_grid:
            self.log.append(("grid", self.tag, int(n), params.coordinates["t"]))
            if self.tag == "ob":
                raise _StopAfter()
            return Points(self.env.const([[0.0, 0.0]] * int(n)), self.space)
        return self._points("grid", n, params)


class _OperandStub:
    def __init__(self, outline):
        self.boundary = outline


class _MainStub:
    """the combined domain: measure affine in the row, membership answers free symbols (or all yes)"""

    def __init__(self, env, X, log, accept_all):
        self.env, self.space, self.dim, self.log, self.accept_all = env, X, 1, log, accept_all
        self.base = env.tensor("m_base", ())
        self.slope = env.tensor("m_slope", ())
        self.calls = 0
        self.masks = []

    def measure(self, t):
        return self.base + self.slope * t

    def volume(self, params=Points.empty(), device="cpu"):
        return self.measure(params.coordinates["t"])

    def _repeat_params(self, n, params):
        return n, params

    def _contains(self, points, params=Points.empty()):
        self.calls += 1
        k = len(points)
        if self.accept_all:
            return torch.ones((k, 1), dtype=torch.bool)
        m = self.env.tensor("m_acc%d" % self.calls, (k, 1))
        self.masks.append(m)
        return m > 0


def boolean_boundary_random_case(n=2):
    """`_random_points_boundary` (boundaries of unions / cuts / intersections) on ARBITRARY operands whose
    outline measures are affine functions of the parameter row: the batch asked of each outline FOR ROW i
    must be int(n*|outline|(t_i)/|boundary|(t_i))+1 with the measures OF ROW i and the parameter row i
    (law: the proposals of a row are split between the two outlines in proportion to that row's measures)"""
    cname = "boolean_boundary/random/share_of_its_row/k2" + ("" if n == 2 else "/n%d" % n)
    n_req = n

    def body(env):
        from torchphysics.problem.domains.domainoperations import sampler_helper as HP
        L = env.L
        X = tp.spaces.R2("x")
        log = []
        oa, ob = _OutlineStub(env, "oa", X, log), _OutlineStub(env, "ob", X, log)
        main = _MainStub(env, X, log, accept_all=True)
        P, rows = SH.params(env, [("t", 1)], 2)
        ts = [r["t"][0] for r in rows]
        meas = []
        for t in ts:
            va = [SH.elems(env, o.base)[0] + SH.elems(env, o.slope)[0] * t for o in (oa, ob, main)]
            meas.append(va)
            # stated bound: each outline is at most as long as the whole boundary (batches of 1..3 points)
            env.assume(L.And(L.gt(va[0], 0), L.gt(va[1], 0), L.gt(va[2], 0), L.le(va[0], va[2]), L.le(va[1], va[2])))
        env.assume(L.ne(ts[0], ts[1]))
        n = n_req
        res = HP._random_points_boundary(main, _OperandStub(oa), _OperandStub(ob), n, P, "cpu")
        reqs = [(e[1], e[2], SH.elems(env, e[3])[0]) for e in log if e[0] == "rand"]
        return dict(reqs=reqs, meas=meas, ts=ts, n=n, rows=len(res))

    def goals(o, L, env):
        n = o["n"]
        yield "n_rows", o["rows"] == 2 * n
        # with every proposal accepted a row needs one request to A and, if that batch was short, requests to B, A, ...
        i, got, per_row = 0, 0, [[], []]
        for tag, k, t in o["reqs"]:
            if i < 2:
                per_row[i].append((tag, k, t))
                got += k
                if got >= n:
                    i, got = i + 1, 0
        yield "every_row_served", i == 2
        for i in range(2):
            a, b, m = o["meas"][i]
            for j, (tag, k, t) in enumerate(per_row[i]):
                yield "request_carries_its_parameter_row[row%d,req%d]" % (i, j), L.eq(t, o["ts"][i])
                yield "outlines_alternate[row%d,req%d]" % (i, j), tag == ("oa", "ob")[j % 2]
                v = a if tag == "oa" else b
                yield "batch_is_share_of_its_row[row%d,req%d]" % (i, j), L.And(L.le((k - 1) * m, n * v), L.lt(n * v, k * m))

    return Case(cname, body, goals, family="boolean_boundary/random", max_paths=60 if n == 2 else 200,
                max_forks_per_site=8, int_hi=n + 2)


def boolean_boundary_grid_case(n=2):
    """`_boundary_grid_with_n` on ARBITRARY operands (symbolic outline measures, free membership answers for
    the first grids): the rescaled grid sizes are int(n*|A|/S)+1 and max(int(n*|B|/S),1) with the surface
    estimate S = |A|*a_ok/n + |B|*b_ok/n built from BOTH outlines' surviving fractions.
    Cut: the run ends when the second pair of grids has been requested (stated as outside the claim)"""
    cname = "boolean_boundary/grid/surface_estimate/n%d" % n
    n_req = n

    def body(env):
        from torchphysics.problem.domains.domainoperations import sampler_helper as HP
        L = env.L
        X = tp.spaces.R2("x")
        log = []
        oa, ob = _OutlineStub(env, "oa", X, log, stop_after_grid=1), _OutlineStub(env, "ob", X, log, stop_after_grid=1)
        main = _MainStub(env, X, log, accept_all=False)
        P, rows = SH.params(env, [("t", 1)], 1)
        t = rows[0]["t"][0]
        a, b = [SH.elems(env, o.base)[0] + SH.elems(env, o.slope)[0] * t for o in (oa, ob)]
        # stated bound: outline measures within a factor 2 of each other (rescaled grids of at most 5 points)
        env.assume(L.And(L.gt(a, 0), L.gt(b, 0), L.le(a, 2 * b), L.le(b, 2 * a)))
        # the combined boundary has positive measure and each outline is at most twice as long (used only on the
        # path where no first-grid point survives and the helper falls back to random boundary points)
        mm = SH.elems(env, main.base)[0] + SH.elems(env, main.slope)[0] * t
        env.assume(L.And(L.gt(mm, 0), L.le(a, 2 * mm), L.le(b, 2 * mm)))
        n = n_req
        stopped = False
        try:
            HP._boundary_grid_with_n(main, _OperandStub(oa), _OperandStub(ob), n, P, "cpu")
        except _StopAfter:
            stopped = True
        masks = [[(L.gt(v, 0) if env.symbolic else bool(v > 0)) for v in SH.elems(env, m)] for m in main.masks[:2]]
        grids = [[e[1], e[2]] for e in log if e[0] == "grid"]
        return dict(masks=masks, grids=grids, a=a, b=b, n=n, stopped=stopped)

    def goals(o, L, env):
        n, a, b = o["n"], o["a"], o["b"]
        g = o["grids"]
        yield "first_grids_have_n_points", [list(x) for x in g[:2]] == [["oa", n], ["ob", n]]
        if not o["stopped"]:
            return
        yield "rescaled_grids_requested", len(g) == 4 and g[2][0] == "oa" and g[3][0] == "ob"
        if len(g) != 4:
            return
        sa, sb = g[2][1], g[3][1]

        def count(ms, c):  # formula: exactly c answers are yes
            import itertools
            return L.Or(*[L.And(*[(m if i in idx else L.Not(m)) for i, m in enumerate(ms)])
                          for idx in itertools.combinations(range(len(ms)), c)])

        for ca in range(n + 1):
            for cb in range(n + 1):
                if ca + cb in (0, n):
                    continue
                S = a * ca + b * cb  # n * surface estimate
                hyp = L.And(count(o["masks"][0], ca), count(o["masks"][1], cb))
                yield "scaled_a[%d,%d]" % (ca, cb), L.Implies(hyp, L.And(L.le((sa - 1) * S, n * n * a), L.lt(n * n * a, sa * S)))
                yield "scaled_b[%d,%d]" % (ca, cb), L.Implies(hyp, L.Or(
                    L.And(L.le(sb * S, n * n * b), L.lt(n * n * b, (sb + 1) * S)),
                    L.And(sb == 1, L.lt(n * n * b, S))))

    return Case(cname, body, goals, family="boolean_boundary/grid",
                max_paths=80 if n == 2 else 400,
                max_forks_per_site=8 if n == 2 else 16, int_hi=6 if n == 2 else 3 * n + 1)



def _rand_recorder():
    """replay helper: records the values returned by rand / rand_like, call by call"""
    calls = []

    class Rec(TorchDispatchMode):
        def __torch_dispatch__(self, func, types, args=(), kwargs=None):
            out = func(*args, **(kwargs or {}))
            if func._schema.name.split("::", 1)[1] in ("rand", "rand_like"):
                calls.append(out.reshape(-1).tolist())
            return out

    return Rec(), calls


def product_law_case(translated=False):
    """dependent product: b points are accepted with probability vol_A(b)/max vol (L4); also when the
    dependent factor is wrapped in a Translate, and also in a SECOND round on the same object"""
    cname = "dependent_product/accept_proportional_to_fibre_measure" + ("/translated_factor" if translated else "")

    def body(env):
        L = env.L
        a = SH.circle(env, tag="A", dep="t")
        if translated:
            a = SH.translate(env, a)
        b = SH.interval(env, tag="B", var="t")
        env.assume(b.oset.positive({}, L))
        lbv, ubv = b.oset.lb({})[0], b.oset.ub({})[0]
        env.assume(a.oset.positive({"t": [lbv]}, L))
        env.assume(a.oset.positive({"t": [ubv]}, L))
        D = a.dom * b.dom
        orig = D._sample_uniform_b_points
        rounds = []
        for rnd in range(2):  # the second round is the history: same object, own proposals, own bound
            if env.symbolic:
                from symtorch.harness import _zr
                n0, p0 = len(env.ctx.rand_calls), len(env.ctx.pc)
                n_out, _, _ = orig(2)
                calls = env.ctx.rand_calls[n0:]
                rounds.append(dict(n_out=n_out, bdraw=[_zr(v) for v in calls[0][2]], udraw=[_zr(v) for v in calls[1][2]],
                                   pc=list(env.ctx.pc)[:], p0=p0))
            else:
                mode, calls = _rand_recorder()
                with mode:
                    n_out, _, _ = orig(2)
                rounds.append(dict(n_out=n_out, bdraw=calls[0], udraw=calls[1], pc=[], p0=0))
        # the public entry point must route a product whose first factor's measure depends on the second
        # factor through this acceptance step
        used = []

        def rec(*a_, **k_):
            used.append(1)
            return orig(*a_, **k_)

        D._sample_uniform_b_points = rec
        out = dict(rounds=rounds, a=a, lb=lbv, ub=ubv)
        try:
            D.sample_random_uniform(n=1)
        except Exception as e:  # noqa  (a real failure of the sampling call is C01's business)
            out["sample_exc"] = repr(e)
        out["acceptance_step_used"] = bool(used)
        out["is_constant_flag"] = bool(D._is_constant)
        return out

    def goals(o, L, env):
        yield "dependent_product_sampled_through_acceptance_step", o["acceptance_step_used"] and not o["is_constant_flag"]
        a = o["a"]
        for ri, r in enumerate(o["rounds"]):
            # proposals t_j = lb + u_j (ub - lb); fibre volume v_j = vol_A(t_j); accepted iff max_j v_j * u_j < v_j
            ts = [o["lb"] + u * (o["ub"] - o["lb"]) for u in r["bdraw"]]
            vs = [a.oset.volume({"t": [t]}, L) for t in ts]
            M = L.max(vs[0], vs[1])
            nm = "round%d_accepts_exactly_rows_with_M_u_lt_v" % (ri + 1)
            if L.symbolic:
                import z3
                want = [L.lt(M * u, v) for u, v in zip(r["udraw"], vs)]
                pc = L.And(*r["pc"]) if r["pc"] else True
                yield nm, L.Implies(pc, z3.If(want[0], 1, 0) + z3.If(want[1], 1, 0) == r["n_out"])
            else:
                want = [M * u < v for u, v in zip(r["udraw"], vs)]
                yield nm, sum(1 for w in want if w) == r["n_out"]

    return Case(cname, body, goals, family="dependent_product", params=dict(translated=translated), max_paths=16)


def grid_case(kind, n, history=False):
    """history: the grid asked for is the THIRD one drawn through this object -- before it, a translated copy
    (Translate wrapper sharing the object) and the object itself were gridded with the same n"""
    cname = "grid/%s/n%d%s" % (kind, n, "/after_translated_copy_and_itself" if history else "")

    def body(env):
        sh = SH.PRIMS[kind](env)
        L = env.L
        env.assume(sh.oset.positive({}, L))
        if history:
            tr = SH.translate(env, sh)
            tr.dom.sample_grid(n=n)
            sh.dom.sample_grid(n=n)
            tr.dom.sample_grid(n=n)
        pts = sh.dom.sample_grid(n=n)
        return dict(p=pts, sh=sh, n=len(pts))

    def goals(o, L, env):
        sh, P = o["sh"], o["p"]
        m = o["n"]
        if kind == "Interval":
            lb, ub = sh.oset.lb({})[0], sh.oset.ub({})[0]
            h = (ub - lb) / (m + 1)
            for i in range(m):
                yield "equally_spaced[%d]" % i, L.eq(P[i][0], lb + h * (i + 1), L.num(1e-9) if not L.symbolic else 0)
        elif kind == "Circle":
            # equal-area annuli: squared distance to the centre is affine in the index
            c = sh.oset.c({})
            r = sh.oset.r({})[0]
            d2 = [(p[0] - c[0]) * (p[0] - c[0]) + (p[1] - c[1]) * (p[1] - c[1]) for p in P]
            for i in range(m):
                want = r * r * (2 * i + 1) / (2 * m + 1)
                yield "equal_area_annuli[%d]" % i, L.eq(d2[i], want, (L.num(1e-9) * r * r) if L.symbolic else 1e-6 * r * r)
        elif kind in ("Parallelogram", "Triangle"):
            # points are o + (i/(n1+1)) d1 + (j/(n2+1)) e on a regular barycentric lattice (plus random fill-up)
            o_, d1, e, D = sh.oset._frame({})
            for i, p in enumerate(P):
                q = [p[0] - o_[0], p[1] - o_[1]]
                a = (q[0] * e[1] - q[1] * e[0])
                b = (d1[0] * q[1] - d1[1] * q[0])
                yield "inside_open_lattice_cell[%d]" % i, L.And(L.gt(a * D, 0), L.gt(b * D, 0))

    return Case(cname, body, goals, family="grid/" + kind, params=dict(kind=kind, n=n, history=history), max_paths=40, int_hi=6)


def lattice_case(kind, n):
    """the non-random part of polygon grids is the product lattice ((i+1)/(n1+1), (j+1)/(n2+1))"""
    cname = "grid_lattice/%s/n%d" % (kind, n)

    def body(env):
        sh = SH.PRIMS[kind](env)
        L = env.L
        env.assume(sh.oset.positive({}, L))
        _, d1, e, D = sh.oset._frame({})
        dirs = sh.dom._construct_parallelogram() if kind == "Parallelogram" else sh.dom._construct_triangle()
        if kind == "Parallelogram":
            bary = sh.dom._compute_barycentric_grid(n, dirs[3], dirs[4], "cpu")
        else:
            bary = sh.dom._compute_barycentric_grid(n, dirs[3], dirs[5], "cpu")
        return dict(b=bary, m=len(bary))

    def goals(o, L, env):
        B = o["b"]
        m = o["m"]
        xs = sorted(set(round(float(x[0]), 12) if not L.symbolic else str(x[0]) for x in B))
        ys = sorted(set(round(float(x[1]), 12) if not L.symbolic else str(x[1]) for x in B))
        if kind == "Parallelogram":
            yield "complete_product_lattice", len(xs) * len(ys) == m
        for i, (x, y) in enumerate(B):
            yield "strictly_inside_unit_square[%d]" % i, L.And(L.gt(x, 0), L.lt(x, 1), L.gt(y, 0), L.lt(y, 1))

    return Case(cname, body, goals, family="grid_lattice/" + kind, params=dict(kind=kind, n=n), max_paths=40, int_hi=6,
                check_obligations=False)


def gaussian_case(kind):
    cname = "gaussian/%s" % kind

    def body(env):
        sh = SH.PRIMS[kind](env)
        L = env.L
        env.assume(sh.oset.positive({}, L))
        dim = sum(d for _, d in sh.space_vars)
        mean, std = env.tensor("gm", (dim,)), env.tensor("gs", ())
        env.assume(L.gt(SH.elems(env, std)[0], 0))
        s = tp.samplers.GaussianSampler(sh.dom, n_points=1, mean=mean, std=std)
        out = dict(mean=SH.elems(env, mean), std=SH.elems(env, std)[0], sh=sh)
        if env.symbolic:
            n0 = len(env.ctx.rand_calls)
        pts = s.sample_points()
        out["p"] = pts
        if env.symbolic:
            from symtorch.harness import _zr
            calls = [c for c in env.ctx.rand_calls[n0:] if c[0] == "g"]
            out["tags"] = [(c[3][1], c[3][2]) for c in calls]
            out["draws"] = [[_zr(v) for v in c[2]] for c in calls]
        return out

    def goals(o, L, env):
        sh = o["sh"]
        p = o["p"][0]
        yield "inside_domain", sh.oset.closure(p, {}, L, 0)
        if not L.symbolic:
            return
        import numpy as np
        from symtorch.harness import _zr
        # the law requested from the normal stub is exactly (mean, std) of the user
        for ci, (m, s_) in enumerate(o["tags"]):
            mm = [_zr(x) for x in np.asarray(m, dtype=object).reshape(-1)]
            ss = [_zr(x) for x in np.asarray(s_, dtype=object).reshape(-1)]
            for j, x in enumerate(mm):
                yield "normal_law_mean[call%d,%d]" % (ci, j), L.eq(x, o["mean"][j % len(o["mean"])])
            for j, x in enumerate(ss):
                yield "normal_law_std[call%d,%d]" % (ci, j), L.eq(x, o["std"])
        # the returned point is one of the proposals, unchanged
        opts = []
        for d in o["draws"]:
            k = len(p)
            for r in range(len(d) // k):
                opts.append(L.And(*[L.eq(p[c], d[r * k + c]) for c in range(k)]))
        yield "output_is_an_accepted_proposal", L.Or(*opts) if opts else False

    return Case(cname, body, goals, family="gaussian", params=dict(kind=kind), max_paths=24, max_forks_per_site=4)


def gaussian_rows_case(kind):
    """Gaussian sampler asked with two parameter rows: each row's point is an accepted proposal of its OWN -- two
    different proposals (rows of the normal draws) are returned, each paired with its parameter row"""
    cname = "gaussian_rows/%s/k2" % kind

    def body(env):
        sh = SH.PRIMS[kind](env)
        L = env.L
        env.assume(sh.oset.positive({}, L))
        dim = sum(d for _, d in sh.space_vars)
        mean, std = env.tensor("gm", (dim,)), env.tensor("gs", ())
        env.assume(L.gt(SH.elems(env, std)[0], 0))
        P, rows = SH.params(env, [("q", 1)], 2)
        s = tp.samplers.GaussianSampler(sh.dom, n_points=1, mean=mean, std=std)
        out = dict(sh=sh, rows=rows, dim=dim)
        n0 = len(env.ctx.rand_calls) if env.symbolic else 0
        pts = s.sample_points(P)
        out["p"] = pts.as_tensor
        out["names"] = list(pts.space.keys())
        if env.symbolic:
            from symtorch.harness import _zr
            out["draws"] = [[_zr(v) for v in c[2]] for c in env.ctx.rand_calls[n0:] if c[0] == "g"]
        return out

    def goals(o, L, env):
        sh, d = o["sh"], o["dim"]
        yield "two_rows", len(o["p"]) == 2 and o["names"][-1] == "q"
        if len(o["p"]) != 2:
            return
        for i, row in enumerate(o["p"]):
            yield "inside_domain[row%d]" % i, sh.oset.closure(row[:d], {}, L, 0)
            yield "paired_with_its_parameter_row[row%d]" % i, L.eq(row[d], o["rows"][i]["q"][0])
        if not L.symbolic:
            # replay: the two points differ (they are different proposals of a continuous law)
            yield "rows_are_different_proposals", not all(abs(a - b) < 1e-12 for a, b in zip(o["p"][0][:d], o["p"][1][:d]))
            return
        props = []
        for dr in o["draws"]:
            for r in range(len(dr) // d):
                props.append(dr[r * d:(r + 1) * d])
        opts = []
        for i1, a in enumerate(props):
            for i2, b in enumerate(props):
                if i1 != i2:
                    opts.append(L.And(*([L.eq(o["p"][0][c], a[c]) for c in range(d)] + [L.eq(o["p"][1][c], b[c]) for c in range(d)])))
        yield "rows_are_different_proposals", L.Or(*opts) if opts else False

    return Case(cname, body, goals, family="gaussian_rows", params=dict(kind=kind), max_paths=40, max_forks_per_site=4)


def lhs_case(n, dim):
    cname = "lhs/n%d/d%d" % (n, dim)

    def body(env):
        L = env.L
        X = tp.spaces.Rn("x", dim)
        dom = SH.StubDomain(X, env, "s", n)
        bb = env.tensor("bb", (2 * dim,))
        e = SH.elems(env, bb)
        for i in range(dim):
            env.assume(L.lt(e[2 * i], e[2 * i + 1]))
        s = tp.samplers.LHSSampler(dom, n_points=n)
        pts = s._create_lhs_in_bounding_box(bb, "cpu")
        return dict(p=pts, bb=e)

    def goals(o, L, env):
        P, bb = o["p"], o["bb"]
        for i in range(dim):
            lo, hi = bb[2 * i], bb[2 * i + 1]
            w = (hi - lo) / n
            for j in range(n):
                a, b = lo + w * j, lo + w * (j + 1)
                inside = [L.And(L.ge(p[i], a), L.lt(p[i], b)) for p in P]
                if L.symbolic:
                    import z3
                    yield "exactly_one_point_in_slab[axis%d,slab%d]" % (i, j), sum(z3.If(c, 1, 0) for c in inside) == 1
                else:
                    yield "exactly_one_point_in_slab[axis%d,slab%d]" % (i, j), sum(1 for c in inside if c) == 1

    return Case(cname, body, goals, family="lhs", params=dict(n=n, dim=dim), max_paths=80, max_forks_per_site=40,
                max_decisions=80)


def lhs_rows_case(name, mk, extra_var=False):
    """LHSSampler with k=2 parameter rows of a parameter-dependent shape: the Latin hypercube of row i is laid over
    the (tight) bounding box of row i, so that every slab of THAT row's box receives exactly one proposal"""
    cname = "lhs_rows/%s/k2%s" % (name, "/extra_parameter_variable" if extra_var else "")

    def body(env):
        sh = mk(env)
        # extra_var: the rows carry one more variable the domain does not depend on (three-factor sampler products)
        P, rows = SH.params(env, list(sh.pvars) + ([("zz", 1)] if extra_var else []), 2)
        L = env.L
        for prm in rows:
            env.assume(sh.oset.positive(prm, L))
        s = tp.samplers.LHSSampler(sh.dom, n_points=2)
        boxes = []
        orig = s._create_lhs_in_bounding_box

        def rec(bounding_box, device):
            boxes.append(bounding_box)
            return orig(bounding_box, device)

        s._create_lhs_in_bounding_box = rec
        pts = s.sample_points(P)
        want = [sh.oset.bbox(prm, L) for prm in rows]
        return dict(boxes=boxes, want=want, n=len(pts))

    def goals(o, L, env):
        yield "one_hypercube_per_parameter_row", len(o["boxes"]) == 2
        if len(o["boxes"]) != 2:
            return
        for i, (b, w) in enumerate(zip(o["boxes"], o["want"])):
            for ax, (lo, hi) in enumerate(w):
                yield "hypercube_box_is_box_of_its_row[row%d,axis%d,min]" % (i, ax), L.eq(b[2 * ax], lo)
                yield "hypercube_box_is_box_of_its_row[row%d,axis%d,max]" % (i, ax), L.eq(b[2 * ax + 1], hi)

    return Case(cname, body, goals, family="lhs_rows", params=dict(shape=name), max_paths=60, max_forks_per_site=12,
                max_decisions=80)


def cases(tier):
    cs = []
    quick = tier == "quick"
    prim = [("Interval", lambda env: SH.interval(env), 1), ("Circle", lambda env: SH.circle(env), 1),
            ("Parallelogram", lambda env: SH.parallelogram(env), 1), ("Triangle", lambda env: SH.triangle(env), 2)]
    dep = [("Interval[t]", lambda env: SH.interval(env, dep="t"), 1), ("Circle[t]", lambda env: SH.circle(env, dep="t"), 1)]
    tr = [("Translate(Circle)", lambda env: SH.translate(env, SH.circle(env, tag="A")), 1),
          ("Rotate(Parallelogram)", lambda env: SH.rotate(env, SH.parallelogram(env, tag="A")), 1)]
    if not quick:
        prim.append(("Sphere", lambda env: SH.sphere(env), 1))
        dep.append(("Parallelogram[t]", lambda env: SH.parallelogram(env, dep="t"), 1))
        tr.append(("Translate[t](Circle)", lambda env: SH.translate(env, SH.circle(env, tag="A"), dep="t"), 1))
        tr.append(("Rotate[t](Parallelogram)", lambda env: SH.rotate(env, SH.parallelogram(env, tag="A"), dep="t"), 1))
    for name, mk, mult in prim:
        cs.append(interior_case(name, mk, 0, mult))
    for name, mk, mult in dep:
        cs.append(interior_case(name, mk, 1, mult))
    for name, mk, mult in tr:
        cs.append(interior_case(name, mk, 1 if "[t]" in name else 0, mult))
    cs.append(interval_boundary_case())
    for name, mk, _ in prim:
        if name in ("Interval", "Sphere"):
            continue
        if quick and name == "Triangle":
            continue  # three square roots: ~3 min of solver time, thorough tier
        cs.append(boundary_case(name, mk, 0))
    cs.append(boundary_case("Circle[t]", dep[1][1], 1))
    cs.append(union_law_case(True))
    cs.append(union_law_case(False))
    cs.append(rejection_case("cut", "Interval", "Interval"))
    cs.append(rejection_case("intersection", "Interval", "Interval"))
    if not quick:
        cs.append(rejection_case("cut", "Circle", "Parallelogram"))
        cs.append(rejection_case("intersection", "Parallelogram", "Circle"))
    cs.append(boolean_boundary_random_case())
    cs.append(boolean_boundary_grid_case())
    if not quick:
        cs.append(boolean_boundary_random_case(3))
        cs.append(boolean_boundary_grid_case(3))
    cs.append(product_law_case())
    cs.append(product_law_case(translated=True))
    cs.append(lhs_rows_case("Interval[t]", lambda env: SH.interval(env, dep="t")))
    cs.append(lhs_rows_case("Circle[t]", lambda env: SH.circle(env, dep="t")))
    cs.append(lhs_rows_case("Interval[t]", lambda env: SH.interval(env, dep="t"), extra_var=True))
    for kind in ("Interval", "Circle"):
        for n in ((2, 3) if quick else (1, 2, 3, 4)):
            cs.append(grid_case(kind, n))
        cs.append(grid_case(kind, 3, history=True))
    for kind in ("Parallelogram", "Triangle"):
        for n in ((2,) if quick else (2, 3, 4)):
            cs.append(lattice_case(kind, n))
    for kind in ("Interval", "Circle") + (() if quick else ("Parallelogram",)):
        cs.append(gaussian_case(kind))
    cs.append(gaussian_rows_case("Interval"))
    cs.append(lhs_case(2, 1))
    cs.append(lhs_case(2, 2))
    if not quick:
        cs.append(lhs_case(3, 1))
        cs.append(lhs_case(3, 2))
    return cs
