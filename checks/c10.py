"""C10  volume() is the true measure of the domain."""
from __future__ import annotations

import torch
import torchphysics as tp
from torchphysics.problem.spaces.points import Points
from torchphysics.problem.domains.domainoperations.union import UnionDomain
from torchphysics.problem.domains.domainoperations.cut import CutDomain

from symtorch.harness import Case
from . import shapes as SH

META = dict(
    level="model_checking",
    bounds="primitives Interval/Circle/Parallelogram/Triangle/Sphere and their boundaries with all shape parameters symbolic, "
           "k in {0,1,2} parameter rows (parameter-dependent: affine in t); compositions of two primitives; density sampling "
           "with symbolic density, row count forked up to 12",
    outside=["shapely/trimesh primitives", "dependent-product volume (documented as a 10-point approximation)",
             "k>2 rows, row counts >12, nesting depth >2"],
    assumptions=["shapes have positive measure (radius>0, det!=0, lb<ub); orientation of polygon vertices is unconstrained "
                 "except Triangle in the 'ccw' cases (documented precondition)"],
)


def _vol_goals(rows_vals, sh_rows, L, what):
    for i, (v, want) in enumerate(zip(rows_vals, sh_rows)):
        yield "%s_eq[row%d]" % (what, i), L.eq(v[0], want)
        yield "%s_positive[row%d]" % (what, i), L.gt(v[0], 0)


def prim_case(kind, k, dep, boundary, ccw=None):
    name = "%s/%s/k%d%s%s" % ("bvolume" if boundary else "volume", kind, k, "/dep" if dep else "",
                               "" if ccw is None else ("/ccw" if ccw else "/cw"))

    def body(env):
        sh = SH.PRIMS[kind](env, dep="t" if dep else None)
        P, rows = SH.params(env, sh.pvars, k)
        SH.assume_positive(env, sh, rows)
        if ccw is not None:
            for prm in rows:
                D = sh.oset._frame(prm)[3]
                env.assume(env.L.gt(D, 0) if ccw else env.L.lt(D, 0))
        d = sh.dom.boundary if boundary else sh.dom
        v = d.volume(P)
        L = env.L
        want = [(sh.bd_volume(prm, L) if boundary else sh.oset.volume(prm, L)) for prm in rows]
        return dict(v=v, want=want, shape=list(v.shape), nrows=max(k, 1))

    def goals(o, L, env):
        # a shape that does not depend on the parameters may return one (broadcastable) value
        ok_shapes = [[o["nrows"], 1]] + ([] if dep else [[1, 1]])
        yield "one_value_per_row", o["shape"] in ok_shapes
        if o["shape"] in ok_shapes:
            yield from _vol_goals(o["v"], o["want"], L, "volume")

    return Case(name, body, goals, family=name.rsplit("/k", 1)[0], params=dict(kind=kind, k=k, dep=dep, boundary=boundary))


def comp_case(op, ka, kb, k=0):
    name = "compose/%s/%s_%s/k%d" % (op, ka, kb, k)

    def body(env):
        a = SH.PRIMS[ka](env, tag="A")
        L = env.L
        rows = [{}]
        P = Points.empty()
        if op == "product":
            b = SH.PRIMS[kb](env, tag="B", var="y")
            d = a.dom * b.dom
            want = a.oset.volume({}, L) * b.oset.volume({}, L)
        else:
            b = SH.PRIMS[kb](env, tag="B")
            if op == "union_disjoint":
                d = UnionDomain(a.dom, b.dom, disjoint=True)
                want = a.oset.volume({}, L) + b.oset.volume({}, L)
            elif op == "cut_contained":
                d = CutDomain(a.dom, b.dom, contained=True)
                want = a.oset.volume({}, L) - b.oset.volume({}, L)
            elif op in ("cut_contained_called", "union_disjoint_called"):
                # the flag survives partial evaluation: B depends on t, the combination is evaluated at t = v (a 0-d tensor)
                b = SH.PRIMS[kb](env, tag="B", dep="t")
                v = env.tensor("v_t", ())
                prm = {"t": [SH.elems(env, v)[0]]}
                env.assume(b.oset.positive(prm, L))
                if op.startswith("cut"):
                    d = CutDomain(a.dom, b.dom, contained=True)(t=v)
                    want = a.oset.volume({}, L) - b.oset.volume(prm, L)
                else:
                    d = UnionDomain(a.dom, b.dom, disjoint=True)(t=v)
                    want = a.oset.volume({}, L) + b.oset.volume(prm, L)
            elif op == "translate":
                t = SH.translate(env, a)
                d, want = t.dom, a.oset.volume({}, L)
            elif op == "rotate":
                t = SH.rotate(env, a)
                d, want = t.dom, a.oset.volume({}, L)
            elif op == "set_volume":
                sv = env.tensor("sv", ())
                a.dom.set_volume(sv)
                d, want = a.dom, SH.elems(env, sv)[0]
            elif op == "set_volume_translate":
                sv = env.tensor("sv", ())
                t = SH.translate(env, a)
                t.dom.set_volume(sv)
                d, want = t.dom, SH.elems(env, sv)[0]
            elif op == "set_volume_rotate":
                sv = env.tensor("sv", ())
                t = SH.rotate(env, a)
                t.dom.set_volume(sv)
                d, want = t.dom, SH.elems(env, sv)[0]
            elif op == "set_volume_cut":
                sv = env.tensor("sv", ())
                d = a.dom - b.dom
                d.set_volume(sv)
                want = SH.elems(env, sv)[0]
            else:
                raise ValueError(op)
        SH.assume_positive(env, a, rows)
        if not op.endswith("_called"):
            SH.assume_positive(env, b, rows)
        if k:
            P, _ = SH.params(env, [], k)
        v = d.volume(P)
        return dict(v=v, want=want, shape=list(v.reshape(-1, 1).shape), k=k)

    def goals(o, L, env):
        n = max(o["k"], 1)
        vals = o["v"]
        flat = [x for r in vals for x in (r if isinstance(r, list) else [r])] if isinstance(vals, list) else [vals]
        yield "rows", len(flat) in (1, n)
        for i, x in enumerate(flat):
            yield "volume_eq[row%d]" % i, L.eq(x, o["want"])

    return Case(name, body, goals, family="compose/" + op, params=dict(op=op, a=ka, b=kb, k=k))


def product_history_case():
    """product of factors that depend on an EXTERNAL parameter (not on each other): volume() asked twice on the same
    object with different parameter rows -- every answer is the product of the factors' measures at its own row"""
    name = "compose/product_external_parameter/two_queries"

    def body(env):
        L = env.L
        a = SH.circle(env, tag="A", dep="t")
        b = SH.interval(env, tag="B", var="y")
        d = a.dom * b.dom
        out = []
        for q in range(2):
            P, rows = SH.params(env, [("t", 1)], 1 + q, tag="prm%d" % q)
            for prm in rows:
                env.assume(a.oset.positive(prm, L))
            env.assume(b.oset.positive({}, L))
            v = d.volume(P)
            out.append(dict(v=v.reshape(-1, 1), want=[a.oset.volume(prm, L) * b.oset.volume({}, L) for prm in rows]))
        return dict(q=out)

    def goals(o, L, env):
        for qi, q in enumerate(o["q"]):
            yield "one_value_per_row[query%d]" % qi, len(q["v"]) == len(q["want"])
            if len(q["v"]) == len(q["want"]):
                for i, (v, w) in enumerate(zip(q["v"], q["want"])):
                    yield "volume_eq[query%d,row%d]" % (qi, i), L.eq(v[0], w)

    return Case(name, body, goals, family="compose/product_external_parameter")


def operand_reuse_case(op, ka="Parallelogram"):
    """history: a constant domain A is first used as an operand of a combination with a t-dependent partner and is then
    used again in a product with an interval over t: the product is still the product of two independent factors, so its
    volume is vol(A) * |I| (exactly, not the sampled approximation) and A still has no free variable"""
    name = "compose/operand_reuse/%s_with_Circle[t]_then_product/%s" % (op, ka)

    def body(env):
        L = env.L
        a = SH.PRIMS[ka](env, tag="A")
        b = SH.circle(env, tag="B", dep="t")
        i = SH.interval(env, tag="I", var="t")
        nv0 = set(a.dom.necessary_variables)
        if op == "cut":
            comb = a.dom - b.dom
        elif op == "union":
            comb = a.dom + b.dom
        elif op == "intersection":
            comb = a.dom & b.dom
        elif op == "cut_boundary":
            comb = (a.dom - b.dom).boundary
        else:
            raise ValueError(op)
        nv_comb = set(comb.necessary_variables)
        SH.assume_positive(env, a, [{}])
        SH.assume_positive(env, i, [{}])
        v = (a.dom * i.dom).volume()
        return dict(v=v.reshape(-1), want=a.oset.volume({}, L) * i.oset.volume({}, L), nv0=nv0, nv1=set(a.dom.necessary_variables),
                    nv_comb=nv_comb)

    def goals(o, L, env):
        yield "operand_has_no_free_variable_before_and_after", o["nv0"] == set() and o["nv1"] == set()
        yield "combination_declares_the_partner_variable", o["nv_comb"] == {"t"}
        yield "one_value", len(o["v"]) == 1
        if len(o["v"]) == 1:
            yield "volume_eq", L.eq(o["v"][0], o["want"])

    return Case(name, body, goals, family="compose/operand_reuse", params=dict(op=op, a=ka))


def two_partial_evaluations_case():
    """history: a circle whose radius is ONE function of t and s is evaluated at t=v1 and again at t=v3; the first result
    still measures at v1 (for every row of s), and the product of the first result with an interval over t is a product
    of independent factors (exact measure)"""
    name = "compose/two_partial_evaluations/Circle[r(t,s)]"

    def body(env):
        from .c17 import circle_mixed
        L = env.L
        sh = circle_mixed(env, tag="A")
        v1, v3 = env.tensor("v1", ()), env.tensor("v3", ())
        e1, e3 = SH.elems(env, v1)[0], SH.elems(env, v3)[0]
        i = SH.interval(env, tag="I", var="t")
        P, rows = SH.params(env, [("s", 1)], 2)
        for prm in rows:
            env.assume(sh.oset.positive(dict(prm, t=[e1]), L))
            env.assume(sh.oset.positive(dict(prm, t=[e3]), L))
        env.assume(i.oset.positive({}, L))
        c1 = sh.dom(t=v1)
        c3 = sh.dom(t=v3)
        vol1 = c1.volume(P).reshape(-1)
        vol3 = c3.volume(P).reshape(-1)
        prod = (c1 * i.dom).volume(P).reshape(-1)
        return dict(vol1=vol1, vol3=vol3, prod=prod,
                    want1=[sh.oset.volume(dict(prm, t=[e1]), L) for prm in rows],
                    want3=[sh.oset.volume(dict(prm, t=[e3]), L) for prm in rows], ilen=i.oset.volume({}, L),
                    nv1=set(c1.necessary_variables))

    def goals(o, L, env):
        yield "first_result_declares_the_remaining_variable_only", o["nv1"] == {"s"}
        yield "rows", len(o["vol1"]) == len(o["vol3"]) == len(o["prod"]) == 2
        if not (len(o["vol1"]) == len(o["vol3"]) == len(o["prod"]) == 2):
            return
        for r in range(2):
            yield "first_evaluation_measures_at_its_own_value[row%d]" % r, L.eq(o["vol1"][r], o["want1"][r])
            yield "second_evaluation_measures_at_its_own_value[row%d]" % r, L.eq(o["vol3"][r], o["want3"][r])
            yield "product_with_interval_is_multiplicative[row%d]" % r, L.eq(o["prod"][r], o["want1"][r] * o["ilen"])

    return Case(name, body, goals, family="compose/two_partial_evaluations")


def density_case(kind, boundary, grid, user_volume=None):
    """user_volume: 'translate' / 'rotate' -- the domain is wrapped and the WRAPPER gets a user-set volume (a symbolic (1,1)
    tensor): the density then refers to that volume"""
    name = "density/%s/%s%s%s" % ("grid" if grid else "random", kind, "/boundary" if boundary else "",
                                  "/set_volume_on_%s" % user_volume if user_volume else "")

    def body(env):
        sh = SH.PRIMS[kind](env)
        SH.assume_positive(env, sh, [{}])
        L = env.L
        d_t = env.tensor("dens", ())
        dens = SH.elems(env, d_t)[0]
        env.assume(L.gt(dens, 0))
        dom = sh.dom.boundary if boundary else sh.dom
        vol = sh.bd_volume({}, L) if boundary else sh.oset.volume({}, L)
        if user_volume == "self":
            sv = env.tensor("sv", (1, 1))
            vol = SH.elems(env, sv)[0]
            env.assume(L.gt(vol, 0))
            dom.set_volume(sv)
        elif user_volume:
            w = (SH.translate if user_volume == "translate" else SH.rotate)(env, sh)
            sv = env.tensor("sv", (1, 1))
            vol = SH.elems(env, sv)[0]
            env.assume(L.gt(vol, 0))
            w.dom.set_volume(sv)
            dom = w.dom
        env.assume(L.le(dens * vol, 4))  # bound: at most 4 points requested
        dd = d_t.item() if env.symbolic else float(d_t)
        pts = (dom.sample_grid if grid else dom.sample_random_uniform)(d=dd)
        return dict(n=len(pts), dv=dens * vol)

    def goals(o, L, env):
        n = o["n"]
        if grid:
            yield "grid_at_most_ceil", L.lt(n - 1, o["dv"])
        else:
            # exactly ceil(d*vol):  n-1 < d*vol <= n
            yield "count_is_ceil", L.And(L.lt(n - 1, o["dv"]), L.le(o["dv"], n))

    return Case(name, body, goals, family=name, params=dict(kind=kind, boundary=boundary, grid=grid, user_volume=user_volume),
                max_paths=40, int_hi=8)


def cases(tier):
    cs = []
    ks = (0, 1, 2) if tier == "thorough" else (0, 2)
    for kind in ("Interval", "Circle", "Parallelogram", "Triangle", "Sphere"):
        for boundary in (False, True):
            for k in ks:
                cs.append(prim_case(kind, k, False, boundary))
            cs.append(prim_case(kind, 2, True, boundary))
    # documented precondition case: counter-clockwise triangle
    cs.append(prim_case("Triangle", 0, False, False, ccw=True))
    cs.append(prim_case("Parallelogram", 0, False, False, ccw=True))
    cs.append(prim_case("Parallelogram", 0, False, False, ccw=False))
    pairs = [("Circle", "Parallelogram"), ("Interval", "Interval")]
    if tier == "thorough":
        pairs += [("Parallelogram", "Triangle"), ("Circle", "Circle"), ("Triangle", "Circle")]
    for a, b in pairs:
        for op in ("union_disjoint", "cut_contained"):
            cs.append(comp_case(op, a, b))
    for a, b in [("Circle", "Interval"), ("Interval", "Parallelogram")] + ([("Triangle", "Interval")] if tier == "thorough" else []):
        cs.append(comp_case("product", a, b))
    for a in ("Circle", "Parallelogram") + (("Triangle",) if tier == "thorough" else ()):
        for op in ("translate", "rotate", "set_volume", "set_volume_translate", "set_volume_rotate"):
            cs.append(comp_case(op, a, a, k=0))
        cs.append(comp_case("translate", a, a, k=2))
    cs.append(comp_case("set_volume_cut", "Circle", "Parallelogram"))
    cs.append(comp_case("cut_contained_called", "Parallelogram", "Circle"))
    cs.append(comp_case("union_disjoint_called", "Circle", "Circle"))
    cs.append(product_history_case())
    cs.append(two_partial_evaluations_case())
    for op in ("cut", "union", "intersection", "cut_boundary"):
        cs.append(operand_reuse_case(op))
    if tier == "thorough":
        for op in ("cut", "intersection"):
            cs.append(operand_reuse_case(op, "Circle"))
    for kind in ("Interval", "Circle", "Parallelogram") + (("Sphere",) if tier == "thorough" else ()):
        cs.append(density_case(kind, False, False))
        if kind != "Sphere":
            cs.append(density_case(kind, False, True))
    for kind in ("Circle", "Interval") + (("Parallelogram", "Triangle") if tier == "thorough" else ()):
        cs.append(density_case(kind, True, False))
    cs.append(density_case("Parallelogram", False, False, user_volume="self"))
    cs.append(density_case("Circle", True, False, user_volume="self"))
    for wrap in ("rotate", "translate"):
        cs.append(density_case("Circle", False, False, user_volume=wrap))
        if tier == "thorough":
            cs.append(density_case("Parallelogram", False, False, user_volume=wrap))
            cs.append(density_case("Circle", False, True, user_volume=wrap))
    return cs
