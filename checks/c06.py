"""C06  Boundary normals are finite outward unit vectors.

Three kinds of cases, all executing the REAL torchphysics code symbolically:

normal/...    end to end: the library's own boundary sampler (symbolic draws) -> boundary.normal -> oracle.
generic/...   the GENERIC boundary point of a primitive piece (polygon edge a+t(b-a), t in [0,1] symbolic: edge
              interior, corner zones and both corners; circle/sphere c+r*w, |w|=1; interval end point), built by
              the harness from the symbolic shape parameters -> boundary.normal -> oracle.  Used where the end to
              end query is beyond the solver (polygon samplers: 4 clamps + 2 square roots in front of 4 isclose
              forks), together with
sampled/...   the link: every point the real boundary sampler returns lies EXACTLY on one of those pieces
              (so the generic point ranges over everything the sampler can return).
abstract/...  the composition layer (union/cut/intersection normal) on ARBITRARY operands (stubs with free
              symbolic membership answers and free symbolic normals): inductive step for arbitrary nesting.
"""
from __future__ import annotations

import torch
import torchphysics as tp
from torchphysics.problem.spaces.points import Points

from symtorch.harness import Case
from oracle import normals as N
from oracle import sets as O
from . import shapes as SH

TAU = 2e-4       # band between 'edge interior' and 'corner zone' (edge parameter); margin for Boolean operand selection
UNIT_TOL = 1e-6  # float replays only: symbolically the equalities (nu.nu == 1, nu.e == 0, nu*r == p-c) are claimed EXACTLY
                 # (stronger, and an exact equality is far cheaper for the solver than a two-sided tolerance)


def _tol(L):
    return 0 if L.symbolic else UNIT_TOL

META = dict(
    level="model_checking",
    bounds="boundary.normal at (a) the points returned by the library's own boundary samplers (sample_random_uniform with every "
           "draw symbolic, sample_grid): Interval (boundary, boundary_left, boundary_right), Circle, thorough: Sphere, "
           "parameter-dependent Interval/Circle/Sphere with k=2 parameter rows, Boolean operations of intervals and of circles; "
           "(b) the generic boundary point of every piece (each polygon edge with a symbolic edge parameter in [0,1] incl. both "
           "corners; circle; interval end) of Parallelogram (both vertex orientations = two sign cases of the determinant), Triangle "
           "(counter-clockwise, the documented precondition of Triangle; clockwise triangles are outside the claim), thorough: "
           "parameter-dependent polygons k=2, one Boolean operation of Circle/Parallelogram operands, nesting depth 2; linked to the "
           "samplers by (c) every point returned by the real polygon boundary samplers lies exactly on an edge; (d) union/cut/"
           "intersection normals on ARBITRARY operands (assume-guarantee step for arbitrary nesting); all shape parameters symbolic",
    outside=["points not produced by the samplers", "shapely/trimesh primitives", "float rounding (NaNs that arise only from rounding)",
             "points within 2e-4 (absolute for intervals/balls, barycentric for polygons) of the boundaries of BOTH operands of a "
             "Boolean combination (crossing points)",
             "intervals shorter than 2e-4 (both end points inside one isclose tolerance)",
             "more than 2 parameter rows, nesting depth > 2"],
    assumptions=["shapes have positive measure (radius > 0, lb < ub, det != 0)",
                 "Interval and Boolean combinations: |shape parameters| <= 16 (isclose has a relative tolerance)",
                 "polygon edge-normal claim only for points whose edge parameter is farther than 2e-4 from both corners; within the "
                 "corner zones the normal must lie in the closed normal cone of the adjacent edges and a step against it must enter",
                 "Triangle corners counter-clockwise (documented precondition); concrete Boolean combinations: polygon operands counter-clockwise"],
)

POLY = ("Parallelogram", "Triangle")


# ---- expressions: ("Circle", "A") | (op, e1, e2) ------------------------------------------


class Node:
    def __init__(self, kind, sh, affs=None, a=None, b=None, tag=None):
        self.kind, self.sh, self.affs, self.a, self.b, self.tag = kind, sh, affs, a, b, tag

    def leaves(self):
        if self.a is None:
            return [self]
        return self.a.leaves() + self.b.leaves()


BUILDERS = dict(SH.PRIMS)
BUILDERS["Parallelogram"] = SH.parallelogram_d  # origin + two edge vectors: the same shapes, smaller polynomials
BUILDERS["Triangle"] = SH.triangle_d


def build(env, expr, dep=None, base=0):
    if expr[0] in SH.PRIMS:
        kind, tag = expr[0], expr[1]
        before = len(getattr(env, "_affs", []))
        sh = BUILDERS[kind](env, tag=tag, dep=dep, **(dict(base=base) if kind == "Triangle" else {}))
        return Node(kind, sh, getattr(sh, "corner_affs", None) or list(env._affs[before:]), tag=tag)
    op, e1, e2 = expr
    a, b = build(env, e1, dep, base), build(env, e2, dep, base)
    sh = {"+": SH.union, "-": SH.cut, "&": SH.inter}[op](a.sh, b.sh)
    return Node(op, sh, None, a, b)


def expr_name(expr):
    if expr[0] in SH.PRIMS:
        return expr[0]
    return "(%s%s%s)" % (expr_name(expr[1]), expr[0], expr_name(expr[2]))


def expr_leaves(expr):
    if expr[0] in SH.PRIMS:
        return [expr]
    return expr_leaves(expr[1]) + expr_leaves(expr[2])


def pieces(kind):
    return {"Interval": ["lb", "ub"], "Circle": ["arc"], "Sphere": ["arc"], "Parallelogram": ["e0", "e1", "e2", "e3"],
            "Triangle": ["e0", "e1", "e2"]}[kind]


def _aff_rows(aff, P, nrows):
    """(nrows, dim) tensor of the shape parameter, one row per parameter row"""
    if hasattr(aff, "a") and hasattr(aff, "b"):  # shapes._Sum
        return _aff_rows(aff.a, P, nrows) + _aff_rows(aff.b, P, nrows)
    base = aff.base.reshape(1, -1)
    if aff.var is None:
        return base * torch.ones((nrows, 1))
    tcol = P[:, [aff.var]].as_tensor
    return base + aff.slope.reshape(1, -1) * tcol


def generic_point(env, leaf, piece, P, nrows):
    """the generic point of a boundary piece of a primitive, as a tensor built from the symbolic shape parameters"""
    L = env.L
    vals = [_aff_rows(a, P, nrows) for a in leaf.affs]
    if leaf.kind == "Interval":
        return (vals[0] if piece == "lb" else vals[1]), {}
    if leaf.kind in ("Circle", "Sphere"):
        c, r = vals
        w = env.tensor("w", (nrows, c.shape[1]))
        we = SH.elems(env, w)
        d = c.shape[1]
        for i in range(nrows):
            env.assume(L.eq(sum(x * x for x in we[i * d:(i + 1) * d]), 1))
        return c + r * w, {}
    o, c1, c2 = vals
    if leaf.kind == "Parallelogram":
        corners = [o, c1, c1 + c2 - o, c2]
    else:
        corners = [o, c1, c2]
    i = int(piece[1:])
    a, b = corners[i], corners[(i + 1) % len(corners)]
    t = env.tensor("te", (nrows, 1))
    te = SH.elems(env, t)
    for x in te:
        env.assume(L.And(L.ge(x, 0), L.le(x, 1)))
    return a + t * (b - a), dict(t=te, edge=i, m=len(corners))


def _orientation(env, node, rows, orient):
    """vertex orientation of the polygon leaves: the leaf under test gets `orient`, all others counter-clockwise"""
    L = env.L
    for leaf in node.leaves():
        if leaf.kind not in POLY:
            continue
        o = orient if (orient and node.a is None) else "pos"
        for ri, prm in enumerate(rows):
            det = leaf.sh.oset._frame(prm)[3]
            oo = ("pos" if ri % 2 == 0 else "neg") if o == "mixed" else o  # mixed: parameter rows of both orientations
            env.assume(L.gt(det, 0) if oo in ("pos", "ccw") else L.lt(det, 0))


def _needs_bound(expr):
    return any(l[0] == "Interval" for l in expr_leaves(expr)) or expr[0] not in SH.PRIMS


def _normalise(env, expr, node, rows):
    L = env.L
    for prm in rows:
        env.assume(node.sh.oset.positive(prm, L))
    if _needs_bound(expr):
        SH.bound_all_inputs(env, 16, rows)
    for leaf in node.leaves():
        if leaf.kind == "Interval":
            for prm in rows:
                env.assume(L.gt(leaf.sh.oset.volume(prm, L), L.num(TAU)))


def _rows(o_pts, names, dims, space_vars):
    offs, k = {}, 0
    for n, d in zip(names, dims):
        offs[n] = (k, d)
        k += d
    out = []
    for r in o_pts:
        p = []
        for n, d in space_vars:
            a, dd = offs[n]
            p += r[a:a + dd]
        out.append(p)
    return out


def _as_rows(x):
    return [list(r) if isinstance(r, (list, tuple)) else [r] for r in x]


def _poly_operand(expr):
    return expr[0] not in SH.PRIMS and any(l[0] in POLY for l in expr_leaves(expr))


# ---- end to end: real sampler -> real normal ---------------------------------------------------


def sampled_case(expr, method, n, k, orient=None, side=None, link_only=False, dep=None, called=False, after_other=False,
                 joint=False, **kw):
    """after_other: another object of the same kind (other symbolic parameters) and this one were sampled in the same way
    just before"""
    name = expr_name(expr) + ("[t]" if dep else "")
    tag = name + ("/" + orient if orient else "") + ("/" + side if side else "") + ("/called" if called else "") + (
        "/after_other_object" if after_other else "") + ("/joint_points_parameters_first" if joint else "")
    cname = "%s/%s/%s/n%d/k%d" % ("sampled" if link_only else "normal", tag, method, n, k)

    def body(env):
        node = build(env, expr, dep)
        sh = node.sh
        P, rows = SH.params(env, sh.pvars, k)
        _normalise(env, expr, node, rows)
        _orientation(env, node, rows, orient)
        bd = sh.dom.boundary if side is None else getattr(sh.dom, "boundary_" + side)
        if called:  # the boundary object after a partial evaluation (here of a variable it does not depend on),
            bd = bd(t=env.tensor("v_t", ()))  # as ProductDomain.__call__ and PlotSampler do with every domain
        f = bd.sample_random_uniform if method == "random" else bd.sample_grid
        if after_other:
            other = build(env, (expr[0], "Z"), dep).sh
            env.assume(other.oset.positive({}, env.L))
            ob = other.dom.boundary
            (ob.sample_random_uniform if method == "random" else ob.sample_grid)(n=n)
            f(n=n, params=P)
        pts = f(n=n, params=P)
        if joint and k:
            # normal() asked with ONE Points object that carries the parameters in FRONT of the coordinates
            Prep = Points(P.as_tensor.repeat_interleave(n, dim=0), P.space)
            nrm = bd.normal(Points.joined(Prep, pts))
        else:
            nrm = None if link_only else bd.normal(pts, P)
        names, dims = list(pts.space.keys()), [pts.space[v] for v in pts.space]
        return dict(pts=pts, nrm=nrm, names=names, dims=dims, sh=sh, rows=rows, npts=len(pts))

    def goals(o, L, env):
        sh, rows = o["sh"], o["rows"]
        want = n * max(k, 1)
        d = sum(dd for _, dd in sh.space_vars)
        yield "one_point_per_draw", o["npts"] == want
        space_ok = [v for v in o["names"] if v in dict(sh.space_vars)] == [v for v, _ in sh.space_vars]
        yield "space", space_ok
        if not space_ok:
            return
        pts = _rows(o["pts"], o["names"], o["dims"], sh.space_vars)
        if link_only:
            for i, p in enumerate(pts):
                prm = rows[min(i // n, len(rows) - 1)] if k else {}
                yield "sampled_point_on_a_piece[row%d]" % i, N.on_some_piece(sh.oset, p, prm, L)
            return
        nrm = _as_rows(o["nrm"])
        yield "one_normal_per_point", len(nrm) == o["npts"] and all(len(r) == d for r in nrm)
        if len(nrm) != o["npts"]:
            return
        for i, (p, nu) in enumerate(zip(pts, nrm)):
            prm = rows[min(i // n, len(rows) - 1)] if k else {}
            yield "unit[row%d]" % i, N.unit(nu, L, _tol(L))
            for cn, f in N.claims(sh.oset, p, nu, prm, L, TAU, _tol(L)):
                yield "outward:%s[row%d]" % (cn, i), f

    opts = dict(max_paths=64, max_decisions=64, max_forks_per_site=8)
    opts.update(kw)
    # a Boolean combination evaluates BOTH operands' normals and discards one with torch.where: the discarded
    # one may be 0/0 (a polygon asked about a point that is not on its boundary) although the result is finite
    # -> finiteness of the result is then established through the unit-length goal (an undefined quotient is an
    # unconstrained symbol / a NaN in the replay) instead of the obligations
    return Case(cname, body, goals, family=("sampled/" if link_only else "normal/") + tag,
                params=dict(shape=name, method=method, n=n, k=k, orient=orient, side=side),
                check_obligations=not _poly_operand(expr), **opts)


def optional_parameter_case(kind, n=1, k=2):
    """shape functions whose ONLY argument has a declared default (def radius(t=1.0)): no variable is necessary, yet a t
    supplied through `params` is honoured by the samplers and by _contains -- and has to be by normal()"""
    cname = "normal/%s[r(t=default)]/random/n%d/k%d" % (kind, n, k)

    def body(env):
        L = env.L
        r0, r1 = env.tensor("R0", ()), env.tensor("R1", ())
        c = env.tensor("Cc", (3 if kind == "Sphere" else 2,))
        e0, e1, ec = SH.elems(env, r0)[0], SH.elems(env, r1)[0], SH.elems(env, c)

        def radius(t=1.0):
            return r0 + r1 * t

        X = tp.spaces.R3("x") if kind == "Sphere" else tp.spaces.R2("x")
        dom = (tp.domains.Sphere if kind == "Sphere" else tp.domains.Circle)(X, c, radius)
        oset = O.OBall(lambda prm: list(ec), lambda prm: [e0 + e1 * prm["t"][0]], len(ec))
        P, rows = SH.params(env, [("t", 1)], k)
        for prm in rows:
            env.assume(L.gt(e0 + e1 * prm["t"][0], 0))
        env.assume(L.gt(e0 + e1, 0))
        bd = dom.boundary
        pts = bd.sample_random_uniform(n=n, params=P)
        nrm = bd.normal(pts, P)
        return dict(pts=pts.as_tensor, nrm=nrm, oset=oset, rows=rows, nv=set(dom.necessary_variables))

    def goals(o, L, env):
        yield "no_necessary_variable", o["nv"] == set()
        pts, nrm = o["pts"], _as_rows(o["nrm"])
        yield "one_normal_per_point", len(nrm) == len(pts) == n * k
        if len(nrm) != len(pts):
            return
        d = len(nrm[0])
        for i, (p, nu) in enumerate(zip(pts, nrm)):
            prm = o["rows"][min(i // n, k - 1)]
            yield "unit[row%d]" % i, N.unit(nu, L, _tol(L))
            for cn, f in N.claims(o["oset"], list(p[:d]), nu, prm, L, TAU, _tol(L)):
                yield "outward:%s[row%d]" % (cn, i), f

    return Case(cname, body, goals, family="normal/optional_parameter", params=dict(kind=kind, n=n, k=k), max_paths=32)


def dict_params_case(order):
    """normal() handed its parameters as a DICT of two variables (documented alternative to Points), in either key order"""
    cname = "normal/Circle[c(s),r(t)]/random/n1/k2/dict_parameters_%s" % "".join(order)

    def body(env):
        from .c17 import circle_ts
        L = env.L
        sh = circle_ts(env, tag="A")
        P, rows = SH.params(env, sh.pvars, 2)
        for prm in rows:
            env.assume(sh.oset.positive(prm, L))
        bd = sh.dom.boundary
        pts = bd.sample_random_uniform(n=1, params=P)
        co = P.coordinates
        nrm = bd.normal(pts, {v: co[v] for v in order})
        return dict(pts=pts.as_tensor, nrm=nrm, sh=sh, rows=rows)

    def goals(o, L, env):
        pts, nrm = o["pts"], _as_rows(o["nrm"])
        yield "one_normal_per_point", len(nrm) == len(pts) == 2
        if len(nrm) != len(pts):
            return
        for i, (p, nu) in enumerate(zip(pts, nrm)):
            yield "unit[row%d]" % i, N.unit(nu, L, _tol(L))
            for cn, f in N.claims(o["sh"].oset, list(p[:2]), nu, o["rows"][i], L, TAU, _tol(L)):
                yield "outward:%s[row%d]" % (cn, i), f

    return Case(cname, body, goals, family="normal/dict_parameters", params=dict(order="".join(order)), max_paths=32)


# ---- generic boundary point of a piece -> real normal -------------------------------------------


def _generic_claims(o, i, p, nu, prm, L, skip_tag, with_forms=False):
    """the oracle's claims at the generic point; for the polygon the point was built on, the premises (polynomial
    predicates of p) are replaced by their normal forms in the edge parameter -- the equivalence is proved in the
    premises/... cases, not assumed.  Claims for the vertex orientation the case excludes by assumption are dropped."""
    aux, sh = o["aux"], o["sh"]
    forms = N.edge_point_premises(aux["m"], aux["edge"], aux["t"][i], L, TAU) if "t" in aux else {}
    out = []
    for cn, lf, conds, prem, concl in N.claims3(sh.oset, p, nu, prm, L, TAU, _tol(L)):
        if skip_tag and ("@" + skip_tag) in cn:
            continue
        base = cn.split(".")[-1].split("@")[0]
        if lf is o["leaf"].oset and base in forms:
            out.append((cn, conds, forms[base], concl) if not with_forms else (cn, conds, prem, forms[base]))
        elif not with_forms:
            out.append((cn, conds, prem, concl))
    return out


def _is_t_form(prem, o):
    """the premise is a normal form in the edge parameter only (bool or a formula over the t symbols)"""
    if isinstance(prem, bool):
        return True
    try:
        import z3
        from symtorch import term as T
        if not isinstance(prem, z3.ExprRef):
            return False
        names = set(T.free_vars(prem))
        tn = set()
        for t in o["aux"].get("t", []):
            tn |= set(T.free_vars(t))
        return names <= tn
    except Exception:
        return False


ZONES = ("v0", "z0", "mid", "z1", "v1")  # partition of the edge parameter: {0}, (0,tau], (tau,1-tau), [1-tau,1), {1}


def _zone(L, t, zone):
    tau = L.num(TAU)
    return {"v0": L.eq(t, 0), "z0": L.And(L.gt(t, 0), L.le(t, tau)), "mid": L.And(L.gt(t, tau), L.lt(t, 1 - tau)),
            "z1": L.And(L.ge(t, 1 - tau), L.lt(t, 1)), "v1": L.eq(t, 1)}[zone]


def _relation(L, zone_f, prem):
    """how a premise (a condition on the edge parameter) relates to the zone the case assumes:
    'never' (disjoint), 'always' (zone implies it) or 'partly'"""
    if prem is True or prem is False:
        return "always" if prem else "never"
    if not L.symbolic:
        return "always" if prem else "never"
    import z3
    s = z3.Solver()
    s.add(zone_f, prem)
    if s.check() == z3.unsat:
        return "never"
    s = z3.Solver()
    s.add(zone_f, z3.Not(prem))
    return "always" if s.check() == z3.unsat else "partly"


def generic_case(expr, leaf_idx, piece, k=0, orient=None, dep=None, premises_only=False, zone=None, **kw):
    name = expr_name(expr) + ("[t]" if dep else "")
    leaf_e = expr_leaves(expr)[leaf_idx]
    composite = expr[0] not in SH.PRIMS
    where = ("%s%s:%s" % (leaf_e[0], leaf_e[1], piece)) if composite else piece
    tag = name + ("/" + orient if orient else "")
    cname = "%s/%s/%s%s/k%d" % ("premises" if premises_only else "generic", tag, where, ":" + zone if zone else "", k)
    # claims about the other vertex orientation have a premise the case's assumption contradicts
    other = "ccw" if orient in ("neg", "cw") else "cw"

    # triangles: the two edge vectors the shape is parametrised by start at the corner this case is about
    base = 0
    if leaf_e[0] == "Triangle" and piece.startswith("e"):
        base = (int(piece[1:]) + (1 if zone in ("z1", "v1") else 0)) % 3

    def body(env):
        node = build(env, expr, dep, base)
        sh = node.sh
        P, rows = SH.params(env, sh.pvars, k)
        nrows = max(k, 1)
        L = env.L
        _normalise(env, expr, node, rows)
        _orientation(env, node, rows, orient)
        leaf = node.leaves()[leaf_idx]
        pt, aux = generic_point(env, leaf, piece, P, nrows)
        if zone:  # one case per zone of the edge: every claim is then decided without the path condition
            for t in aux["t"]:
                env.assume(_zone(L, t, zone))
        d = pt.shape[1]
        el = SH.elems(env, pt)
        prow = [el[i * d:(i + 1) * d] for i in range(nrows)]
        prms = rows if k else [{}]
        if composite:  # the point belongs to the boundary of the combination, clear of the other operand's boundary
            for p, prm in zip(prow, prms):
                env.assume(N.selected(sh.oset, p, prm, L, TAU))
        X = sh.dom.space
        nrm = None if premises_only else sh.dom.boundary.normal(Points(pt.clone(), X), P)
        return dict(nrm=nrm, p=prow, sh=sh, prms=prms, n=nrows, leaf=leaf.sh, aux=aux)

    def premise_goals(o, L, env):
        seen = set()
        for i, (p, prm) in enumerate(zip(o["p"], o["prms"])):
            yield "generic_point_on_piece[row%d]" % i, N.on_some_piece(o["leaf"].oset, p, prm, L)
            for cn, conds, prem, form in _generic_claims(o, i, p, [0] * len(p), prm, L, None, with_forms=True):
                base = cn.split("@")[0]
                if (i, base) not in seen:  # claims that differ only in orientation / lemma share their premise
                    seen.add((i, base))
                    yield "premise_normal_form:%s[row%d]" % (base, i), L.Iff(prem, form)

    def goals(o, L, env):
        sh = o["sh"]
        d = sum(dd for _, dd in sh.space_vars)
        nrm = _as_rows(o["nrm"])
        yield "one_normal_per_point", len(nrm) == o["n"] and all(len(r) == d for r in nrm)
        if len(nrm) != o["n"]:
            return
        yield "vertex_lemma_closure", N.vertex_lemma_closure(L)
        for i, (p, nu, prm) in enumerate(zip(o["p"], nrm, o["prms"])):
            yield "generic_point_on_piece[row%d]" % i, N.on_some_piece(o["leaf"].oset, p, prm, L)
            yield "unit[row%d]" % i, N.unit(nu, L, _tol(L))
            zf = _zone(L, o["aux"]["t"][i], zone) if zone else None
            skip = other if orient != "mixed" else ("cw" if i % 2 == 0 else "ccw")
            for cn, conds, prem, concl in _generic_claims(o, i, p, nu, prm, L, skip):
                if zf is not None and _is_t_form(prem, o):
                    rel = _relation(L, zf, prem)
                    if rel == "never":  # premise excluded by the zone this case assumes
                        continue
                    if rel == "always":
                        prem = True
                if prem is not False:
                    yield "outward:%s[row%d]" % (cn, i), L.Implies(L.And(*(conds + [prem])), concl)

    opts = dict(max_paths=64, max_decisions=64, max_forks_per_site=8, split=("abs", "where"))
    opts.update(kw)
    return Case(cname, body, premise_goals if premises_only else goals, family=("premises/" if premises_only else "generic/") + tag,
                params=dict(shape=name, piece=where, k=k, orient=orient), check_obligations=not _poly_operand(expr), **opts)


# ---- composition layer on arbitrary operands ----------------------------------------------


class _NStubDomain(SH.StubDomain):
    def __init__(self, space, env, tag, n):
        super().__init__(space, env, tag, n)
        if not env.symbolic:  # float replay: the stub's answers are exactly what the code sees (no comparison slack)
            self.f_in = [float(v) > 0 for v in SH.elems(env, self.t_in)]
            self.f_on = [float(v) > 0 for v in SH.elems(env, self.t_on)]

    @property
    def boundary(self):
        return _NStubBoundary(self)


class _NStubBoundary(SH.StubBoundary):
    def normal(self, points, params=Points.empty(), device="cpu"):
        d = self.domain
        if not hasattr(d, "asked_nrm"):
            d.asked_nrm = []
        d.asked_nrm.append((points, params))
        return super().normal(points, params, device)


def abstract_case(op, n=2, with_params=False):
    """normal() of a union/cut/intersection boundary of ARBITRARY operands: the operand normal of the
    boundary part the point belongs to, sign flipped exactly for the removed part of a cut"""
    cname = "abstract/%s%s" % ({"+": "union", "-": "cut", "&": "intersection"}[op], "/params" if with_params else "")

    def body(env):
        X = tp.spaces.R2("x")
        a = _NStubDomain(X, env, "sa", n)
        b = _NStubDomain(X, env, "sb", n)
        d = {"+": a + b, "-": a - b, "&": a & b}[op]
        qt = env.tensor("q", (n, 2))
        pts = Points(qt, X)
        if with_params:  # parameter rows are handed through to the operands
            P, _ = SH.params(env, [("t", 1)], n)
            res = d.boundary.normal(pts, P)
        else:
            res = d.boundary.normal(pts)
        an, bn = getattr(a, "asked_nrm", []), getattr(b, "asked_nrm", [])
        asked = [x[0] for x in an + bn + a.asked_bd + b.asked_bd + a.asked + b.asked]
        return dict(res=res, nua=getattr(a, "t_normal", None), nub=getattr(b, "t_normal", None), ia=a.f_in, ib=b.f_in,
                    oa=a.f_on, ob=b.f_on, asked=asked, q=qt, shape=list(res.shape), n=n, n_nrm=[len(an), len(bn)])

    def goals(o, L, env):
        yield "one_normal_per_row", o["shape"] == [o["n"], 2]
        yield "each_operand_normal_asked_once", o["n_nrm"] == [1, 1]
        if o["nua"] is None or o["nub"] is None:
            return
        for j, t in enumerate(o["asked"]):
            for i in range(o["n"]):
                for c in range(2):
                    yield "operand_sees_query_point[call%d,row%d,%d]" % (j, i, c), L.eq(t[i][c], o["q"][i][c])
        for i in range(o["n"]):
            for gn, f in N.boolean_rule(op, o["ia"][i], o["oa"][i], o["ib"][i], o["ob"][i], o["res"][i], o["nua"][i], o["nub"][i], L):
                yield "%s[row%d]" % (gn, i), f
            # inductive step for length/finiteness: the result is one of the operand normals up to sign
            both = L.And(N.unit(o["nua"][i], L, 0), N.unit(o["nub"][i], L, 0))
            yield "unit_if_operands_unit[row%d]" % i, L.Implies(both, N.unit(o["res"][i], L, 0))

    return Case(cname, body, goals, family=cname, params=dict(op=op, n=n))


# ---- case list -------------------------------------------------------------------------

I, C, S, PG, TR = ("Interval", "A"), ("Circle", "A"), ("Sphere", "A"), ("Parallelogram", "A"), ("Triangle", "A")


def _default_solver_knobs():
    from symtorch import smt, harness, explore
    smt.PRE_STRATEGIES = ()
    harness.EXTRA_RUNGS = ()
    explore.FEAS_FALLBACK = None


def cases(tier):
    quick = tier == "quick"
    # solver strategy for the sqrt/quotient chains of polygon normals (opt-in hook of symtorch/smt.py): nlsat with
    # variable ordering strategy 5 is tried first with a small budget; the standard strategies follow unchanged
    from symtorch import smt, harness, explore
    smt.PRE_STRATEGIES = (("nlsat-vo5", 4000 if quick else 15000), ("nlsat-noreorder", 3000 if quick else 10000))
    harness.EXTRA_RUNGS = ("cone-strong",)          # goal-relevant defining axioms only, at full strength
    explore.FEAS_FALLBACK = ("nlsat-vo5", 1500)      # prune branches the incremental solver cannot refute
    cs = []
    # Interval: both end points, and the single-sided boundaries
    for n in (1, 2):
        cs.append(sampled_case(I, "random", n, 0))
    for n in (1, 2, 3):
        cs.append(sampled_case(I, "grid", n, 0))
    for side in ("left", "right"):
        cs.append(sampled_case(I, "random", 2, 0, side=side))
        cs.append(sampled_case(I, "grid", 1, 0, side=side))
        cs.append(sampled_case(I, "grid", 1, 0, side=side, called=True))
    cs.append(sampled_case(I, "random", 2, 0, called=True))
    # Circle
    for n in (1, 2):
        cs.append(sampled_case(C, "random", n, 0))
    for n in (1, 3):
        cs.append(sampled_case(C, "grid", n, 0))
    cs.append(optional_parameter_case("Circle"))
    for order in (("t", "s"), ("s", "t")):
        cs.append(dict_params_case(order))
    cs.append(sampled_case(S, "grid", 2, 0, after_other=True))
    for e in (C, S, I):
        cs.append(sampled_case(e, "random", 1, 2, dep="t", joint=True))
    cs.append(sampled_case(C, "grid", 3, 0, after_other=True))
    if not quick:
        cs.append(optional_parameter_case("Sphere"))
    # polygons: generic point of every edge (interior, corner zones, corners), both orientations
    for e, orients in ((PG, ("pos", "neg")), (TR, ("ccw",))):  # Triangle documents counter-clockwise corners as a precondition
        for orient in orients:
            for pc in pieces(e[0]):
                for z in ZONES:
                    cs.append(generic_case(e, 0, pc, 0, orient=orient, zone=z))
                cs.append(generic_case(e, 0, pc, 0, orient=orient, premises_only=True))
        # link: the real boundary samplers return points on those edges (any orientation); clamps as path forks
        cs.append(sampled_case(e, "random", 1, 0, link_only=True, split=("minmax",)))
        for n in (1, 2, 3):
            cs.append(sampled_case(e, "grid", n, 0, link_only=True, split=("minmax",), budget_s=100))
        if not quick:
            cs.append(sampled_case(e, "random", 2, 0, link_only=True, split=("minmax",), max_paths=96))
            for n in (4, 5):
                cs.append(sampled_case(e, "grid", n, 0, link_only=True, split=("minmax",), max_paths=96))
    # parameter rows of BOTH vertex orientations in one call (the orientation correction is per row)
    for pc, z in (("e0", "mid"), ("e2", "v0")) if quick else [(pc, z) for pc in pieces("Parallelogram") for z in ("v0", "mid", "z1")]:
        cs.append(generic_case(PG, 0, pc, 2, orient="mixed", zone=z, dep="t", budget_s=140 if quick else 300))
    # composition layer on arbitrary operands
    for op in "+-&":
        cs.append(abstract_case(op))
        cs.append(abstract_case(op, with_params=True))
    # Boolean operations of intervals: generic end points of both operands (linear queries)
    for op in "+-&":
        e = (op, ("Interval", "A"), ("Interval", "B"))
        for li in (0, 1):
            for pc in ("lb", "ub"):
                cs.append(generic_case(e, li, pc, 0))
    # premise of the composition step: the Boolean boundaries choose the operand whose boundary._contains answers true,
    # so the operands' boundary membership has to be right (same cases as C05 bcontains/<primitive>; without them a wrong
    # TriangleBoundary._contains turns a union's normals inwards while every claim above still holds)
    from . import c05
    for name, mk, info in SH.catalog(tier):
        if info.get("fam") == "prim":
            c = c05.boundary_case(name, mk, info, 0)
            c.name = "premise/" + c.name
            c.family = "premise/" + c.family
            c.setup = _default_solver_knobs
            cs.append(c)
    if quick:
        return cs
    # ---- thorough ------------------------------------------------------------------------------
    # Sphere: end to end (random draws; grid incl. n=1, where sample_grid divides by n-1)
    for n in (1, 2):
        cs.append(sampled_case(S, "random", n, 0))
    for n in (1, 2, 3):
        cs.append(sampled_case(S, "grid", n, 0))
    cs.append(generic_case(S, 0, "arc", 0))
    # parameter-dependent shapes, k=2 parameter rows
    for e in (I, C, S):
        cs.append(sampled_case(e, "random", 1, 2, dep="t"))
        if e is not S:  # SphereBoundary.sample_grid does not accept parameter rows at all (radius.item()): a sampler matter (C01/C02)
            cs.append(sampled_case(e, "grid", 1, 2, dep="t"))
    for e, orient in ((PG, "pos"), (TR, "ccw")):
        for pc in pieces(e[0]):
            for z in ZONES:
                cs.append(generic_case(e, 0, pc, 2, orient=orient, zone=z, dep="t", budget_s=300))
            cs.append(generic_case(e, 0, pc, 2, orient=orient, premises_only=True, dep="t"))
    # one Boolean operation with a concrete 2-D operand pair: the generic point of every edge of the Parallelogram
    # operand of Circle op Parallelogram (corner and edge-interior zones): the union/intersection select its normal,
    # the cut flips it.  (The generic arc point of these combinations, Circle op Circle and depth-2 nestings were
    # tried and are beyond the solver budget -- isclose(sqrt(.), r) against barycentric isclose forks; they are
    # covered by the abstract/* step on arbitrary operands together with the primitives.)
    A_C, B_P = ("Circle", "A"), ("Parallelogram", "B")
    for op in "+-&":
        e = (op, A_C, B_P)
        for pc in pieces("Parallelogram"):
            for z in ("v0", "mid"):
                cs.append(generic_case(e, 1, pc, 0, zone=z, budget_s=150))
    return cs
