"""C06  Boundary normals are finite outward unit vectors."""
from __future__ import annotations

import torch
import torchphysics as tp
from torchphysics.problem.spaces.points import Points

from symtorch.harness import Case
from oracle import normals as N
from . import shapes as SH

TAU = 2e-4       # band between 'edge interior' and 'corner zone' (edge parameter); margin for Boolean operand selection
UNIT_TOL = 1e-6

META = dict(
    level="model_checking",
    bounds="boundary points produced by the library's own boundary samplers (sample_random_uniform with every draw symbolic, "
           "sample_grid) followed by boundary.normal: Interval (boundary, boundary_left, boundary_right), Circle, Parallelogram "
           "(both vertex orientations, as two sign cases of the determinant), Triangle (counter-clockwise as documented; clockwise "
           "in the separate families */cw = documented precondition violated), all shape parameters symbolic; union/cut/"
           "intersection normals on ARBITRARY operands (assume-guarantee step for arbitrary nesting); quick: n<=2 points "
           "(polygons: n=1 random, grid n<=2 = corners), Boolean ops of two intervals; thorough: Sphere, parameter-dependent shapes with "
           "k=2 parameter rows, one Boolean operation of Circle/Parallelogram operands, nesting depth 2",
    outside=["points not produced by the samplers", "shapely/trimesh primitives", "float rounding (NaNs that arise only from rounding)",
             "points within 2e-4 (absolute for intervals/balls, barycentric for polygons) of the boundaries of BOTH operands of a "
             "Boolean combination (crossing points)",
             "intervals shorter than 2e-4 (both end points inside one isclose tolerance)",
             "more than 2 parameter rows, nesting depth > 2"],
    assumptions=["shapes have positive measure (radius > 0, lb < ub, det != 0)",
                 "Interval and Boolean combinations: |shape parameters| <= 16 (isclose has a relative tolerance)",
                 "polygon edge-normal claim only for points whose edge parameter is farther than 2e-4 from both corners; within the "
                 "corner zones the normal must lie in the closed normal cone of the adjacent edges and a step against it must enter"],
)


def _rows(o_pts, names, dims, space_vars):
    offs, k = {}, 0
    for n, d in zip(names, dims):
        offs[n] = (k, d)
        k += d
    out = []
    for r in o_pts:
        p = []
        for n, d in space_vars:
            a, dd = offs[n]
            p += r[a:a + dd]
        out.append(p)
    return out


def _as_rows(x):
    return [list(r) if isinstance(r, (list, tuple)) else [r] for r in x]


def _orientation(env, sh, rows, orient):
    if orient is None:
        return
    L = env.L
    for prm in rows:
        det = sh.oset._frame(prm)[3]
        env.assume(L.gt(det, 0) if orient in ("pos", "ccw") else L.lt(det, 0))


def _has_isclose_scale(name):
    return "Interval" in name or any(c in name for c in "+-&")


def _goals_for(n, k, dim_of=None):
    def goals(o, L, env):
        sh, rows = o["sh"], o["rows"]
        want = n * max(k, 1)
        nrm = _as_rows(o["nrm"])
        d = sum(dd for _, dd in sh.space_vars)
        yield "one_point_per_draw", o["npts"] == want
        yield "one_normal_per_point", len(nrm) == o["npts"] and all(len(r) == d for r in nrm)
        space_ok = [v for v in o["names"] if v in dict(sh.space_vars)] == [v for v, _ in sh.space_vars]
        yield "space", space_ok
        if not space_ok or len(nrm) != o["npts"]:
            return
        pts = _rows(o["pts"], o["names"], o["dims"], sh.space_vars)
        for i, (p, nu) in enumerate(zip(pts, nrm)):
            prm = rows[min(i // n, len(rows) - 1)] if k else {}
            yield "unit[row%d]" % i, N.unit(nu, L, UNIT_TOL)
            for cn, f in N.claims(sh.oset, p, nu, prm, L, TAU, UNIT_TOL):
                yield "outward:%s[row%d]" % (cn, i), f

    return goals


def prim_case(name, mk, info, method, n, k, orient=None, side=None, **kw):
    """real boundary sampler -> real normal(), primitives and concrete Boolean combinations"""
    tag = name + ("/" + orient if orient else "") + ("/" + side if side else "")
    cname = "normal/%s/%s/n%d/k%d" % (tag, method, n, k)
    composite = info.get("fam") in ("bool", "nested")
    poly_operand = composite and any(s in name for s in ("Parallelogram", "Triangle"))

    def body(env):
        sh = mk(env)
        P, rows = SH.params(env, sh.pvars, k)
        L = env.L
        for prm in rows:
            env.assume(sh.oset.positive(prm, L))
        _orientation(env, sh, rows, orient)
        if _has_isclose_scale(name):
            SH.bound_all_inputs(env, 16, rows)
        if name.startswith("Interval"):
            for prm in rows:
                env.assume(L.gt(sh.oset.volume(prm, L), L.num(TAU)))
        bd = sh.dom.boundary if side is None else getattr(sh.dom, "boundary_" + side)
        f = bd.sample_random_uniform if method == "random" else bd.sample_grid
        pts = f(n=n, params=P)
        nrm = bd.normal(pts, P)
        names, dims = list(pts.space.keys()), [pts.space[v] for v in pts.space]
        return dict(pts=pts, nrm=nrm, names=names, dims=dims, sh=sh, rows=rows, npts=len(pts))

    opts = dict(max_paths=64, max_decisions=64, max_forks_per_site=8)
    opts.update(kw)
    # a Boolean combination evaluates BOTH operands' normals and discards one with torch.where: the
    # discarded one may be 0/0 (a polygon asked about a point that is not on its boundary) although the
    # result is finite -> finiteness of the result is then established through the unit-length goal
    # (an undefined quotient is an unconstrained symbol / a NaN in the replay) instead of the obligations
    return Case(cname, body, _goals_for(n, k), family="normal/" + tag,
                params=dict(shape=name, method=method, n=n, k=k, orient=orient, side=side, **info),
                check_obligations=not poly_operand, **opts)


# ---- composition layer on arbitrary operands ----------------------------------------------


class _NStubDomain(SH.StubDomain):
    @property
    def boundary(self):
        return _NStubBoundary(self)


class _NStubBoundary(SH.StubBoundary):
    def normal(self, points, params=Points.empty(), device="cpu"):
        d = self.domain
        if not hasattr(d, "asked_nrm"):
            d.asked_nrm = []
        d.asked_nrm.append((points, params))
        return super().normal(points, params, device)


def abstract_case(op, n=2, nested=False):
    """normal() of a union/cut/intersection boundary of ARBITRARY operands: the operand normal of the
    boundary part the point belongs to, sign flipped exactly for the removed part of a cut"""
    cname = "abstract/%s%s" % ({"+": "union", "-": "cut", "&": "intersection"}[op], "/k2" if nested else "")

    def body(env):
        X = tp.spaces.R2("x")
        a = _NStubDomain(X, env, "sa", n)
        b = _NStubDomain(X, env, "sb", n)
        d = {"+": a + b, "-": a - b, "&": a & b}[op]
        qt = env.tensor("q", (n, 2))
        pts = Points(qt, X)
        if nested:  # parameter rows are handed through to the operands
            P, _ = SH.params(env, [("t", 1)], n)
            res = d.boundary.normal(pts, P)
        else:
            res = d.boundary.normal(pts)
        asked = [x[0] for x in getattr(a, "asked_nrm", []) + getattr(b, "asked_nrm", []) + a.asked_bd + b.asked_bd + a.asked + b.asked]
        nua = getattr(a, "t_normal", None)
        nub = getattr(b, "t_normal", None)
        return dict(res=res, nua=nua, nub=nub, ia=a.f_in, ib=b.f_in, oa=a.f_on, ob=b.f_on, asked=asked, q=qt,
                    shape=list(res.shape), n=n, n_nrm=(len(getattr(a, "asked_nrm", [])), len(getattr(b, "asked_nrm", []))))

    def goals(o, L, env):
        yield "one_normal_per_row", o["shape"] == [o["n"], 2]
        yield "each_operand_normal_asked_once", o["n_nrm"] == (1, 1)
        if o["nua"] is None or o["nub"] is None:
            return
        for j, t in enumerate(o["asked"]):
            for i in range(o["n"]):
                for c in range(2):
                    yield "operand_sees_query_point[call%d,row%d,%d]" % (j, i, c), L.eq(t[i][c], o["q"][i][c])
        for i in range(o["n"]):
            for gn, f in N.boolean_rule(op, o["ia"][i], o["oa"][i], o["ib"][i], o["ob"][i], o["res"][i], o["nua"][i], o["nub"][i], L):
                yield "%s[row%d]" % (gn, i), f
            # inductive step for the length: if the selected operand normal is a unit vector so is the result
            sel_unit = L.And(N.unit(o["nua"][i], L, 0), N.unit(o["nub"][i], L, 0))
            yield "unit_if_operands_unit[row%d]" % i, L.Implies(sel_unit, N.unit(o["res"][i], L, 0))

    return Case(cname, body, goals, family=cname, params=dict(op=op, n=n))


# ---- case list -------------------------------------------------------------------------


def _prim(kind, dep=None):
    return lambda env: SH.PRIMS[kind](env, dep=dep)


def _bool(op, a, b):
    f = {"+": SH.union, "-": SH.cut, "&": SH.inter}[op]
    return lambda env: f(SH.PRIMS[a](env, tag="A"), SH.PRIMS[b](env, tag="B"))


POLY_SPLIT = ("minmax", "abs", "where")


def cases(tier):
    quick = tier == "quick"
    cs = []
    prim = dict(fam="prim")
    # Interval: both end points, and the single-sided boundaries
    for n in (1, 2):
        cs.append(prim_case("Interval", _prim("Interval"), prim, "random", n, 0))
    for n in (1, 2, 3):
        cs.append(prim_case("Interval", _prim("Interval"), prim, "grid", n, 0))
    for side in ("left", "right"):
        cs.append(prim_case("Interval", _prim("Interval"), prim, "random", 2, 0, side=side))
        cs.append(prim_case("Interval", _prim("Interval"), prim, "grid", 1, 0, side=side))
    # Circle
    for n in (1, 2):
        cs.append(prim_case("Circle", _prim("Circle"), prim, "random", n, 0))
    for n in (1, 3):
        cs.append(prim_case("Circle", _prim("Circle"), prim, "grid", n, 0))
    # polygons: one symbolic point (edge interiors, corner zones and corners are all reachable), grid points = corners
    for kind, orients in (("Parallelogram", ("pos", "neg")), ("Triangle", ("ccw", "cw"))):
        for orient in orients:
            cs.append(prim_case(kind, _prim(kind), prim, "random", 1, 0, orient=orient, split=POLY_SPLIT))
            for n in ((1, 2) if quick else (1, 2, 3)):
                cs.append(prim_case(kind, _prim(kind), prim, "grid", n, 0, orient=orient, split=POLY_SPLIT))
    # composition layer on arbitrary operands
    for op in "+-&":
        cs.append(abstract_case(op))
        cs.append(abstract_case(op, nested=True))
    # Boolean operations of intervals (linear queries)
    for op in "+-&":
        nm = "(Interval%sInterval)" % op
        cs.append(prim_case(nm, _bool(op, "Interval", "Interval"), dict(fam="bool", kind=op), "random", 1, 0))
    return cs
