"""C03  Differential operators equal the analytic derivatives, row by row.

The REAL operators of torchphysics/utils/differentialoperators.py run on symbolic tensors with the REAL
autograd engine (backward ATen ops arrive at the SymTorch kernel table).  A *program* is a template
u = sum_k c_k * monomial_k(z) (+ c_k * f(linear form), f in sin/exp/tanh) per output component; the
coefficients c and the evaluation points are symbolic tensors, so one template covers all coefficient
values and all points.  torch's error behaviour depends on the graph STRUCTURE, therefore the families
enumerate subsets of the monomial basis.

The oracle is a small polynomial algebra written here (`p_diff`): closed-form derivatives of the template,
no autograd involved.  Goals per operator call: no exception, result shape, every cell equals the
closed-form value (z3), row i of the result contains no symbol of another row (row independence).
"""
from __future__ import annotations

import itertools

import numpy as np
import torch
import z3

from torchphysics.utils import differentialoperators as D

from symtorch import term as T
from symtorch.explore import EngineGap, Infeasible, Unwound
from symtorch.harness import Case

META = dict(
    level="model_checking",
    bounds="programs: per output component any subset of the monomial basis, symbolic coefficients, symbolic evaluation points. "
           "quick: 1-2 variables of dimension <=2, degree<=2, batch (2,): ALL 63 non-empty monomial subsets for two scalar variables "
           "(x,t) - built from separate leaf tensors and, again all 63, from the concatenated input the library's conditions use - "
           "and for x in R^2; representative subsets for (x in R^2, t), for vector/matrix valued outputs (jac, div, rot, convective, "
           "sym_grad, matrix_div) and for the structure variants pow-built monomials / trainable (requires_grad) coefficients / "
           "float64 inputs; every choice and order of derivative variables, partial() up to order 3, laplacian(grad=...) reuse. "
           "thorough: degree<=3 (all 1023 subsets for (x,t)), 3 variables, sin/exp/tanh of linear forms, batch shapes (3,), (2,2)",
    outside=["rounding error (tensor elements are reals); for the 'either float precision' clause only the result dtype is compared",
             "non-polynomial programs other than sin/exp/tanh of linear forms", "degree > 3, more than 3 variables, dimension > 3",
             "second batch axes for jac/rot/convective/sym_grad/matrix_div (they index [:, i])",
             "partial() of order >= 2 with a vector-valued variable in a non-final position (no analytic meaning stated)",
             "the same variable passed twice in one call, non-leaf derivative variables"],
    assumptions=["derivative variables are leaf tensors with requires_grad=True",
                 "equality goals are exact over the reals; value_gap goals (|result - closed form| <= 1/64) are implied by them and "
                 "only serve to obtain replayable counterexamples"],
)

# ----------------------------------------------------------------------------------------------
# polynomial algebra of the oracle:  poly = {monomial: int},  monomial = sorted tuple of (symbol, power)
# symbols: ("c",k) coefficient, ("z",j) flat coordinate, ("n",j)/("v",j) per-row extra inputs,
#          ("S",a) ("C",a) ("E",a) ("H",a) = sin/cos/exp/tanh of the linear form of atom a
# ----------------------------------------------------------------------------------------------


def p_sym(s):
    return {((s, 1),): 1}


def p_const(k):
    return {(): k} if k else {}


def p_add(a, b, sb=1):
    out = dict(a)
    for m, k in b.items():
        v = out.get(m, 0) + sb * k
        if v:
            out[m] = v
        else:
            out.pop(m, None)
    return out


def _mono_mul(m1, m2):
    d = dict(m1)
    for s, p in m2:
        d[s] = d.get(s, 0) + p
    return tuple(sorted(d.items()))


def p_mul(a, b):
    out = {}
    for m1, k1 in a.items():
        for m2, k2 in b.items():
            m = _mono_mul(m1, m2)
            v = out.get(m, 0) + k1 * k2
            if v:
                out[m] = v
            else:
                out.pop(m, None)
    return out


def p_diff(p, j, atoms):
    """d/dz_j"""
    out = {}
    for mono, k in p.items():
        for idx, (sym, pw) in enumerate(mono):
            if sym == ("z", j):
                d = {(): 1}
            elif sym[0] in ("S", "C", "E", "H"):
                a = atoms[sym[1]]
                if j not in a["lin"]:
                    continue
                if sym[0] == "S":
                    d = p_sym(("C", sym[1]))
                elif sym[0] == "C":
                    d = {((("S", sym[1]), 1),): -1}
                elif sym[0] == "E":
                    d = p_sym(("E", sym[1]))
                else:
                    d = p_add(p_const(1), p_mul(p_sym(("H", sym[1])), p_sym(("H", sym[1]))), -1)
                d = p_mul(d, p_sym(("c", a["lin"][j])))
            else:
                continue
            rest = mono[:idx] + (((sym, pw - 1),) if pw > 1 else ()) + mono[idx + 1:]
            out = p_add(out, p_mul({rest: k * pw}, d))
    return out


def p_eval(p, val):
    tot = 0
    for mono, k in p.items():
        t = k
        for sym, pw in mono:
            v = val(sym)
            for _ in range(pw):
                t = t * v
        tot = tot + t
    return tot


# ----------------------------------------------------------------------------------------------
# programs
# ----------------------------------------------------------------------------------------------

_FN = {"sin": "S", "exp": "E", "tanh": "H"}


class Prog:
    """vars: [(name, dim)];  comps: list of components, each a list of terms (exps tuple | ('atom', a));
    atoms: [(kind, [flat coordinate indices of the linear form])];  mat=(m, n) for matrix-valued output"""

    def __init__(self, vars_, comps, atoms=(), mat=None):
        self.vars = list(vars_)
        self.coords = [(vi, k) for vi, (_, d) in enumerate(self.vars) for k in range(d)]
        self.cname = [(n if d == 1 else "%s%d" % (n, k)) for (n, d) in self.vars for k in range(d)]
        self.vcoords = {}
        j = 0
        for n, d in self.vars:
            self.vcoords[n] = list(range(j, j + d))
            j += d
        self.dim = dict(self.vars)
        K = 0
        self.atoms = []
        for kind, js in atoms:
            lin = {}
            for jj in js:
                lin[jj] = K
                K += 1
            self.atoms.append(dict(kind=kind, lin=lin, bias=K))
            K += 1
        self.comps = []
        for comp in comps:
            terms = []
            for t in comp:
                if t[0] == "atom":
                    terms.append((K, None, t[1]))
                else:
                    terms.append((K, tuple(t), None))
                K += 1
            self.comps.append(terms)
        self.K = K
        self.mat = mat
        self.m = len(self.comps)

    # ---- labels ------------------------------------------------------
    def mono_label(self, exps):
        s = "".join(self.cname[j] * e for j, e in enumerate(exps))
        return s or "1"

    def comp_label(self, terms):
        out = []
        monos = [e for _, e, a in terms if a is None]
        if len(monos) == len(terms) and len(monos) > 3:
            for deg in (2, 3):
                if monos == basis(len(self.coords), deg):
                    return "P%d" % deg
        for _, exps, a in terms:
            if a is None:
                out.append(self.mono_label(exps))
            else:
                at = self.atoms[a]
                out.append("%s_%s" % (at["kind"], "".join(self.cname[j] for j in sorted(at["lin"]))))
        return ",".join(out)

    def label(self):
        return ";".join(self.comp_label(c) for c in self.comps)

    # ---- oracle side -------------------------------------------------
    def poly(self, i):
        p = {}
        for k, exps, a in self.comps[i]:
            t = p_sym(("c", k))
            if a is None:
                for j, e in enumerate(exps):
                    if e:
                        t = p_mul(t, {((("z", j), e),): 1})
            else:
                t = p_mul(t, p_sym((_FN[self.atoms[a]["kind"]], a)))
            p = p_add(p, t)
        return p

    def d(self, p, *js):
        for j in js:
            p = p_diff(p, j, self.atoms)
        return p

    # ---- torch side (runs symbolically and in replay) ------------------
    def _coords(self, pts, joined=False):
        if joined:
            # the library's own calling convention: the model sees ONE tensor, the concatenation of all variables
            z = torch.cat([pts[n] for n, _ in self.vars], dim=-1) if len(self.vars) > 1 else pts[self.vars[0][0]] * 1
            return [z[..., j:j + 1] for j in range(len(self.coords))]
        Z = []
        for n, d in self.vars:
            x = pts[n]
            if d == 1:
                Z.append(x)
            else:
                for k in range(d):
                    Z.append(x[..., k:k + 1])
        return Z

    def _lin(self, a, Z, c):
        at = self.atoms[a]
        l = None
        for j, k in sorted(at["lin"].items()):
            t = c[k] * Z[j]
            l = t if l is None else l + t
        return l + c[at["bias"]]

    def build(self, pts, c, style="mul"):
        Z = self._coords(pts, joined=(style == "cat"))
        ones = torch.ones_like(Z[0].detach())
        comps = []
        for terms in self.comps:
            tot = None
            for k, exps, a in terms:
                t = c[k]
                if a is None:
                    for j, e in enumerate(exps):
                        if not e:
                            continue
                        if style == "pow" and e > 1:
                            t = t * Z[j] ** e
                        else:
                            for _ in range(e):
                                t = t * Z[j]
                else:
                    f = getattr(torch, self.atoms[a]["kind"])
                    t = t * f(self._lin(a, Z, c))
                if t.dim() == 0:
                    t = t * ones
                tot = t if tot is None else tot + t
            comps.append(tot)
        if self.mat is not None:
            m, n = self.mat
            rows = [torch.cat(comps[i * n:(i + 1) * n], dim=-1) for i in range(m)]
            return torch.stack(rows, dim=1)
        if len(comps) == 1:
            return comps[0]
        return torch.cat(comps, dim=-1)

    def atom_values(self, pts, c):
        """forward values sin/cos/exp/tanh of the linear forms (no autograd): inputs of the closed forms"""
        Z = [z.detach() for z in self._coords(pts)]
        cd = c.detach()
        out = []
        for a, at in enumerate(self.atoms):
            l = self._lin(a, Z, cd)
            if at["kind"] == "sin":
                out.append(dict(S=torch.sin(l), C=torch.cos(l)))
            elif at["kind"] == "exp":
                out.append(dict(E=torch.exp(l)))
            else:
                out.append(dict(H=torch.tanh(l)))
        return out


# ----------------------------------------------------------------------------------------------
# operator calls: how to run, what to expect
# ----------------------------------------------------------------------------------------------


class Call:
    """one operator invocation: label, run(u, pts, ex) -> tensor, cells (nested list of polys, the per-row value),
    probes (polys of all derivatives the operator has to form: a structurally zero one = 'constant or linear' clause)"""

    def __init__(self, label, run, cells, probes, extras=()):
        self.label = label
        self.run = run
        self.cells = cells
        self.probes = probes
        self.extras = tuple(extras)  # (name, width)
        arr = np.empty(_shape_of(cells), dtype=object)
        for idx in np.ndindex(*arr.shape):
            arr[idx] = _at(cells, idx)
        self.suffix = tuple(arr.shape)
        zero = [o for o, p in probes if not p]
        self.vanish_order = min(zero) if zero else 0


def _shape_of(x):
    if isinstance(x, list):
        return (len(x),) + _shape_of(x[0])
    return ()


def _at(x, idx):
    for i in idx:
        x = x[i]
    return x


def _js(prog, order):
    return [j for v in order for j in prog.vcoords[v]]


def _o1(polys):
    return [(1, p) for p in polys]


def _vl(order):
    return ",".join(order)


def c_grad(prog, order):
    js = _js(prog, order)
    u = prog.poly(0)
    cells = [prog.d(u, j) for j in js]
    return Call("grad(%s)" % _vl(order), lambda u_, pts, ex: D.grad(u_, *[pts[v] for v in order]), cells, _o1(cells))


def c_normal(prog, order):
    js = _js(prog, order)
    u = prog.poly(0)
    g = [prog.d(u, j) for j in js]
    tot = {}
    for k, p in enumerate(g):
        tot = p_add(tot, p_mul(p, p_sym(("n", k))))
    return Call("normal_derivative(%s)" % _vl(order),
                lambda u_, pts, ex: D.normal_derivative(u_, ex["n"], *[pts[v] for v in order]), [tot], _o1(g),
                extras=[("n", len(js))])


def c_laplacian(prog, order, reuse=False):
    js = _js(prog, order)
    u = prog.poly(0)
    tot, probes = {}, []
    for j in js:
        probes.append((1, prog.d(u, j)))
        probes.append((2, prog.d(u, j, j)))
        tot = p_add(tot, prog.d(u, j, j))
    if reuse:
        def run(u_, pts, ex):
            g = D.grad(u_, *[pts[v] for v in order])
            return D.laplacian(u_, *[pts[v] for v in order], grad=g)
        return Call("laplacian(%s;grad=grad(%s))" % (_vl(order), _vl(order)), run, [tot], probes)
    return Call("laplacian(%s)" % _vl(order), lambda u_, pts, ex: D.laplacian(u_, *[pts[v] for v in order]), [tot], probes)


def c_partial(prog, order):
    """all variables but the last one must be scalar (mixed partial in the given order; the last one may be a vector:
    gradient of the mixed partial)"""
    u = prog.poly(0)
    probes = []
    for v in order[:-1]:
        (j,) = prog.vcoords[v]
        u = prog.d(u, j)
        probes.append((len(probes) + 1, u))
    cells = [prog.d(u, j) for j in prog.vcoords[order[-1]]]
    return Call("partial(%s)" % _vl(order), lambda u_, pts, ex: D.partial(u_, *[pts[v] for v in order]), cells,
                probes + [(len(order), p) for p in cells])


def _jac_polys(prog, order):
    js = _js(prog, order)
    return [[prog.d(prog.poly(i), j) for j in js] for i in range(prog.m)]


def c_jac(prog, order):
    J = _jac_polys(prog, order)
    return Call("jac(%s)" % _vl(order), lambda u_, pts, ex: D.jac(u_, *[pts[v] for v in order]), J, _o1(p for r in J for p in r))


def c_div(prog, order):
    js = _js(prog, order)
    probes = [prog.d(prog.poly(i), j) for i, j in enumerate(js)]
    tot = {}
    for p in probes:
        tot = p_add(tot, p)
    return Call("div(%s)" % _vl(order), lambda u_, pts, ex: D.div(u_, *[pts[v] for v in order]), [tot], _o1(probes))


def c_rot(prog, order):
    J = _jac_polys(prog, order)
    cells = [p_add(J[2][1], J[1][2], -1), p_add(J[0][2], J[2][0], -1), p_add(J[1][0], J[0][1], -1)]
    return Call("rot(%s)" % _vl(order), lambda u_, pts, ex: D.rot(u_, *[pts[v] for v in order]), cells, _o1(p for r in J for p in r))


def c_convective(prog, order):
    J = _jac_polys(prog, order)
    cells = []
    for r in J:
        tot = {}
        for k, p in enumerate(r):
            tot = p_add(tot, p_mul(p, p_sym(("v", k))))
        cells.append(tot)
    return Call("convective(%s)" % _vl(order), lambda u_, pts, ex: D.convective(u_, ex["v"], *[pts[v] for v in order]), cells,
                _o1(p for r in J for p in r), extras=[("v", len(J[0]))])


def c_sym_grad(prog, order):
    J = _jac_polys(prog, order)
    n = len(J)
    # cells hold TWICE the symmetric gradient (integer coefficients); the goal compares 2*result
    cells = [[p_add(J[i][k], J[k][i]) for k in range(n)] for i in range(n)]
    c = Call("sym_grad(%s)" % _vl(order), lambda u_, pts, ex: D.sym_grad(u_, *[pts[v] for v in order]), cells,
             _o1(p for r in J for p in r))
    c.scale = 2
    return c


def c_matrix_div(prog, order):
    js = _js(prog, order)
    m, n = prog.mat
    cells, probes = [], []
    for i in range(m):
        tot = {}
        for k, j in enumerate(js):
            p = prog.d(prog.poly(i * n + k), j)
            probes.append(p)
            tot = p_add(tot, p)
        cells.append(tot)
    return Call("matrix_div(%s)" % _vl(order), lambda u_, pts, ex: D.matrix_div(u_, *[pts[v] for v in order]), cells,
                _o1(probes))


# ----------------------------------------------------------------------------------------------
# the case
# ----------------------------------------------------------------------------------------------


GAP = 1.0 / 64  # solver: |got-want| <= GAP; replay judges the solver's witness (|got-want| > GAP) against GAP/2


def _exc_tag(e):
    s = str(e)
    if "appears to not have been used in the graph" in s:
        return "unused_in_graph"
    if "does not require grad and does not have a grad_fn" in s:
        return "no_grad_fn"
    return type(e).__name__


def _run_call(prog, call, pts, c, ex, style):
    try:
        u = prog.build(pts, c, style)
        r = call.run(u, pts, ex)
        return dict(ok=True, val=r, shape=list(r.shape), dtype=str(r.dtype))
    except (EngineGap, Unwound, Infeasible):
        raise
    except Exception as e:  # the operator under test raised: an observable
        return dict(ok=False, tag=_exc_tag(e), msg=str(e)[:200])


def _run_call_history(prog, call, pts, c, ex, style):
    """the SAME output tensor is handed to the operator three times: twice unchanged (the operator must not write into its
    argument and must answer the same) and once after an in-place, differentiable update u *= 2 (twice the derivative)"""
    try:
        u = prog.build(pts, c, style)
        before = u.detach().clone()
        r1 = call.run(u, pts, ex)
        after = u.detach().clone()
        r2 = call.run(u, pts, ex)
        u.mul_(2)
        r3 = call.run(u, pts, ex)
        return dict(ok=True, val=r1, shape=list(r1.shape), dtype=str(r1.dtype), val2=r2, val3=r3, u_before=before, u_after=after,
                    shapes_ok=list(r2.shape) == list(r1.shape) == list(r3.shape))
    except (EngineGap, Unwound, Infeasible):
        raise
    except Exception as e:
        return dict(ok=False, tag=_exc_tag(e), msg=str(e)[:200])


def make_case(op, space, prog, calls, batch=(2,), style="mul", trainable=False, f64=False, history=False):
    variant = ("traincat" if style == "cat" else "train") if trainable else ("f64" if f64 else style)
    name = "%s/%s/%s/%s/b%s%s" % (op, space, variant, prog.label(), "x".join(str(b) for b in batch), "/same_output_three_times" if history else "")
    rows = list(np.ndindex(*batch))
    extras = {}
    for cl in calls:
        for n, w in cl.extras:
            extras[n] = max(extras.get(n, 0), w)

    def body(env):
        dt = torch.float64 if f64 else None
        restore = None
        if f64 and not env.symbolic:
            # replay: the caller's default dtype is float32 (as in the symbolic run), the inputs are float64
            restore = torch.get_default_dtype()
            torch.set_default_dtype(torch.float32)
        try:
            c = env.tensor("c", (prog.K,), dtype=dt, requires_grad=trainable)
            pts = {n: env.tensor("p_" + n, tuple(batch) + (d,), dtype=dt, requires_grad=True) for n, d in prog.vars}
            ex = {n: env.tensor(n, tuple(batch) + (w,), dtype=dt) for n, w in extras.items()}
            out = {}
            for cl in calls:
                exc = {n: ex[n][..., :w] if w != extras[n] else ex[n] for n, w in cl.extras}
                r = (_run_call_history if history else _run_call)(prog, cl, pts, c, exc, style)
                if r["ok"] and not env.symbolic and not history:
                    # numeric row-independence probe: move every OTHER row of every per-row input, row i must not change
                    pert = []
                    for i, row in enumerate(rows):
                        mask = torch.ones(tuple(batch) + (1,), dtype=torch.float64)
                        mask[row] = 0.0
                        pts2 = {n: (p.detach() + 0.75 * mask).requires_grad_(True) for n, p in pts.items()}
                        exc2 = {n: e.detach() - 1.25 * mask for n, e in exc.items()}
                        r2 = _run_call(prog, cl, pts2, c, exc2, style)
                        pert.append(r2["val"][row] if r2["ok"] and r2["shape"] == r["shape"] else None)
                    r["pert"] = pert
                out[cl.label] = r
            return dict(calls=out, c=c.detach(), pts={n: p.detach() for n, p in pts.items()}, ex=ex,
                        atoms=prog.atom_values(pts, c))
        finally:
            if restore is not None:
                torch.set_default_dtype(restore)

    def goals(o, L, env):
        own = None
        if L.symbolic:
            own = {}
            for row in rows:
                sfx = "".join("_%d" % i for i in row) + "_"
                own[row] = tuple(["p_%s%s" % (n, sfx) for n, _ in prog.vars] + ["%s%s" % (n, sfx) for n in extras])
            perrow = tuple(["p_%s_" % n for n, _ in prog.vars] + ["%s_" % n for n in extras])
        for cl in calls:
            r = o["calls"][cl.label]
            if not r["ok"]:
                # which clause: the function does not depend on a derivative variable at all (first derivative is
                # structurally zero) / it is at most linear in it (a higher derivative is structurally zero) / neither
                fam = {0: "no_exception", 1: "no_exception_first_derivative_zero"}.get(cl.vanish_order,
                                                                                      "no_exception_higher_derivative_zero")
                yield "%s[%s|%s]" % (fam, cl.label, r["tag"]), False
                continue
            want_shape = list(batch) + list(cl.suffix)
            yield "shape[%s]" % cl.label, r["shape"] == want_shape
            if f64:
                yield "dtype_preserved[%s]" % cl.label, r["dtype"] == "torch.float64"
            if r["shape"] != want_shape:
                continue
            scale = getattr(cl, "scale", 1)
            if history:
                yield "shapes_of_later_calls[%s]" % cl.label, bool(r["shapes_ok"])
                fb, fa = list(_flat_vals(r["u_before"])), list(_flat_vals(r["u_after"]))
                yield "operator_leaves_its_argument_unchanged[%s]" % cl.label, len(fb) == len(fa) and L.And(*[L.eq(a, b) for a, b in zip(fa, fb)])
                if not r["shapes_ok"]:
                    continue
            for ri, row in enumerate(rows):
                def val(sym, row=row):
                    k, a = sym
                    if k == "c":
                        return o["c"][a]
                    if k == "z":
                        vi, comp = prog.coords[a]
                        return _at(o["pts"][prog.vars[vi][0]], row)[comp]
                    if k in ("n", "v"):
                        return _at(o["ex"][k], row)[a]
                    return _at(o["atoms"][a][k], row)[0]

                got_row = _at(r["val"], row)
                terms, far = [], []
                for idx in np.ndindex(*cl.suffix):
                    got = _at(got_row, idx)
                    terms.append(got)
                    want = p_eval(_at(cl.cells, idx), val)
                    g_ = scale * got if scale != 1 else got
                    yield "value[%s,row%s,%s]" % (cl.label, _idx(row), _idx(idx)), L.eq(g_, want)
                    far.append(L.eq(g_, want, GAP if L.symbolic else GAP / 2))
                    if history:
                        g2, g3 = _at(_at(r["val2"], row), idx), _at(_at(r["val3"], row), idx)
                        yield "second_call_on_same_output[%s,row%s,%s]" % (cl.label, _idx(row), _idx(idx)), L.eq(scale * g2 if scale != 1 else g2, want, GAP if L.symbolic else GAP / 2)
                        yield "after_inplace_doubling[%s,row%s,%s]" % (cl.label, _idx(row), _idx(idx)), L.eq(scale * g3 if scale != 1 else g3, 2 * want, GAP if L.symbolic else GAP / 2)
                if history:
                    continue
                # the same claim with a margin: implied by the exact cells above, but a counterexample of THIS goal is a
                # robust witness (z3 answers the exact disequality with differences of 1e-18, which no float replay can show)
                yield "value_gap[%s,row%s]" % (cl.label, _idx(row)), L.And(*far)
                if L.symbolic:
                    yield "row_independent[%s,row%s]" % (cl.label, _idx(row)), _row_indep_sym(terms, own[row], perrow, env)
                else:
                    p = r["pert"][ri]
                    ok = p is not None
                    if ok:
                        for idx in np.ndindex(*cl.suffix):
                            ok = ok and L.eq(_at(p, idx), _at(got_row, idx))
                    yield "row_independent[%s,row%s]" % (cl.label, _idx(row)), bool(ok)

    return Case(name, body, goals, family="%s/%s/%s" % (op, space, variant),
                params=dict(op=op, space=space, template=prog.label(), batch=list(batch), style=style, trainable=trainable,
                            f64=f64, calls=[c.label for c in calls]))


def _flat_vals(x):
    if isinstance(x, (list, tuple)):
        for y in x:
            yield from _flat_vals(y)
    else:
        yield x


def _idx(t):
    return ".".join(str(i) for i in t)


def _closure_vars(term, env):
    """free symbols of a term, looking through defined symbols (sin!k, cos!k, quot!k ... stand for functions of
    their argument terms)"""
    defsym = env.ctx.defsym
    acc, todo, done = {}, [term], set()
    while todo:
        t = todo.pop()
        if not T.is_sym(t):
            continue
        fv = T.free_vars(t)
        for n, v in fv.items():
            if n in done:
                continue
            done.add(n)
            d = defsym.get(v.get_id())
            if d is None:
                acc[n] = v
            else:
                todo.extend(x for x in d[1:] if T.is_sym(x))
    return acc


def _row_indep_sym(terms, own_prefixes, perrow_prefixes, env):
    """2-safety by renaming: row i's result terms must not change when the per-row inputs of the other rows are renamed.
    Syntactic independence (no foreign symbol at all) settles it; otherwise z3 decides the renamed equality."""
    foreign = {}
    for t in terms:
        for n, v in _closure_vars(t, env).items():
            if n.startswith(perrow_prefixes) and not n.startswith(own_prefixes):
                foreign[n] = v
    if not foreign:
        return True
    sub = [(v, z3.Real("alt!" + n)) for n, v in sorted(foreign.items())]
    eqs = []
    for t in terms:
        if T.is_sym(t):
            eqs.append(t == z3.substitute(t, *sub))
    return z3.And(*eqs) if len(eqs) > 1 else (eqs[0] if eqs else True)


# ----------------------------------------------------------------------------------------------
# families
# ----------------------------------------------------------------------------------------------

SPACES = {
    "x1": [("x", 1)],
    "x1t1": [("x", 1), ("t", 1)],
    "x2": [("x", 2)],
    "x2t1": [("x", 2), ("t", 1)],
    "x3": [("x", 3)],
    "x2z1": [("x", 2), ("z", 1)],
    "x1y1z1": [("x", 1), ("y", 1), ("z", 1)],
    "t1p2s1": [("t", 1), ("p", 2), ("s", 1)],
}


def ncoords(space):
    return sum(d for _, d in SPACES[space])


def basis(n, deg):
    out = []
    for total in range(deg + 1):
        for e in itertools.product(range(total + 1), repeat=n):
            if sum(e) == total:
                out.append(e)
    out.sort(key=lambda e: (sum(e), tuple(-x for x in e)))
    return out


def subsets(items, max_size=None):
    n = len(items)
    for r in range(1, (max_size or n) + 1):
        for s in itertools.combinations(items, r):
            yield list(s)


def orders(names, max_len=None):
    """every non-empty choice and order of distinct variables"""
    out = []
    for r in range(1, (max_len or len(names)) + 1):
        out += [list(p) for p in itertools.permutations(names, r)]
    return out


def scalar_calls(op, prog, partial_len=3, reuse=True):
    names = [n for n, _ in prog.vars]
    scal = [n for n, d in prog.vars if d == 1]
    if op == "grad":
        return [c_grad(prog, o) for o in orders(names)]
    if op == "normal_derivative":
        return [c_normal(prog, o) for o in orders(names)]
    if op == "laplacian":
        cs = [c_laplacian(prog, o) for o in orders(names)]
        if reuse:
            cs.append(c_laplacian(prog, [names[0]], reuse=True))
            if len(names) > 1:  # with several variables the passed gradient must be ignored (it is recomputed per variable)
                cs.append(c_laplacian(prog, names, reuse=True))
        return cs
    if op == "partial":
        cs = []
        for r in range(1, partial_len + 1):
            for head in itertools.product(scal, repeat=r - 1):
                for last in names:
                    cs.append(c_partial(prog, list(head) + [last]))
        return cs
    raise ValueError(op)


SCALAR_OPS = ("grad", "normal_derivative", "laplacian", "partial")


def scalar_family(space, templates, batch=(2,), ops=SCALAR_OPS, style="mul", trainable=False, f64=False, partial_len=3,
                  atoms=(), history=False):
    cs = []
    seen = set()
    for tpl in templates:
        if tuple(tpl) in seen:
            continue
        seen.add(tuple(tpl))
        for op in ops:
            prog = Prog(SPACES[space], [tpl], atoms=atoms)
            cs.append(make_case(op, space, prog, scalar_calls(op, prog, partial_len), batch, style, trainable, f64, history=history))
    return cs


def pool(space, deg=2):
    n = ncoords(space)

    def e(*pairs):
        v = [0] * n
        for j, p in pairs:
            v[j] += p
        return tuple(v)

    last = n - 1
    P = {
        "const": [e()],
        "lin0": [e((0, 1))],
        "linL": [e((last, 1))],
        "bil": [e((0, 1), (last, 1))],
        "sq0": [e((0, 2))],
        "mixed": [e((0, 2)), e((last, 1))],
        "full": basis(n, 2),
    }
    if deg >= 3:
        P["cub"] = [e((0, 2), (last, 1)), e((last, 3))]
        P["full3"] = basis(n, 3)
    return P


VEC2 = [("full", "full"), ("const", "lin0"), ("lin0", "linL"), ("bil", "mixed"), ("sq0", "sq0"), ("const", "const"),
        ("linL", "bil"), ("sq0", "const")]
VEC3 = [("full", "full", "full"), ("const", "lin0", "linL"), ("bil", "mixed", "sq0"), ("linL", "sq0", "bil"),
        ("sq0", "sq0", "sq0"), ("const", "const", "const")]
MAT22 = [("full", "full", "full", "full"), ("const", "lin0", "linL", "bil"), ("bil", "mixed", "sq0", "const"),
         ("sq0", "sq0", "sq0", "sq0")]
MAT23 = [("full", "bil", "linL", "sq0", "mixed", "const"), ("sq0", "sq0", "sq0", "sq0", "sq0", "sq0")]


def vector_case(op, space, keys, batch=(2,), style="mul", deg=2, f64=False, trainable=False, atoms=(), extra_terms=None, history=False):
    P = pool(space, deg)
    comps = [list(P[k]) for k in keys]
    if extra_terms:
        for i, t in extra_terms:
            comps[i] = comps[i] + [t]
    n = ncoords(space)
    names = [v for v, _ in SPACES[space]]
    perms = [list(p) for p in itertools.permutations(names)]
    if op == "matrix_div":
        prog = Prog(SPACES[space], comps, atoms=atoms, mat=(len(comps) // n, n))
        calls = [c_matrix_div(prog, o) for o in perms]
    else:
        prog = Prog(SPACES[space], comps, atoms=atoms)
        if op == "jac":
            calls = [c_jac(prog, o) for o in orders(names)]
        elif op == "convective":
            calls = [c_convective(prog, o) for o in orders(names)]
        elif op == "div":
            calls = [c_div(prog, o) for o in perms]
        elif op == "rot":
            calls = [c_rot(prog, o) for o in perms]
        elif op == "sym_grad":
            calls = [c_sym_grad(prog, o) for o in perms]
        else:
            raise ValueError(op)
    return make_case(op, space, prog, calls, batch, style, trainable, f64, history=history)


def vector_family(tier):
    cs = []
    deg = 3 if tier == "thorough" else 2
    v2 = VEC2 + ([("cub", "full3"), ("full3", "cub")] if deg >= 3 else [])
    v3 = VEC3 + ([("cub", "full3", "bil"), ("linL", "cub", "cub")] if deg >= 3 else [])
    for space in ("x2", "x1t1"):
        for keys in v2:
            for op in ("jac", "div", "convective", "sym_grad"):
                cs.append(vector_case(op, space, keys, deg=deg))
        for keys in MAT22:
            cs.append(vector_case("matrix_div", space, keys, deg=deg))
    # a scalar field / a 3-vector over two coordinates: jac and convective accept any output width
    for space in ("x2", "x1t1"):
        for keys in [("full",), ("bil",), ("full", "bil", "sq0")]:
            for op in ("jac", "convective"):
                cs.append(vector_case(op, space, keys, deg=deg))
    rot_spaces = ("x3", "x2z1") + (("x1y1z1",) if tier == "thorough" else ())
    for space in rot_spaces:
        for keys in v3:
            cs.append(vector_case("rot", space, keys, deg=deg))
    if tier != "thorough":
        # quick tier: a few cases with a second batch axis / batch 3 for the operators that accept them
        for space, keys in [("x2", VEC2[0]), ("x1t1", VEC2[3])]:
            cs.append(vector_case("div", space, keys, batch=(2, 2), deg=2))
        cs.append(vector_case("div", "x1t1", VEC2[1], batch=(3,), deg=2))
        # three (and more) separately passed derivative variables, also of unequal dimension: column offsets of jac
        cs.append(vector_case("rot", "x1y1z1", VEC3[2], deg=2))
        cs.append(vector_case("jac", "x1y1z1", VEC3[3], deg=2))
        cs.append(vector_case("jac", "t1p2s1", ("full", "bil"), deg=2))
        cs.append(vector_case("convective", "x1y1z1", VEC3[0], deg=2))
    if tier == "thorough":
        for keys in [("full", "bil"), ("sq0", "mixed", "linL")]:
            for op in ("jac", "convective"):
                cs.append(vector_case(op, "t1p2s1", keys, deg=deg))
        for space in ("x3", "x2z1", "x1y1z1"):
            for keys in v3:
                for op in ("jac", "div", "convective", "sym_grad"):
                    cs.append(vector_case(op, space, keys, deg=deg))
            for keys in MAT23:
                cs.append(vector_case("matrix_div", space, keys, deg=deg))
        # batch 3
        for op, space, keys in [("jac", "x2", VEC2[0]), ("div", "x1t1", VEC2[3]), ("convective", "x2", VEC2[3]),
                                ("sym_grad", "x1t1", VEC2[0]), ("matrix_div", "x2", MAT22[1]), ("rot", "x3", VEC3[2])]:
            cs.append(vector_case(op, space, keys, batch=(3,), deg=2))
        # div accepts further batch axes
        for space, keys in [("x2", VEC2[0]), ("x1t1", VEC2[3]), ("x1t1", VEC2[1])]:
            cs.append(vector_case("div", space, keys, batch=(2, 2), deg=2))
        # transcendental components
        for space in ("x2", "x1t1"):
            at = [("sin", [0, 1]), ("exp", [0]), ("tanh", [1])]
            for keys, extra in [(("bil", "lin0"), [(0, ("atom", 0)), (1, ("atom", 1))]),
                                (("const", "sq0"), [(0, ("atom", 2)), (1, ("atom", 0))]),
                                (("linL", "linL"), [(0, ("atom", 1))])]:
                for op in ("jac", "div", "convective", "sym_grad"):
                    cs.append(vector_case(op, space, keys, atoms=at, extra_terms=extra))
        for keys, extra in [(("bil", "lin0", "sq0"), [(0, ("atom", 0)), (2, ("atom", 1))])]:
            cs.append(vector_case("rot", "x3", keys, atoms=[("sin", [0, 1, 2]), ("exp", [1])], extra_terms=extra))
    # pow-built monomials, trainable coefficients, float64 inputs
    for op in ("jac", "div", "convective", "sym_grad"):
        cs.append(vector_case(op, "x2", ("full", "sq0"), style="pow", deg=deg))
        cs.append(vector_case(op, "x1t1", ("lin0", "linL"), trainable=True))
        cs.append(vector_case(op, "x2", ("full", "full"), f64=True))
    cs.append(vector_case("matrix_div", "x2", MAT22[0], f64=True))
    cs.append(vector_case("matrix_div", "x1t1", MAT22[1], trainable=True))
    cs.append(vector_case("rot", "x3", VEC3[0], f64=True))
    cs.append(vector_case("rot", "x3", VEC3[1], trainable=True))
    cs.append(vector_case("rot", "x2z1", VEC3[2], style="pow"))
    for op in ("jac", "div", "convective", "sym_grad"):
        for keys in (("sq0", "sq0"), ("bil", "mixed"), ("const", "lin0")):
            cs.append(vector_case(op, "x1t1", keys, style="cat"))
        cs.append(vector_case(op, "x1t1", ("lin0", "linL"), style="cat", trainable=True))
    cs.append(vector_case("matrix_div", "x1t1", MAT22[3], style="cat"))
    cs.append(vector_case("rot", "x2z1", VEC3[4], style="cat"))
    return cs


def _repr_subsets(n, deg, extra_pairs=True):
    """representative monomial subsets: every singleton, bilinear/square pairs, constant+linear, the full basis"""
    B = basis(n, deg)
    out = [[m] for m in B]
    lin = [m for m in B if sum(m) == 1]
    quad = [m for m in B if sum(m) == 2]
    out.append([B[0]] + lin)            # affine
    out.append(lin)                     # linear
    out.append(quad)
    out.append(B)                       # everything
    if extra_pairs:
        mixed = [m for m in quad if max(m) == 1]
        squares = [m for m in quad if max(m) == 2]
        for a in mixed:
            for b in squares:
                out.append([a, b])
        for a in mixed:
            for b in lin:
                out.append([a, b])
    seen, res = set(), []
    for s in out:
        k = tuple(s)
        if k not in seen and s:
            seen.add(k)
            res.append(s)
    return res


def cases(tier):
    thorough = tier == "thorough"
    cs = []
    # ---- two scalar variables: ALL subsets of the monomial basis ----------------------------------------
    B2 = basis(2, 2)
    cs += scalar_family("x1t1", list(subsets(B2)))
    # ---- one vector variable x in R^2: all subsets ------------------------------------------------------
    cs += scalar_family("x2", list(subsets(B2)))
    # ---- single scalar variable -----------------------------------------------------------------------
    cs += scalar_family("x1", list(subsets(basis(1, 3 if thorough else 2))))
    if not thorough:
        cs += scalar_family("x2", [[(1, 1)], B2], batch=(2, 2))
        cs += scalar_family("x1", [[(2,)], [(1,), (2,)]], batch=(3,))
    # ---- vector + scalar variable: representative subsets ---------------------------------------------
    cs += scalar_family("x2t1", _repr_subsets(3, 2, extra_pairs=thorough) if thorough else _repr_subsets(3, 2, False)[:10]
                        + [[(1, 0, 1)], [(1, 0, 1), (2, 0, 0)], [(0, 1, 1), (0, 0, 1)], [(1, 1, 0), (0, 0, 2)]])
    # ---- structure variants: pow-built monomials, trainable coefficients (nn.Module-like), float64 inputs ----
    sample = [[(1, 0)], [(1, 1)], [(2, 0)], [(0, 0), (1, 0), (0, 1)], [(2, 0), (1, 1)], B2]
    cs += scalar_family("x1t1", [[(2, 0)], [(2, 0), (1, 1)], [(0, 2), (1, 0)], B2], style="pow")
    cs += scalar_family("x2", [[(2, 0)], B2], style="pow")
    cs += scalar_family("x1t1", sample, trainable=True)
    # the library's own calling convention (PINN conditions): the function sees the concatenation of all variables
    cs += scalar_family("x1t1", list(subsets(B2)), style="cat")
    cs += scalar_family("x2t1", [[(1, 0, 0)], [(0, 0, 1)], [(1, 0, 1)], [(2, 0, 0), (0, 1, 1)], basis(3, 2)], style="cat")
    cs += scalar_family("x1t1", sample, style="cat", trainable=True)
    cs += scalar_family("x2", [[(1, 0)], [(1, 0), (0, 1)], [(2, 0), (0, 1)]], trainable=True)
    cs += scalar_family("x1t1", [B2], f64=True)
    cs += scalar_family("x2", [B2], f64=True)
    cs += vector_family(tier)
    # ---- history: the same output tensor handed to an operator repeatedly, and after an in-place update ----
    cs += scalar_family("x1t1", [B2, [(2, 0), (1, 1)]], history=True)
    cs += scalar_family("x2", [B2], history=True)
    for op, space, keys in (("jac", "x2", VEC2[0]), ("div", "x1t1", VEC2[3]), ("matrix_div", "x2", MAT22[0]), ("sym_grad", "x2", VEC2[1]),
                            ("convective", "x1t1", VEC2[0]), ("rot", "x3", VEC3[2])):
        cs.append(vector_case(op, space, keys, history=True))
    if thorough:
        cs += scalar_family("x1t1", [B2], history=True, style="cat")
        cs.append(vector_case("matrix_div", "x1t1", MAT22[1], history=True, trainable=True))
        cs.append(vector_case("jac", "x1y1z1", VEC3[3], history=True))
    if thorough:
        # degree 3: all 1023 subsets of the 10 monomials in (x, t); the degree-2 subsets are already above
        B3 = basis(2, 3)
        deg2 = set(B2)
        cs += scalar_family("x1t1", [s for s in subsets(B3) if not set(s) <= deg2], partial_len=3)
        cs += scalar_family("x2", [s for s in subsets(B3, 2) if not set(s) <= deg2] + [B3])
        cs += scalar_family("x1t1", [[(3, 0)], [(2, 1)], [(2, 1), (0, 3)], B3], style="pow")
        # three variables
        cs += scalar_family("x1y1z1", _repr_subsets(3, 2) + [[(1, 1, 1)], [(2, 1, 0)], [(1, 1, 1), (0, 0, 3)], basis(3, 3)])
        # further batch shapes
        for b in ((3,), (2, 2)):
            cs += scalar_family("x1t1", [[(1, 0)], [(1, 1)], [(2, 0), (0, 2)], B2, [(2, 1), (0, 3)]], batch=b)
            cs += scalar_family("x2", [[(1, 1)], B2], batch=b)
            cs += scalar_family("x2t1", [[(1, 0, 1), (0, 2, 0)], basis(3, 2)], batch=b)
        # sin / exp / tanh of linear forms (+ monomials)
        for kind in ("sin", "exp", "tanh"):
            for js in ([0], [1], [0, 1]):
                at = [(kind, js)]
                tpls = [[("atom", 0)], [("atom", 0), (1, 1)], [("atom", 0), (0, 1), (2, 0)]]
                cs += scalar_family("x1t1", tpls, atoms=at)
            cs += scalar_family("x2", [[("atom", 0)], [("atom", 0), (0, 2)]], atoms=[(kind, [0, 1])])
            cs += scalar_family("x2", [[("atom", 0), (0, 1)]], atoms=[(kind, [0])])
            cs += scalar_family("x2t1", [[("atom", 0), (0, 0, 1)]], atoms=[(kind, [0, 2])])
        cs += scalar_family("x1t1", [[("atom", 0), ("atom", 1), (1, 1)]], atoms=[("sin", [0]), ("exp", [1])])
        cs += scalar_family("x1t1", [[("atom", 0), ("atom", 1)]], atoms=[("tanh", [0, 1]), ("sin", [0, 1])], batch=(2, 2))
        # a one-neuron network on the concatenated input with trainable weights (the PINN calling convention), degree 3 via cat
        for kind in ("tanh", "sin"):
            cs += scalar_family("x1t1", [[("atom", 0)], [("atom", 0), (1, 0)]], atoms=[(kind, [0, 1])], style="cat", trainable=True)
        cs += scalar_family("x1t1", [[(2, 1)], [(3, 0), (1, 1)], B3], style="cat")
        cs += scalar_family("x2t1", [[(1, 0, 1), (0, 2, 0)], basis(3, 2)], style="cat", trainable=True)
    names = set()
    for c in cs:
        assert c.name not in names, c.name
        names.add(c.name)
    return cs
