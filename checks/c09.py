"""C09  DeepONet output is the branch-trunk inner product; the fast trunk path is equivalent.

The real `DeepONet`, `FCTrunkNet` (with `trunk_input_copied=True`: `TrunkLinear` / the custom
`autograd.Function` `layers.linear`; and `False`: `nn.Linear`), `FCBranchNet`, `BranchNet.fix_input`,
`CustomFunctionSet` are executed with every weight, every location, every sensor position and every
branch-input value a free real symbol.  Derivatives come from the repo's own `grad` / `laplacian`
(utils/differentialoperators.py) and from `torch.autograd.grad`, i.e. from the real autograd engine
running the real custom backward (double backward included); the ATen operators it emits are
evaluated on z3 terms.  Every claim is a per-cell z3 equality.

  inner/      out[i,j,c] == sum_m branch_i[c,m] * trunk_j[c,m], the features taken from separate
              single-function / single-location evaluations of the branch and trunk nets
  supply/     callable, 2-D/3-D tensor, 2-D/3-D Points, CustomFunctionSet (via forward, via
              fix_branch_input, via the training path _forward_branch) give the same output
  fastpath/   trunk_input_copied=True vs False with the same weights: outputs, d/dx, laplacian and
              the gradient w.r.t. every parameter of a loss with symbolic coefficients on the output,
              the gradient and the laplacian
  layer/      TrunkLinear stack vs nn.Linear stack (bias on/off, 3-D and 4-D copied input)
"""
from __future__ import annotations

import torch
import torch.nn as nn

import torchphysics as tp
from torchphysics.problem.spaces import Points, FunctionSpace
from torchphysics.problem.domains import CustomFunctionSet
from torchphysics.models.model import NormalizationLayer, Sequential
from torchphysics.models.deeponet.deeponet import DeepONet
from torchphysics.models.deeponet.trunknets import FCTrunkNet
from torchphysics.models.deeponet.branchnets import FCBranchNet
from torchphysics.models.deeponet.layers import TrunkLinear
from torchphysics.utils.differentialoperators import grad as tp_grad, laplacian as tp_laplacian

from symtorch.harness import Case
from symtorch import ops_c08 as _ops_c08  # noqa: F401  (extra kernels)
from .c08 import G, shape_of

META = dict(
    level="model_checking",
    bounds="FCTrunkNet (trunk_input_copied True/False) + FCBranchNet, trunk input dim 2 (one R2 variable or R1 x R1), "
           "hidden (2,) quick / (2,2) thorough, output dim 1 / 2 (neurons 2 per output component), 2 sensors, function output "
           "dim 1 (thorough also 2), 2 functions x 2 (quick) / 3 (thorough) locations; activations x^3, x^2 (polynomial) quick, "
           "tanh and sin thorough; trunk input given as (n_loc,d), as (n_fun,n_loc,d) copies, with the differentiated leaf the "
           "repeated coordinate tensor (as DeepONet conditions do) or the un-repeated locations; trunk optionally wrapped in "
           "Sequential(NormalizationLayer, trunk); TrunkLinear stacks with bias on/off and 3-D/4-D copied inputs; "
           "differentiation orders 0,1,2 w.r.t. inputs plus first order w.r.t. parameters on top of them; "
           "EVERY weight, location, sensor position, function parameter and loss coefficient a free real symbol",
    outside=["ConvBranchNet1D (convolution kernels are not in the engine's op table)", "differentiation orders > 2",
             "wider/deeper nets, more functions/locations (nothing in the code branches on sizes; an argument, not a verdict)",
             "trunk_input_copied=True used with trunk inputs that are NOT copies along the first axis (documented precondition)",
             "float rounding", "weight initialisers (values overwritten by free symbols)"],
    assumptions=["tanh is an uninterpreted function with tanh_backward(g,y)=g*(1-y^2); sin/cos are symbols with c^2+s^2=1 keyed "
                 "by their argument term", "kaiming_uniform_/xavier_normal_ are random stubs whose values the harness overwrites",
                 "violated equalities: counterexample search is helped by instantiating inputs (see C08); holds-verdicts are "
                 "proved without instantiation.  Polynomial identities are handed to z3 as simplify(lhs-rhs, som)==0"],
)


class Cube(nn.Module):
    def forward(self, x):
        return x * x * x


class Square(nn.Module):
    def forward(self, x):
        return x * x


class Twice(nn.Module):
    def forward(self, x):
        return x + x


ACTS = {"cube": Cube, "square": Square, "tanh": nn.Tanh, "sin": tp.models.Sinus,
        # one activation PER hidden layer (the documented list form): which layer gets which one matters
        "square+cube": lambda: [Square(), Cube()], "square+twice": lambda: [Square(), Twice()], "tanh+square": lambda: [nn.Tanh(), Square()]}

X2 = tp.spaces.R2("x")
XT = tp.spaces.R1("x") * tp.spaces.R1("t")
S1 = tp.spaces.R1("s")
P1 = tp.spaces.R1("p")
F1, F2 = tp.spaces.R1("f"), tp.spaces.R2("f")
U1, U2 = tp.spaces.R1("u"), tp.spaces.R2("u")


class Cfg:
    def __init__(self, act="cube", hidden=(2,), odim=1, nloc=2, nfun=2, space="x2", fdim=1, nsens=2, norm=False):
        self.act, self.hidden, self.odim, self.nloc, self.nfun = act, tuple(hidden), odim, nloc, nfun
        self.space, self.fdim, self.nsens, self.norm = space, fdim, nsens, norm

    @property
    def name(self):
        return "%s-h%s-o%d-l%d-%s%s%s" % (self.act, "x".join(map(str, self.hidden)), self.odim, self.nloc, self.space,
                                           "-f2" if self.fdim == 2 else "", "-norm" if self.norm else "")

    @property
    def X(self):
        return X2 if self.space == "x2" else XT

    @property
    def U(self):
        return U1 if self.odim == 1 else U2

    @property
    def F(self):
        return F1 if self.fdim == 1 else F2

    def params(self):
        return dict(act=self.act, hidden=list(self.hidden), odim=self.odim, nloc=self.nloc, nfun=self.nfun, space=self.space,
                    fdim=self.fdim, norm=self.norm)


def build(env, cfg, copied, wt, sens=None):
    """real DeepONet; the parameter called `n` gets the symbols wt[n] (created on first use), so a fast and a plain
    twin built with the same `wt` share their weights"""
    if sens is None:
        sens = env.tensor("sens", (cfg.nsens, 1))
    fs = FunctionSpace(tp.domains.Interval(S1, 0, 1), cfg.F)
    act = ACTS[cfg.act]
    trunk = FCTrunkNet(cfg.X, hidden=cfg.hidden, activations=act(), trunk_input_copied=copied)
    if cfg.norm:
        trunk = Sequential(NormalizationLayer(_box_domain(env, cfg)), trunk)
    branch = FCBranchNet(fs, tp.samplers.DataSampler(Points(sens, S1)), hidden=cfg.hidden, activations=act())
    net = DeepONet(trunk, branch, cfg.U, 2 * cfg.odim)
    for name, p in net.named_parameters():
        nm = "w_" + name.replace(".", "_")
        if nm not in wt:
            wt[nm] = env.tensor(nm, tuple(p.shape))
        with torch.no_grad():
            p.copy_(wt[nm])
    return net, fs


def _box_domain(env, cfg):
    """domain over cfg.X with concrete bounds (the NormalizationLayer weights are overwritten by symbols anyway)"""
    if cfg.space == "x2":
        return tp.domains.Parallelogram(X2, [0, 0], [2, 0], [0, 4])
    return tp.domains.Interval(tp.spaces.R1("x"), 0, 2) * tp.domains.Interval(tp.spaces.R1("t"), 1, 3)


# --------------------------------------------------------------------------
# (a) inner product of separately evaluated features
# --------------------------------------------------------------------------


def inner_case(cfg, copied, layout):
    """layout: '2d' trunk input (n_loc,d); '3d' copies (n_fun,n_loc,d); 'own' (plain net only) every function has its own
    locations"""
    cname = "inner/%s/%s/%s" % (cfg.name, "fast" if copied else "plain", layout)

    def body(env):
        net, _ = build(env, cfg, copied, {})
        d = cfg.X.dim
        fb = env.tensor("fb", (cfg.nfun, cfg.nsens, cfg.fdim))
        if layout == "own":
            x3 = env.tensor("x", (cfg.nfun, cfg.nloc, d))
            locs = [[x3[i, j:j + 1] for j in range(cfg.nloc)] for i in range(cfg.nfun)]
            tin = Points(x3, cfg.X)
        else:
            x = env.tensor("x", (cfg.nloc, d))
            locs = [[x[j:j + 1] for j in range(cfg.nloc)]] * cfg.nfun
            tin = Points(x, cfg.X) if layout == "2d" else Points(x, cfg.X).unsqueeze(0).repeat(cfg.nfun, 1, 1)
        out = net(tin, fb)
        # separate single-item evaluations
        bfeat = []
        for i in range(cfg.nfun):
            net.branch.fix_input(fb[i])
            bfeat.append(net.branch.current_out.clone())
        # (the fast trunk answers a (1,d) input with a (1,1,dim,m) tensor, the plain one with (1,dim,m): both are one
        # feature block of dim x m numbers)
        traw = [[net.trunk(Points(locs[i][j], cfg.X)) for j in range(cfg.nloc)] for i in range(cfg.nfun)]
        tfeat = [[t.reshape(1, cfg.odim, -1) for t in r] for r in traw]
        return dict(out=out, okeys=list(out.space.keys()), bfeat=bfeat, tfeat=tfeat, shape=list(out.as_tensor.shape),
                    bshape=[list(b.shape) for b in bfeat], tshape=[list(t.shape) for r in tfeat for t in r],
                    tnumel=[t.numel() for r in traw for t in r])

    def goals(o, L, env):
        g = G(L, env)
        m = 2
        yield "output_space", o["okeys"] == list(cfg.U.keys())
        yield "output_shape", o["shape"] == [cfg.nfun, cfg.nloc, cfg.odim]
        yield "branch_feature_shape", all(s == [1, cfg.odim, m] for s in o["bshape"])
        yield "trunk_feature_shape", all(s == [1, cfg.odim, m] for s in o["tshape"]) and all(n == cfg.odim * m for n in o["tnumel"])
        if o["shape"] != [cfg.nfun, cfg.nloc, cfg.odim]:
            return
        for i in range(cfg.nfun):
            for j in range(cfg.nloc):
                for c in range(cfg.odim):
                    want = 0
                    for k in range(m):
                        want = want + o["tfeat"][i][j][0][c][k] * o["bfeat"][i][0][c][k]
                    yield g.eq("inner_product[%d,%d,%d]" % (i, j, c), o["out"][i][j][c], want)

    return Case(cname, body, goals, family="inner/" + ("fast" if copied else "plain"),
                params=dict(copied=copied, layout=layout, **cfg.params()))


# --------------------------------------------------------------------------
# (b) ways of supplying the branch input
# --------------------------------------------------------------------------


def supply_case(cfg, copied):
    cname = "supply/%s/%s" % (cfg.name, "fast" if copied else "plain")

    def body(env):
        sens = env.tensor("sens", (cfg.nsens, 1))
        net, fs = build(env, cfg, copied, {}, sens=sens)
        x = env.tensor("x", (cfg.nloc, cfg.X.dim))
        tin = Points(x, cfg.X)
        a, b = env.tensor("fa", ()), env.tensor("fb", ())
        p = env.tensor("fp", (cfg.nfun, 1))

        def fvals(s, par):
            """the function family par*s*s + a*s + b (second component: a*par - s)"""
            v = par * s * s + a * s + b
            if cfg.fdim == 2:
                v = torch.cat([v, a * par - s], dim=-1)
            return v

        # one function (parameter value b) --------------------------------------------------------
        def f(s):
            return fvals(s, b)

        vals1 = fvals(sens, b)  # (nsens, fdim): the oracle's discretisation
        outs1, cur1 = {}, {}

        def rec(store, cur, key, o):
            store[key] = o
            cur[key] = net.branch.current_out.clone()

        rec(outs1, cur1, "callable", net(tin, f))
        rec(outs1, cur1, "tensor2d", net(tin, vals1.clone()))
        rec(outs1, cur1, "tensor3d", net(tin, vals1.clone().unsqueeze(0)))
        rec(outs1, cur1, "points2d", net(tin, Points(vals1.clone(), cfg.F)))
        rec(outs1, cur1, "points3d", net(tin, Points(vals1.clone().unsqueeze(0), cfg.F)))
        net.fix_branch_input(f)
        rec(outs1, cur1, "fixed_callable", net(tin))
        # a batch of functions -------------------------------------------------------------------
        valsn = fvals(sens.unsqueeze(0), p.unsqueeze(1))  # (nfun, nsens, fdim)

        def fam(s, p):
            return fvals(s, p)

        fset = CustomFunctionSet(fs, tp.samplers.DataSampler(Points(p, P1)), fam)
        outsn, curn = {}, {}
        rec(outsn, curn, "tensor3d", net(tin, valsn.clone()))
        rec(outsn, curn, "points3d", net(tin, Points(valsn.clone(), cfg.F)))
        rec(outsn, curn, "functionset", net(tin, fset))
        net.fix_branch_input(fset)
        rec(outsn, curn, "fixed_functionset", net(tin))
        # the same family split into two sets and added (FunctionSetCollection)
        parts = [CustomFunctionSet(fs, tp.samplers.DataSampler(Points(p[i:i + 1], P1)), fam) for i in range(cfg.nfun)]
        coll = parts[0]
        for q in parts[1:]:
            coll = coll + q
        rec(outsn, curn, "functionset_collection", net(tin, coll))
        net.branch.current_out = torch.empty(0)
        net._forward_branch(fset, iteration_num=0)
        rec(outsn, curn, "training_path", net(tin))
        net._forward_branch(fset, iteration_num=0)  # same iteration: must not change anything
        rec(outsn, curn, "training_path_again", net(tin))
        return dict(outs1=outs1, cur1=cur1, outsn=outsn, curn=curn)

    def goals(o, L, env):
        g = G(L, env)
        for grp, ref, n in (("outs1", "tensor2d", 1), ("cur1", "tensor2d", 1), ("outsn", "tensor3d", cfg.nfun),
                            ("curn", "tensor3d", cfg.nfun)):
            r = o[grp][ref]
            yield "%s_rows" % grp, shape_of(r)[0] == n
            for k, v in o[grp].items():
                if k == ref:
                    continue
                yield from g.cells("%s[%s]" % ("same_output" if grp.startswith("outs") else "same_branch_features", k + "/%d" % n),
                                   v, r)

    return Case(cname, body, goals, family="supply/" + ("fast" if copied else "plain"), params=dict(copied=copied, **cfg.params()))


def two_sets_case(cfg, copied):
    """training path with TWO function sets of equal size used with one DeepONet in the same iteration (two conditions
    sharing the network): after _forward_branch(set_B, k) the output belongs to the functions of set B; and a trunk
    input whose variables arrive in another column order afterwards still means the same locations"""
    cname = "two_function_sets/%s/%s" % (cfg.name, "fast" if copied else "plain")

    def body(env):
        sens = env.tensor("sens", (cfg.nsens, 1))
        net, fs = build(env, cfg, copied, {}, sens=sens)
        x = env.tensor("x", (cfg.nloc, cfg.X.dim))
        tin = Points(x, cfg.X)
        a, b = env.tensor("fa", ()), env.tensor("fb", ())
        pA, pB = env.tensor("fpA", (cfg.nfun, 1)), env.tensor("fpB", (cfg.nfun, 1))

        def fam(s, p):
            v = p * s * s + a * s + b
            if cfg.fdim == 2:
                v = torch.cat([v, a * p - s], dim=-1)
            return v

        setA = CustomFunctionSet(fs, tp.samplers.DataSampler(Points(pA, P1)), fam)
        setB = CustomFunctionSet(fs, tp.samplers.DataSampler(Points(pB, P1)), fam)
        out = {}
        for k in (0, 1):
            net._forward_branch(setA, iteration_num=k)
            oA = net(tin)
            net._forward_branch(setB, iteration_num=k)
            oB = net(tin)
            out["iteration%d" % k] = (oA, oB)
        vA, vB = fam(sens.unsqueeze(0), pA.unsqueeze(1)), fam(sens.unsqueeze(0), pB.unsqueeze(1))
        ref = (net(tin, vA.clone()), net(tin, vB.clone()))
        res = dict(out=out, ref=ref)
        if len(list(cfg.X.keys())) > 1:  # the same locations with the trunk variables in reverse column order
            names = list(cfg.X.keys())
            cols, k0 = {}, 0
            for n in names:
                cols[n] = x[:, k0:k0 + cfg.X[n]]
                k0 += cfg.X[n]
            rev = Points.from_coordinates({n: cols[n] for n in reversed(names)})
            res["reordered"] = (net(rev, vB.clone()), ref[1])
        return res

    def goals(o, L, env):
        g = G(L, env)
        for k, (oA, oB) in o["out"].items():
            yield from g.cells("output_of_set_A[%s]" % k, oA, o["ref"][0])
            yield from g.cells("output_of_set_B[%s]" % k, oB, o["ref"][1])
        if "reordered" in o:
            yield from g.cells("trunk_variables_in_other_column_order", o["reordered"][0], o["reordered"][1])

    return Case(cname, body, goals, family="two_function_sets/" + ("fast" if copied else "plain"), params=dict(copied=copied, **cfg.params()))


def vector_parameter_case(cfg, copied):
    """function sets whose parameter has more than one column (one R2 parameter / two scalar parameter variables):
    function i is f(param_i, .) with ALL components of row i"""
    cname = "vector_parameter/%s/%s" % (cfg.name, "fast" if copied else "plain")

    def body(env):
        sens = env.tensor("sens", (cfg.nsens, 1))
        net, fs = build(env, cfg, copied, {}, sens=sens)
        x = env.tensor("x", (cfg.nloc, cfg.X.dim))
        tin = Points(x, cfg.X)
        p2 = env.tensor("fp2", (cfg.nfun, 2))
        P2 = tp.spaces.R2("p")
        PA, PB = tp.spaces.R1("pa"), tp.spaces.R1("pb")

        def fam(s, p):
            v = p[..., 0:1] * s * s + p[..., 1:2] * s
            return torch.cat([v, v - s], dim=-1) if cfg.fdim == 2 else v

        def fam2(s, pa, pb):
            v = pa * s * s + pb * s
            return torch.cat([v, v - s], dim=-1) if cfg.fdim == 2 else v

        vals = fam(sens.unsqueeze(0), p2.unsqueeze(1))
        ref = net(tin, vals.clone())
        set_vec = CustomFunctionSet(fs, tp.samplers.DataSampler(Points(p2, P2)), fam)
        o1 = net(tin, set_vec)
        set_two = CustomFunctionSet(fs, tp.samplers.DataSampler(Points(p2, PA * PB)), fam2)
        o2 = net(tin, set_two)
        return dict(ref=ref, vec=o1, two=o2)

    def goals(o, L, env):
        g = G(L, env)
        yield from g.cells("one_R2_parameter", o["vec"], o["ref"])
        yield from g.cells("two_scalar_parameters", o["two"], o["ref"])

    return Case(cname, body, goals, family="vector_parameter/" + ("fast" if copied else "plain"), params=dict(copied=copied, **cfg.params()))


def resupply_case(cfg, copied):
    """history: the SAME branch-input object is supplied again after the weights changed (an optimizer step /
    load_state_dict) and after its buffer was refilled in place: the output is the inner product for the CURRENT
    weights and the CURRENT content, i.e. what a fresh copy of the input gives"""
    cname = "resupply/%s/%s" % (cfg.name, "fast" if copied else "plain")

    def body(env):
        sens = env.tensor("sens", (cfg.nsens, 1))
        net, fs = build(env, cfg, copied, {}, sens=sens)
        x = env.tensor("x", (cfg.nloc, cfg.X.dim))
        tin = Points(x, cfg.X)
        F = env.tensor("F", (cfg.nfun, cfg.nsens, cfg.fdim))
        G_ = env.tensor("G", (cfg.nfun, cfg.nsens, cfg.fdim))
        out = {}
        out["first"] = (net(tin, F), net(tin, F.clone()))
        with torch.no_grad():  # an optimizer step on the branch and trunk weights
            for i, p in enumerate(net.parameters()):
                p.add_(env.tensor("dw%d" % i, tuple(p.shape)))
        out["after_weight_update"] = (net(tin, F), net(tin, F.clone()))
        net.fix_branch_input(F)
        out["fixed_again_same_object"] = (net(tin), net(tin, F.clone()))
        with torch.no_grad():
            F.copy_(G_)  # the user's buffer is refilled with the next batch of functions
        out["after_buffer_refill"] = (net(tin, F), net(tin, G_.clone()))
        PF = Points(F, cfg.F)
        a = net(tin, PF)
        with torch.no_grad():
            for i, p in enumerate(net.parameters()):
                p.sub_(env.tensor("dv%d" % i, tuple(p.shape)))
        out["points_object_after_weight_update"] = (net(tin, PF), net(tin, Points(F.clone(), cfg.F)))
        out["_a"] = (a, a)
        return out

    def goals(o, L, env):
        g = G(L, env)
        for k, (got, want) in o.items():
            if k.startswith("_"):
                continue
            yield "rows[%s]" % k, shape_of(got) == shape_of(want)
            yield from g.cells("same_as_fresh_copy[%s]" % k, got, want)

    return Case(cname, body, goals, family="resupply/" + ("fast" if copied else "plain"), params=dict(copied=copied, **cfg.params()))


# --------------------------------------------------------------------------
# (c) fast path vs plain network
# --------------------------------------------------------------------------


def _derivs(env, net, cfg, layout, fb, x, coef, with_params=True):
    """outputs, first/second derivatives w.r.t. the trunk input and parameter gradients of a loss with symbolic
    coefficients -- everything through the repo's operators and the real autograd engine"""
    if layout == "coords":
        # exactly what DeepONetSingleModuleCondition.forward does
        pts = Points(x, cfg.X).unsqueeze(0).repeat(cfg.nfun, 1, 1)
        coords, pts = pts.track_coord_gradients()
        leaves = [coords[v] for v in cfg.X]
    elif layout == "leaf3d":
        x.requires_grad_(True)
        pts = Points(x, cfg.X).unsqueeze(0).repeat(cfg.nfun, 1, 1)
        leaves = [x]
    else:  # leaf2d
        x.requires_grad_(True)
        pts = Points(x, cfg.X)
        leaves = [x]
    out = net(pts, fb).as_tensor
    res = dict(out=out, g=[], lap=[], shape=list(out.shape))
    loss = (coef("co", out.shape) * out).sum()
    for c in range(cfg.odim):
        oc = out[..., c:c + 1]
        gr = tp_grad(oc, *leaves)
        lp = tp_laplacian(oc, *leaves)
        res["g"].append(gr)
        res["lap"].append(lp)
        loss = loss + (coef("cg%d" % c, gr.shape) * gr).sum() + (coef("cl%d" % c, lp.shape) * lp).sum()
    if with_params:
        ps = list(net.parameters())
        res["pg"] = list(torch.autograd.grad(loss, ps, allow_unused=False))
        res["pnames"] = [n for n, _ in net.named_parameters()]
    return res


def fast_case(cfg, layout):
    cname = "fastpath/%s/%s" % (cfg.name, layout)

    def body(env):
        wt = {}
        sens = env.tensor("sens", (cfg.nsens, 1))
        fast, _ = build(env, cfg, True, wt, sens=sens)
        plain, _ = build(env, cfg, False, wt, sens=sens)
        fb = env.tensor("fb", (cfg.nfun, cfg.nsens, cfg.fdim))
        cs = {}

        def coef(n, shape):
            if n not in cs:
                cs[n] = env.tensor(n, tuple(shape))
            return cs[n]

        res = {}
        for nm, net in (("fast", fast), ("plain", plain)):
            x = env.tensor("x", (cfg.nloc, cfg.X.dim))
            res[nm] = _derivs(env, net, cfg, layout, fb, x, coef)
        res["fast_layers"] = [type(m).__name__ for m in _fctrunk(fast).sequential]
        res["plain_layers"] = [type(m).__name__ for m in _fctrunk(plain).sequential]
        return res

    def goals(o, L, env):
        g = G(L, env)
        yield "fast_net_uses_TrunkLinear", "TrunkLinear" in o["fast_layers"] and "Linear" not in o["fast_layers"]
        yield "plain_net_uses_Linear", "Linear" in o["plain_layers"] and "TrunkLinear" not in o["plain_layers"]
        yield "same_parameters", o["fast"]["pnames"] == o["plain"]["pnames"]
        yield "output_shape", o["fast"]["shape"] == o["plain"]["shape"] == [cfg.nfun, cfg.nloc, cfg.odim]
        yield from g.cells("same_output", o["fast"]["out"], o["plain"]["out"])
        yield from g.cells("same_gradient", o["fast"]["g"], o["plain"]["g"])
        yield from g.cells("same_laplacian", o["fast"]["lap"], o["plain"]["lap"])
        for n, a, b in zip(o["fast"]["pnames"], o["fast"]["pg"], o["plain"]["pg"]):
            yield from g.cells("same_param_grad[%s]" % n, a, b)

    return Case(cname, body, goals, family="fastpath/" + layout, params=dict(layout=layout, **cfg.params()))


def _fctrunk(net):
    t = net.trunk
    return t.models[-1] if isinstance(t, Sequential) else t


def layer_case(act, bias, dims, depth):
    """nn.Sequential of TrunkLinear vs of nn.Linear, same weights, input copied along the first axis"""
    cname = "layer/%s/%s/%dd/depth%d" % (act, "bias" if bias else "nobias", dims, depth)

    def body(env):
        A = ACTS[act]

        def stack(cls):
            ls = []
            for k in range(depth):
                ls.append(cls(2, 2, bias=bias))
                if k < depth - 1:
                    ls.append(A())
            return nn.Sequential(*ls)

        fast, plain = stack(TrunkLinear), stack(nn.Linear)
        wt = {}
        for net in (fast, plain):
            for name, p in net.named_parameters():
                nm = "w_" + name.replace(".", "_")
                if nm not in wt:
                    wt[nm] = env.tensor(nm, tuple(p.shape))
                with torch.no_grad():
                    p.copy_(wt[nm])
        inner = (2, 2) if dims == 3 else (2, 2, 2)
        res = {}
        co = env.tensor("co", (2,) + inner)
        cg = env.tensor("cg", (2,) + inner)
        ch = env.tensor("ch", (2,) + inner)
        for nm, net in (("fast", fast), ("plain", plain)):
            x = env.tensor("x", inner)
            X = x.unsqueeze(0).repeat(2, *([1] * len(inner)))
            X.requires_grad_(True)
            y = net(X)
            (g1,) = torch.autograd.grad((co * y).sum(), X, create_graph=True)
            if g1.grad_fn is not None and depth > 1 and act != "relu":
                (g2,) = torch.autograd.grad((cg * g1).sum(), X, create_graph=True)
            else:
                g2 = torch.zeros_like(X)
            loss = (co * y * y).sum() + (cg * g1).sum() + (ch * g2).sum()
            pg = torch.autograd.grad(loss, list(net.parameters()))
            res[nm] = dict(y=y, g1=g1, g2=g2, pg=list(pg), pnames=[n for n, _ in net.named_parameters()])
        return res

    def goals(o, L, env):
        g = G(L, env)
        yield "same_parameters", o["fast"]["pnames"] == o["plain"]["pnames"]
        yield from g.cells("same_output", o["fast"]["y"], o["plain"]["y"])
        yield from g.cells("same_first_derivative", o["fast"]["g1"], o["plain"]["g1"])
        yield from g.cells("same_second_derivative", o["fast"]["g2"], o["plain"]["g2"])
        for n, a, b in zip(o["fast"]["pnames"], o["fast"]["pg"], o["plain"]["pg"]):
            yield from g.cells("same_param_grad[%s]" % n, a, b)

    return Case(cname, body, goals, family="layer/" + ("bias" if bias else "nobias"),
                params=dict(act=act, bias=bias, dims=dims, depth=depth))


# --------------------------------------------------------------------------


def cases(tier):
    cs = []
    quick = tier == "quick"
    if quick:
        cfgs = [Cfg("cube"), Cfg("square", space="xt"), Cfg("square+twice", hidden=(2, 2))]
    else:
        cfgs = [Cfg("cube"), Cfg("square", space="xt"), Cfg("tanh", hidden=(2, 2), odim=2, nloc=3),
                Cfg("tanh", hidden=(2, 2), odim=1, nloc=3, space="xt", fdim=2), Cfg("sin", hidden=(2,), odim=2, nloc=2),
                Cfg("square", hidden=(2, 2), odim=1, nloc=2), Cfg("tanh", hidden=(2,), odim=1, nloc=2, norm=True),
                Cfg("square+twice", hidden=(2, 2)), Cfg("square+cube", hidden=(1, 1)), Cfg("tanh+square", hidden=(2, 2), space="xt")]
    for cfg in cfgs:
        for copied in (True, False):
            for layout in ("2d", "3d") + (("own",) if not copied else ()):
                cs.append(inner_case(cfg, copied, layout))
            cs.append(supply_case(cfg, copied))
            cs.append(resupply_case(cfg, copied))
            cs.append(two_sets_case(cfg, copied))
            if cfg is cfgs[0] or not quick:
                cs.append(vector_parameter_case(cfg, copied))
        for layout in ("coords", "leaf3d", "leaf2d"):
            cs.append(fast_case(cfg, layout))
    acts = ("cube",) if quick else ("cube", "tanh", "square")
    for act in acts:
        for bias in (True, False):
            cs.append(layer_case(act, bias, 3, 2))
            if not quick:
                cs.append(layer_case(act, bias, 4, 2))
                if act != "cube":  # x^3 three layers deep: degree-27 identities, outside the bounds
                    cs.append(layer_case(act, bias, 3, 3))
    if quick:
        cs.append(layer_case("cube", True, 4, 2))
    return cs
