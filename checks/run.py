"""CLI: ./check C05 --tier quick"""
import argparse
import importlib
import os
import sys


def main():
    ap = argparse.ArgumentParser()
    ap.add_argument("prop")
    ap.add_argument("--tier", default=os.environ.get("VERIF_TIER", "quick"), choices=["quick", "thorough"])
    ap.add_argument("--only", default=None)
    ap.add_argument("--replay", default=None)
    ap.add_argument("--jobs", type=int, default=None)
    ap.add_argument("--list", action="store_true")
    a = ap.parse_args()
    seed = int(os.environ.get("VERIF_SEED", "0") or 0)
    mod = importlib.import_module("checks." + a.prop.lower())
    from symtorch import harness

    if a.replay:
        cases = mod.cases("thorough") + mod.cases("quick")
        sys.exit(harness.replay_file(a.replay, cases))
    cases = mod.cases(a.tier)
    if a.list:
        for c in cases:
            print(c.name)
        return
    rc = harness.run_check(a.prop.upper(), cases, a.tier, mod.META, seed=seed, only=a.only, jobs=a.jobs)
    sys.exit(rc)


if __name__ == "__main__":
    main()
