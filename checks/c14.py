"""C14  Conditions are isolated from each other and repeatable.

Two or three REAL conditions are built from SHARED user objects (one `data_functions` dict, one learnable
Parameter, one model, one Interval used as the samplers' domain and as the periodic interval, one static sampler,
or nothing at all = the constructors' default arguments) and constructed / evaluated in every interleaving.
After that every condition is rebuilt ALONE from fresh but identical objects (same symbols) and evaluated the
same number of times.  Points, interval bounds, data coefficients, the parameter and the model weights are
symbolic.  Goals:
  * loss in company == loss alone, for every evaluation (z3 identity over all symbols),
  * the user's dict still maps the same keys to the very same objects (identity), the constructors' default
    objects are unchanged,
  * repeated evaluation of a condition with a static sampler returns the identical term,
  * the data a PeriodicCondition hands to the residual as `f_left` is f at (left end, row) and depends only on
    the left end; `f_right` likewise for the right end (oracle equality, renaming query, free variables).
"""
from __future__ import annotations

import itertools
from types import SimpleNamespace

import torch
import torchphysics as tp
from torchphysics.problem.spaces import Space
from torchphysics.problem.spaces.points import Points
from torchphysics.problem.conditions import condition as C

from symtorch.harness import Case
from symtorch import term as T
from . import shapes as SH
from . import condkit as K

META = dict(
    level="model_checking",
    bounds="sets of 2 (quick) and 3 (thorough) conditions out of PINN / Mean / Periodic / IntegroPINN / HPM_at_Sampler, every "
           "interleaving of their constructions and evaluations (6 for two, 90 for three conditions), each sampler static or not; "
           "shared: data_functions dict (function + constant tensor), learnable Parameter, model, Interval (as GridSampler "
           "domain and periodic interval), one static sampler instance, default arguments; 2-3 symbolic points per sampler, "
           "model = real FCN (1 hidden layer of 2 neurons, activation z*z) with symbolic weights; repetition: 3 evaluations "
           "without optimisation step for every condition type and sampler kind (fixed / DataSampler / RandomUniform / Grid, "
           "static); periodic sides: default / static empty / fixed / static fixed non-periodic sampler",
    outside=["more than 3 conditions", "adaptive samplers (C15)", "DeepONet conditions", "optimisation steps between evaluations (C07)",
             "devices other than cpu"],
    assumptions=["'alone' means: the same constructor calls with fresh objects of identical content and no other condition"],
)

DIMS = {"x": 1, "t": 1, "u": 1, "p": 1}
TYPES = ("pinn", "mean", "periodic", "integro", "hpm")


# --------------------------------------------------------------------------
# a world = the user's objects
# --------------------------------------------------------------------------


def build_world(env, vars_, with_c=False):
    W = SimpleNamespace(vars=tuple(vars_))
    W.model, W.orc = K.sym_fcn(env, "m", K.space_of(vars_, DIMS), Space({"u": 1}))
    W.f = K.LinFn(env, "f", list(reversed(vars_)), DIMS)
    W.c_t = env.tensor("c", (2, 1)) if with_c else None
    W.dfs = {"f": W.f.fn}
    if with_c:
        W.dfs["c"] = W.c_t
    W.dfs_before = dict(W.dfs)
    W.prm, W.prm_o = K.sym_parameter(env, "p", Space({"p": 1}))
    W.lb_t, W.ub_t = env.tensor("lb", ()), env.tensor("ub", ())
    W.interval = tp.domains.Interval(Space({"x": 1}), W.lb_t, W.ub_t)
    W.shared_static = None
    return W


def _own_sampler(env, W, tag, kind, order, n, sharing):
    """the sampler of one condition"""
    static = kind.endswith("_static")
    base = kind[:-7] if static else kind
    if sharing == "sampler" and static:
        if W.shared_static is None:
            W.shared_static = K.FixedSampler(K.fixed_points(env, "pts_shared", order, DIMS, n)).make_static()
        return W.shared_static
    if base == "fixed":
        s = K.FixedSampler(K.fixed_points(env, "pts" + tag, order, DIMS, n))
    elif base == "data":
        s = tp.samplers.DataSampler(K.fixed_points(env, "pts" + tag, order, DIMS, n))
    elif base == "grid":
        assert tuple(order) == ("x",)
        s = tp.samplers.GridSampler(W.interval, n_points=n)
    elif base == "random":
        assert tuple(order) == ("x",)
        s = tp.samplers.RandomUniformSampler(W.interval, n_points=n)
    elif base == "staticproduct":
        # a product of INDIVIDUALLY static samplers (random first factor): x_static * t_static
        assert set(order) == {"x", "t"}
        xs = tp.samplers.RandomUniformSampler(W.interval, n_points=n).make_static()
        ts = tp.samplers.DataSampler(K.fixed_points(env, "pts_t" + tag, ("t",), DIMS, 1)).make_static()
        return xs * ts
    else:
        raise ValueError(kind)
    return s.make_static() if static else s


def make_condition(env, W, ctype, tag, kind, sharing, n=2, use_c=False):
    """construct one real condition from the world's (shared) objects"""
    has_t = "t" in W.vars
    use_f = sharing != "defaults"
    use_p = sharing != "defaults"
    kw = {}
    if use_f:
        # only the 'dict' families share the user's dict; the others hand every condition its own (identical) dict
        kw["data_functions"] = W.dfs if sharing == "dict" else dict(W.dfs)
    if use_p:
        kw["parameter"] = W.prm
    opt = (["f"] if use_f else []) + (["p"] if use_p else []) + (["c"] if (use_c and use_f) else [])
    order = tuple(reversed(W.vars))
    if ctype == "pinn":
        def impl(**a):
            r = a["u"] + tp.utils.grad(a["u"], a["x"])
            if use_f:
                r = r - a["f"]
            if use_p:
                r = r + a["p"] * a["x"]
            if has_t:
                r = r + a["t"]
            if "c" in a:
                r = r + a["c"]
            return r

        return C.PINNCondition(W.model, _own_sampler(env, W, tag, kind, order, n, sharing), K.make_fn(opt + list(W.vars) + ["u"], impl), **kw)
    if ctype == "mean":
        def impl(**a):
            r = a["u"] * (a["f"] if use_f else 2) + a["x"]
            if "c" in a:
                r = r - a["c"]
            return r

        return C.MeanCondition(W.model, _own_sampler(env, W, tag, kind, order, n, sharing), K.make_fn(["u"] + opt + ["x"], impl), **kw)
    if ctype == "hpm":
        def impl(**a):
            r = a["x"] * a["x"]
            if use_f:
                r = r - a["f"]
            if use_p:
                r = r + a["p"]
            return r

        return C.HPM_EquationLoss_at_Sampler(W.model, _own_sampler(env, W, tag, kind, order, n, sharing), K.make_fn(opt + ["x"], impl), **kw)
    if ctype == "integro":
        def impl(**a):
            r = a["u"] - (a["u_integral"] * a["x_integral"]).mean(dim=1, keepdim=True)
            if use_f:
                r = r - a["f"]
            return r

        isamp = K.FixedSampler(K.fixed_points(env, "ipts" + tag, ("x",), DIMS, 2))
        return C.IntegroPINNCondition(W.model, _own_sampler(env, W, tag, kind, order, n, sharing), K.make_fn(opt + ["u_integral", "x_integral", "u"], impl),
                                      isamp, **kw)
    if ctype == "periodic":
        def impl(**a):
            r = a["u_left"] - 2 * a["u_right"]
            if use_f:
                r = r + a["f_left"] - 3 * a["f_right"]
            if use_p:
                r = r + a["p"] * (a["x_right"] - a["x_left"])
            if has_t:
                r = r + a["t"]
            return r

        sig = (["f_right", "f_left"] if use_f else []) + (["p"] if use_p else []) + ["x_left", "u_right", "x_right", "u_left"] + \
              (["t"] if has_t else [])
        if has_t:
            kw["non_periodic_sampler"] = _own_sampler(env, W, tag, kind, ("t",), n, sharing)
        return C.PeriodicCondition(W.model, W.interval, K.make_fn(sig, impl), **kw)
    raise ValueError(ctype)


def _snap_defaults():
    """the default-argument objects of the condition constructors and their content"""
    out = []
    for cls in (C.SingleModuleCondition, C.PINNCondition, C.MeanCondition, C.DeepRitzCondition, C.PeriodicCondition,
                C.IntegroPINNCondition, C.HPM_EquationLoss_at_Sampler, C.AdaptiveWeightsCondition):
        for d in cls.__init__.__defaults__ or ():
            if isinstance(d, dict):
                out.append((cls.__name__, d, ("dict", tuple(d.items()))))
            elif isinstance(d, Points):
                out.append((cls.__name__, d, ("points", bool(d.isempty), tuple(d.space.keys()))))
    return out


def interleavings(k):
    """all orders of the events c0..c(k-1), e0..e(k-1) with c_i before e_i"""
    ev = [("c", i) for i in range(k)] + [("e", i) for i in range(k)]
    out = []
    for perm in itertools.permutations(ev):
        pos = {e: j for j, e in enumerate(perm)}
        if all(pos[("c", i)] < pos[("e", i)] for i in range(k)):
            out.append(perm)
    return out


def _evname(events):
    return "".join("%s%s" % (a.upper() if a == "c" else a, "ABC"[i]) for a, i in events)


# --------------------------------------------------------------------------
# family 1-4: company vs alone
# --------------------------------------------------------------------------


def company_case(sharing, ctypes, kinds, events, vars_=("x", "t"), ns=None, with_c=False, extra_evals=0):
    ns = ns or [2] * len(ctypes)
    name = "share_%s/%s/%s/%s%s%s" % (sharing, "+".join(ctypes), ",".join(kinds), _evname(events),
                                    "" if all(n == 2 for n in ns) else "/n=" + ",".join(map(str, ns)), "/c" if with_c else "")
    k = len(ctypes)
    tags = "ABC"

    def body(env):
        defaults0 = _snap_defaults()
        W = build_world(env, vars_, with_c)
        conds, company = {}, {i: [] for i in range(k)}
        for a, i in list(events) + [("e", j) for j in range(k) for _ in range(extra_evals)]:
            if a == "c":
                conds[i] = make_condition(env, W, ctypes[i], tags[i], kinds[i], sharing, ns[i], use_c=with_c and ns[i] == 2)
            else:
                company[i].append(conds[i]().reshape(-1))
        dict_same = [(key, key in W.dfs and W.dfs[key] is val) for key, val in W.dfs_before.items()]
        keys_same = list(W.dfs.keys()) == list(W.dfs_before.keys())
        defaults1 = _snap_defaults()
        defaults_same = len(defaults0) == len(defaults1) and all(a[1] is b[1] and a[2] == b[2] and a[2] == _pristine(a[2])
                                                                 for a, b in zip(defaults0, defaults1))
        alone = {}
        for i in range(k):
            Wi = build_world(env, vars_, with_c)
            ci = make_condition(env, Wi, ctypes[i], tags[i], kinds[i], sharing, ns[i], use_c=with_c and ns[i] == 2)
            alone[i] = [ci().reshape(-1) for _ in company[i]]
        return dict(company=[company[i] for i in range(k)], alone=[alone[i] for i in range(k)], dict_same=dict_same, keys_same=keys_same,
                    defaults_same=defaults_same)

    def goals(o, L, env):
        if sharing == "dict":
            yield "user_dict_keeps_its_keys", o["keys_same"]
            for key, same in o["dict_same"]:
                yield "user_dict_still_maps_to_same_object[%s]" % key, same
        yield "default_arguments_unchanged", o["defaults_same"]
        for i in range(k):
            for j, (a, b) in enumerate(zip(o["company"][i], o["alone"][i])):
                yield "one_loss_value[%s,eval%d]" % (tags[i], j), len(a) == 1 and len(b) == 1
                if len(a) == 1 and len(b) == 1:
                    yield "loss_in_company_equals_loss_alone[%s,eval%d]" % (tags[i], j), L.eq(a[0], b[0])

    return Case(name, body, goals, family="share_%s/%s" % (sharing, "+".join(ctypes)),
                params=dict(sharing=sharing, ctypes=ctypes, kinds=kinds, events=_evname(events), vars=vars_, ns=ns, with_c=with_c))


def specialised_function_case(ctypes, events, kinds=None, mode="partial"):
    """the user wraps ONE function g(x, k, q) in a UserFunction and hands each condition its own specialisation
    G.partially_evaluate(k=k_i) as data function 'f': each condition computes with its own k, the user's wrapper and the
    first specialisation are not changed by making the second one"""
    from torchphysics.utils.user_fun import UserFunction
    k = len(ctypes)
    kinds = kinds or ["fixed"] * k
    tags = "ABC"
    name = "share_specialised_function/%s/%s%s" % ("+".join(ctypes), _evname(events), "/factory_defaults" if mode == "factory" else "")

    def body(env):
        def world(idx):
            W = build_world(env, ("x",))
            coef = env.tensor("g_x", (1,))

            def g_impl(x, k, q):
                return (x * coef).sum(dim=-1, keepdim=True) * k + q

            W.coef = coef
            W.G = UserFunction(K.make_fn(["x", "k", "q"], g_impl, name="g"))
            W.ks = [env.tensor("k%s" % tags[i], ()) for i in range(k)]
            W.q = env.tensor("q", ())
            W.spec = {}
            return W

        def construct(W, i, alone=False):
            if mode == "factory" and alone:
                # the reference: a function with its OWN code object (exec), so that nothing keyed by code objects links it
                # to the functions of the company world
                W.spec[i] = K.make_fn(["x", "k", "q"], lambda x, k, q: (x * W.coef).sum(dim=-1, keepdim=True) * k + q, name="g",
                                      defaults={"k": W.ks[i], "q": W.q})
            elif mode == "factory":
                # plain functions from ONE def (one code object), each with its own declared defaults k=k_i, q=q
                def factory(k_i, q_):
                    def g(x, k=k_i, q=q_):
                        return (x * W.coef).sum(dim=-1, keepdim=True) * k + q
                    return g
                W.spec[i] = factory(W.ks[i], W.q)
            else:
                W.spec[i] = W.G.partially_evaluate(k=W.ks[i])  # q stays open: a wrapper comes back
                W.spec[i].set_default(q=W.q)
            W.dfs = {"f": W.spec[i]}
            return make_condition(env, W, ctypes[i], tags[i], kinds[i], "own", 2)

        W = world(None)
        conds, company = {}, {i: [] for i in range(k)}
        for a, i in events:
            if a == "c":
                conds[i] = construct(W, i)
            else:
                company[i].append(conds[i]().reshape(-1))
        user_wrapper_unchanged = dict(W.G.defaults) == {} and list(W.G.necessary_args) == ["x", "k", "q"]
        alone = {}
        for i in range(k):
            Wi = world(i)
            ci = construct(Wi, i, alone=True)
            alone[i] = [ci().reshape(-1) for _ in company[i]]
        return dict(company=[company[i] for i in range(k)], alone=[alone[i] for i in range(k)], user_wrapper_unchanged=user_wrapper_unchanged)

    def goals(o, L, env):
        yield "user_wrapper_unchanged", o["user_wrapper_unchanged"]
        for i in range(k):
            for j, (a, b) in enumerate(zip(o["company"][i], o["alone"][i])):
                yield "one_loss_value[%s,eval%d]" % (tags[i], j), len(a) == 1 and len(b) == 1
                if len(a) == 1 and len(b) == 1:
                    yield "loss_in_company_equals_loss_alone[%s,eval%d]" % (tags[i], j), L.eq(a[0], b[0])

    return Case(name, body, goals, family="share_specialised_function/" + "+".join(ctypes), params=dict(ctypes=ctypes, events=_evname(events)))


def shared_base_sampler_case(order):
    """two conditions make their own static sampler from ONE base sampler (validation: make_static(), training:
    make_static(2)), evaluated alternately: the validation loss is the same every time, the training loss is the same
    within each block of 2 of its own evaluations"""
    name = "share_base_sampler/two_make_static/%s" % order

    def body(env):
        W = build_world(env, ("x",))
        base = tp.samplers.RandomUniformSampler(W.interval, n_points=2)
        env.assume(env.L.lt(env.v(W.lb_t), env.v(W.ub_t)))

        def cond(s, tag):
            return C.PINNCondition(W.model, s, K.make_fn(["u", "x"], lambda u, x: u + x * x, "res" + tag))

        if order == "val_first":
            val, train = cond(base.make_static(), "V"), cond(base.make_static(2), "T")
        else:
            train, val = cond(base.make_static(2), "T"), cond(base.make_static(), "V")
        seq = ["V", "T", "V", "T", "T", "V", "T", "V"]
        out = {"V": [], "T": []}
        for w in seq:
            out[w].append((val if w == "V" else train)().reshape(-1))
        return out

    def goals(o, L, env):
        v, t = o["V"], o["T"]
        for j in range(1, len(v)):
            yield "static_validation_loss_repeats[eval%d]" % j, len(v[j]) == 1 and L.eq(v[j][0], v[0][0])
        yield "training_loss_repeats_within_its_interval[eval1]", L.eq(t[1][0], t[0][0])
        yield "training_loss_repeats_within_its_interval[eval3]", L.eq(t[3][0], t[2][0])

    return Case(name, body, goals, family="share_base_sampler", params=dict(order=order))


def shared_static_with_adaptive_case(order):
    """the user's static sampler with a FINITE resample interval is shared by a PINN condition and an
    AdaptiveWeightsCondition: constructing the latter leaves the sampler object as it was (interval, counter), the PINN
    loss still repeats exactly within the interval; a non-static sampler is still refused by the adaptive condition"""
    name = "share_static_sampler_with_adaptive_condition/%s" % order

    def body(env):
        W = build_world(env, ("x",))
        env.assume(env.L.lt(env.v(W.lb_t), env.v(W.ub_t)))
        base = tp.samplers.RandomUniformSampler(W.interval, n_points=2)
        shared = base.make_static(2)

        def pinn():
            return C.PINNCondition(W.model, shared, K.make_fn(["u", "x"], lambda u, x: u + x * x, "resP"))

        def adaptive():
            return C.AdaptiveWeightsCondition(W.model, shared, K.make_fn(["u", "x"], lambda u, x: u - x, "resA"))

        if order == "pinn_first":
            p, a = pinn(), adaptive()
        else:
            a, p = adaptive(), pinn()
        interval_after = shared.resample_interval
        losses = [p().reshape(-1) for _ in range(4)]
        refused = False
        try:
            C.AdaptiveWeightsCondition(W.model, base, K.make_fn(["u", "x"], lambda u, x: u - x, "resB"))
        except ValueError:
            refused = True
        return dict(losses=losses, interval_after=interval_after, is_static=bool(shared.is_static), refused=refused,
                    base_static=bool(base.is_static))

    def goals(o, L, env):
        yield "users_sampler_keeps_its_resample_interval", o["interval_after"] == 2
        yield "non_static_sampler_still_refused_and_left_non_static", bool(o["refused"]) and not o["base_static"]
        ls = o["losses"]
        yield "loss_repeats_within_interval[eval1]", L.eq(ls[1][0], ls[0][0])
        yield "loss_repeats_within_interval[eval3]", L.eq(ls[3][0], ls[2][0])

    return Case(name, body, goals, family="share_static_sampler_with_adaptive_condition", params=dict(order=order))


def shared_keyword_defaults_case(ctype):
    """two data functions and the residual of ONE condition each declare an optional argument named k with a different
    default: every function computes with its OWN default (they are all evaluated on the same coordinates mapping)"""
    name = "share_keyword_defaults/%s" % ctype

    def body(env):
        W = build_world(env, ("x",))
        smp = K.FixedSampler(K.fixed_points(env, "ptsK", ("x",), DIMS, 2))
        rec = []

        def f(x, k=2.0):
            return x * k

        def g(x, k=5.0):
            return x * k

        def residual(u, x, f, g, k=7.0):
            rec.append(dict(f=f, g=g, k=k, x=x))
            return u + f + g

        cls = C.PINNCondition if ctype == "pinn" else C.MeanCondition
        cnd = cls(W.model, smp, residual, data_functions={"f": f, "g": g})
        cnd()
        cnd()
        return dict(rec=rec)

    def goals(o, L, env):
        yield "two_evaluations", len(o["rec"]) == 2
        for j, r in enumerate(o["rec"]):
            yield "residual_keeps_its_own_default[eval%d]" % j, r["k"] == 7.0
            for i in range(len(r["x"])):
                yield "f_uses_its_own_default[eval%d,row%d]" % (j, i), L.eq(r["f"][i][0], 2 * r["x"][i][0])
                yield "g_uses_its_own_default[eval%d,row%d]" % (j, i), L.eq(r["g"][i][0], 5 * r["x"][i][0])

    return Case(name, body, goals, family="share_keyword_defaults", params=dict(ctype=ctype))


def _pristine(sn):
    """default containers must still be what the signature shows: empty dicts, Points without variables"""
    if sn[0] == "dict":
        return ("dict", ())
    return ("points", sn[1], ())


# --------------------------------------------------------------------------
# family 5: repetition without optimisation step
# --------------------------------------------------------------------------


def repeat_case(ctype, kind, reps=3, vars_=("x", "t")):
    name = "repeat/%s/%s/x%d" % (ctype, kind, reps)

    def body(env):
        W = build_world(env, vars_)
        if ctype == "adaptive":
            smp = _own_sampler(env, W, "A", kind, tuple(reversed(vars_)), 2, "dict")

            def impl(**a):
                return a["u"] - a["f"] + a["p"] * a["x"]

            cnd = C.AdaptiveWeightsCondition(W.model, smp, K.make_fn(["f", "p", "x", "u"], impl), data_functions=W.dfs, parameter=W.prm)
            aw = env.tensor("aw", (2,))
            with torch.no_grad():
                cnd.adaptive_layer.weight.copy_(aw)
        else:
            cnd = make_condition(env, W, ctype, "A", kind, "dict")
        losses = [cnd().reshape(-1) for _ in range(reps)]
        return dict(losses=losses)

    def goals(o, L, env):
        ls = o["losses"]
        for j in range(1, len(ls)):
            yield "one_loss_value[eval%d]" % j, len(ls[j]) == 1 and len(ls[0]) == 1
            if len(ls[j]) == 1 and len(ls[0]) == 1:
                yield "repeated_evaluation_returns_same_loss[eval%d]" % j, L.eq(ls[j][0], ls[0][0])

    return Case(name, body, goals, family="repeat/" + ctype, params=dict(ctype=ctype, kind=kind, reps=reps, vars=vars_))


def repeat_data_case(norm, reps=3):
    """DataCondition over the full (fixed) data set: every evaluation is the same pass"""
    name = "repeat/data_full/norm%s/x%d" % (norm, reps)

    def body(env):
        W = build_world(env, ("x", "t"))
        in_sp = K.space_of(("t", "x"), DIMS)
        X, Y = env.tensor("X", (4, 2)), env.tensor("Y", (4, 1))
        loader = tp.utils.PointsDataLoader((Points(X, in_sp), Points(Y, Space({"u": 1}))), batch_size=2)
        cnd = C.DataCondition(W.model, loader, norm=norm, use_full_dataset=True)
        return dict(losses=[cnd().reshape(-1) for _ in range(reps)])

    def goals(o, L, env):
        ls = o["losses"]
        for j in range(1, len(ls)):
            yield "one_loss_value[eval%d]" % j, len(ls[j]) == 1 and len(ls[0]) == 1
            if len(ls[j]) == 1 and len(ls[0]) == 1:
                yield "repeated_evaluation_returns_same_loss[eval%d]" % j, L.eq(ls[j][0], ls[0][0])

    return Case(name, body, goals, family="repeat/data_full", params=dict(norm=str(norm), reps=reps))


# --------------------------------------------------------------------------
# family 6: periodic sides
# --------------------------------------------------------------------------


def periodic_sides_case(nonper, n=2, xdefault=False):
    """nonper: 'default' (constructor default EmptySampler()), 'empty_static' (PointSampler.empty()), 'fixed', 'fixed_static';
    xdefault: the data function declares a default for the periodic variable (def f(t, x=0.0)) -- it still has to be
    evaluated on each side with that side's x"""
    name = "periodic_sides/%s/n%d%s" % (nonper, n, "/x_has_default" if xdefault else "")
    has_t = nonper.startswith("fixed")
    vars_ = ("x", "t") if has_t else ("x",)

    def body(env):
        L = env.L

        def run(lb_name, ub_name):
            model, orc = K.sym_fcn(env, "m", K.space_of(vars_, DIMS), Space({"u": 1}))
            f = K.LinFn(env, "f", list(reversed(vars_)), DIMS, defaults={"x": 0.0} if xdefault else None)
            lb_t, ub_t = env.tensor(lb_name, ()), env.tensor(ub_name, ())
            interval = tp.domains.Interval(Space({"x": 1}), lb_t, ub_t)
            kw = {}
            if nonper == "empty_static":
                kw["non_periodic_sampler"] = tp.samplers.PointSampler.empty()
            elif has_t:
                s = K.FixedSampler(K.fixed_points(env, "ptsT", ("t",), DIMS, n))
                kw["non_periodic_sampler"] = s.make_static() if nonper.endswith("_static") else s
            rec = []

            def impl(**a):
                rec.append(a)
                return a["u_left"] - a["u_right"] + a["f_left"] - a["f_right"]

            dfs = {"f": f.fn}
            cnd = C.PeriodicCondition(model, interval, K.make_fn(["f_right", "u_left", "f_left", "u_right"], impl), data_functions=dfs, **kw)
            loss = cnd()
            return SimpleNamespace(rec=rec, f=f, lb=SH.elems(env, lb_t)[0], ub=SH.elems(env, ub_t)[0], loss=loss, lb_t=lb_t, ub_t=ub_t)

        r0 = run("lb", "ub")
        r_ub = run("lb", "ub2")   # only the right end renamed
        r_lb = run("lb2", "ub")   # only the left end renamed
        # the renamed ends differ from the original ones and f really depends on x (an open set of assignments)
        env.assume(L.ge(r_ub.ub, r0.ub + 1))
        env.assume(L.ge(r_lb.lb, r0.lb + 1))
        env.assume(L.ge(r0.f.coef["x"][0], 1))
        trows = [{"t": [v]} for v in SH.elems(env, K.fixed_points(env, "ptsT", ("t",), DIMS, n).as_tensor)] if has_t else [{}]
        want_left = [[r0.f.value(dict(co, x=[r0.lb]))] for co in trows]
        want_right = [[r0.f.value(dict(co, x=[r0.ub]))] for co in trows]
        fv = None
        if env.symbolic:
            def names(t):
                acc = {}
                for x in t.flat():
                    T.free_vars(x, acc)
                return set(acc)

            fv = dict(left=sorted(names(r0.rec[0]["f_left"])), right=sorted(names(r0.rec[0]["f_right"])))
        return dict(f_left=r0.rec[0]["f_left"], f_right=r0.rec[0]["f_right"], want_left=want_left, want_right=want_right,
                    f_left_ub2=r_ub.rec[0]["f_left"], f_right_lb2=r_lb.rec[0]["f_right"], fv=fv)

    def goals(o, L, env):
        yield from K.cells_eq(L, "left_data_is_f_at_left_end", o["f_left"], o["want_left"])
        yield from K.cells_eq(L, "right_data_is_f_at_right_end", o["f_right"], o["want_right"])
        # renaming queries: changing only the other end leaves the data unchanged
        yield from K.cells_eq(L, "left_data_independent_of_right_end", o["f_left_ub2"], o["f_left"])
        yield from K.cells_eq(L, "right_data_independent_of_left_end", o["f_right_lb2"], o["f_right"])
        if o["fv"] is not None:
            yield "left_data_has_no_right_end_variable", "ub" not in o["fv"]["left"]
            yield "right_data_has_no_left_end_variable", "lb" not in o["fv"]["right"]
        else:  # replay: the renaming queries above are the executable form of the free-variable statement
            same = lambda a, b: all(L.eq(x, y) for x, y in zip(_flat(a), _flat(b)))  # noqa: E731
            yield "left_data_has_no_right_end_variable", same(o["f_left_ub2"], o["f_left"])
            yield "right_data_has_no_left_end_variable", same(o["f_right_lb2"], o["f_right"])

    return Case(name, body, goals, family="periodic_sides/" + nonper, params=dict(nonper=nonper, n=n))


def _flat(x):
    if isinstance(x, list):
        for y in x:
            yield from _flat(y)
    else:
        yield x


# --------------------------------------------------------------------------


def cases(tier):
    th = tier == "thorough"
    cs = []
    I2, I3 = interleavings(2), interleavings(3)
    NS, ST = "fixed", "fixed_static"
    # ---- shared data_functions dict + parameter + model ------------------------------------------
    for kinds in itertools.product((NS, ST), repeat=2):
        for ev in I2:
            cs.append(company_case("dict", ("pinn", "mean"), kinds, ev))
    for ev in I2:
        cs.append(company_case("dict", ("pinn", "periodic"), (NS, NS), ev))
        cs.append(company_case("dict", ("pinn", "periodic"), (ST, NS), ev))
        cs.append(company_case("dict", ("integro", "hpm"), (ST, NS), ev))
    cs.append(company_case("dict", ("pinn", "periodic"), (NS, ST), I2[0]))
    cs.append(company_case("dict", ("pinn", "mean"), (ST, NS), I2[0], ns=[2, 3]))
    cs.append(company_case("dict", ("pinn", "mean"), (ST, ST), I2[0], with_c=True))
    cs.append(company_case("dict", ("pinn", "mean", "periodic"), (NS, NS, NS), I3[0]))
    cs.append(company_case("dict", ("pinn", "mean", "periodic"), (ST, NS, NS), I3[-1]))
    if th:
        for kinds in ((NS, NS, NS), (ST, NS, NS), (NS, ST, NS)):
            for ev in I3:
                cs.append(company_case("dict", ("pinn", "mean", "periodic"), kinds, ev))
        for ev in I3[::3]:
            cs.append(company_case("dict", ("integro", "hpm", "mean"), (ST, NS, ST), ev))
        for ev in I2:
            cs.append(company_case("dict", ("mean", "integro"), (NS, ST), ev, with_c=True))
            cs.append(company_case("dict", ("hpm", "pinn"), ("data_static", "data"), ev, extra_evals=1))
    # ---- nothing shared but the constructors' default arguments ------------------------------------
    for ev in I2:
        cs.append(company_case("defaults", ("pinn", "mean"), (ST, NS), ev))
        cs.append(company_case("defaults", ("periodic", "pinn"), (NS, ST), ev, vars_=("x",)))
    if th:
        for ev in I3[::2]:
            cs.append(company_case("defaults", ("pinn", "periodic", "integro"), (ST, NS, ST), ev))
            cs.append(company_case("defaults", ("periodic", "periodic", "hpm"), (NS, NS, NS), ev, vars_=("x",)))
    # ---- one Interval shared as sampler domain and periodic interval ---------------------------------
    for ev in I2:
        cs.append(company_case("domain", ("pinn", "periodic"), ("grid", NS), ev, vars_=("x",)))
        cs.append(company_case("domain", ("pinn", "mean"), ("grid_static", "grid"), ev, vars_=("x",), ns=[2, 3]))
    if th:
        for ev in I3:
            cs.append(company_case("domain", ("pinn", "periodic", "mean"), ("grid_static", NS, "grid"), ev, vars_=("x",), ns=[2, 2, 3]))
    # ---- one static sampler instance shared ----------------------------------------------------------
    for ev in I2:
        cs.append(company_case("sampler", ("pinn", "mean"), (ST, ST), ev))
    if th:
        for ev in I3[::4]:
            cs.append(company_case("sampler", ("pinn", "mean", "hpm"), (ST, ST, ST), ev))
    # ---- repetition ----------------------------------------------------------------------------------
    for ctype in TYPES + ("adaptive",):
        kinds = ["fixed_static", "data_static"] if ctype != "periodic" else ["fixed", "fixed_static"]
        for kind in kinds:
            cs.append(repeat_case(ctype, kind))
    for ctype in ("pinn", "mean", "hpm", "adaptive"):
        cs.append(repeat_case(ctype, "random_static", vars_=("x",)))
        cs.append(repeat_case(ctype, "grid_static", vars_=("x",)))
    for ctype in ("pinn", "mean"):
        cs.append(repeat_case(ctype, "staticproduct"))
    cs.append(repeat_data_case(2))
    if th:
        cs.append(repeat_data_case("inf"))
        for ctype in TYPES:
            if ctype != "periodic":
                cs.append(repeat_case(ctype, "fixed_static", reps=4))
    # ---- one wrapped user function, specialised per condition ----------------------------------------------
    evs = [e for e in interleavings(2)]
    for ev in (evs if th else [evs[0], evs[-1]]):
        cs.append(specialised_function_case(("pinn", "mean"), ev))
        cs.append(specialised_function_case(("pinn", "mean"), ev, mode="factory"))
    for order in ("val_first", "train_first"):
        cs.append(shared_base_sampler_case(order))
    for order in ("pinn_first", "adaptive_first"):
        cs.append(shared_static_with_adaptive_case(order))
    for ctype in ("pinn", "mean"):
        cs.append(shared_keyword_defaults_case(ctype))
    # ---- periodic sides --------------------------------------------------------------------------------
    for nonper in ("default", "empty_static", "fixed", "fixed_static"):
        cs.append(periodic_sides_case(nonper))
    for nonper in ("default", "fixed"):
        cs.append(periodic_sides_case(nonper, xdefault=True))
    if th:
        cs.append(periodic_sides_case("fixed", n=3))
        cs.append(periodic_sides_case("fixed_static", n=1))
    seen, out = set(), []
    for c in cs:
        if c.name not in seen:
            seen.add(c.name)
            out.append(c)
    return out
