"""C12  Points and Space behave as a table with named column groups.

The real `Points` / `Space` (problem/spaces/points.py, space.py) are driven with tensors whose
cells are distinct free symbols; every result is compared cell by cell (z3 equalities) with the
independent table model `oracle/table.py` (variables own their column blocks; rows are selected
per block).  Slice bounds, integer indices, repeat counts and space dimensions are symbolic
integers (forked), boolean masks are `symbolic_tensor > 0` (forked per element).
"""
from __future__ import annotations

import itertools
import operator

import numpy as np
import torch

from torchphysics.problem.spaces.points import Points
from torchphysics.problem.spaces.space import Space

from symtorch.harness import Case
from oracle.table import Table, MSpace, arr
from . import shapes as SH

META = dict(
    level="model_checking",
    bounds="spaces of <=3 variables with dimensions in {1,2} in 2 (quick) / 5 (thorough) layouts and orders; batch shapes "
           "(3,) and (2,2); all cells free symbols; index expressions: names, name lists/tuples, name slices, symbolic "
           "int in range, negative int, slices with symbolic bounds in [0,n+1] and a step, Ellipsis, boolean masks over the "
           "first or all batch axes (every element symbolic), index tensors with symbolic entries, and their combinations "
           "with a trailing variable selector; __setitem__ for the same key shapes; join/joined/| incl. empty operands; "
           "repeat with symbolic counts in [1,3]; unsqueeze at every legal position; + - * /; ==; Space product / "
           "__contains__ / __getitem__ / dim / == with every dimension a symbolic integer in [1,3] and <=3 names per "
           "factor; operation sequences of length 2 (quick, a sample) / <=3 (thorough)",
    outside=["dims > 2 and > 3 variables for Points", "more than 2 batch axes", "__pow__, torch functions via __torch_function__",
             "aliasing between a Points object and Points sliced from it", "device / requires_grad plumbing",
             "index expressions the API rejects with TypeError/IndexError in the 'quirk' family are only required not to "
             "mis-route when they are accepted"],
    assumptions=["cells of the data tensors are pairwise separated by at least 1 and positive (an open set: the code under "
                 "test never inspects data values, so an identity on this set is an identity); mask tensors are unconstrained"],
)

BIG = dict(max_paths=4000, max_decisions=400, max_forks_per_site=100000)

LAYOUTS = {
    "x2t1u1": [("x", 2), ("t", 1), ("u", 1)],
    "t1x2": [("t", 1), ("x", 2)],
    "u2x1t2": [("u", 2), ("x", 1), ("t", 2)],
    "t1u1x2": [("t", 1), ("u", 1), ("x", 2)],
    "x1": [("x", 1)],
    "a1b2c1d1": [("a", 1), ("b", 2), ("c", 1), ("d", 1)],
}
BATCHES = {"n": (3,), "ab": (2, 2)}
PERMS = []
for _p in itertools.permutations([("x", 2), ("t", 1), ("u", 1)]):
    _k = "perm_" + "".join(n for n, _ in _p)
    LAYOUTS[_k] = list(_p)
    PERMS.append(_k)
for _p in itertools.permutations([("x", 1), ("t", 2), ("u", 2)]):
    _k = "perm2_" + "".join(n for n, _ in _p)
    LAYOUTS[_k] = list(_p)
    PERMS.append(_k)


# --------------------------------------------------------------------------
# helpers
# --------------------------------------------------------------------------


def mk_coords(env, tag, layout, batch):
    return {n: env.tensor("%s_%s" % (tag, n), tuple(batch) + (d,)) for n, d in layout}


def separate(env, tensors):
    """distinct, positive cells (see META.assumptions)"""
    cells = []
    for t in tensors:
        cells += SH.elems(env, t)
    if cells:
        env.assume(env.L.ge(cells[0], 1))
    for a, b in zip(cells, cells[1:]):
        env.assume(env.L.ge(b, a + 1))


def dump(p):
    return dict(space=[[n, d] for n, d in p.space.items()], t=p._t, shape=list(p._t.shape))


def _prod(s):
    r = 1
    for x in s:
        r *= x
    return r


def cmp(prefix, got, tab, L):
    """goals: the real Points `got` (dumped) is the table `tab`"""
    want_space = [[n, d] for n, d in tab.vars]
    ok_space = got["space"] == want_space
    yield prefix + "space_names_dims_order", ok_space
    want_shape = list(tab.batch) + [tab.dim] if tab.vars else [0, 0]
    ok_shape = got["shape"] == want_shape
    yield prefix + "shape", ok_shape
    if ok_space and ok_shape and _prod(want_shape):
        code = Table.from_flat(tab.vars, arr(got["t"], got["shape"]).tolist())
        for n in tab.names:
            yield prefix + "cells[%s]" % n, L.And(
                [L.eq(a, b) for a, b in zip(code.blocks[n].reshape(-1), tab.blocks[n].reshape(-1))])


def decide_bits(m):
    """python bools of a bool tensor (decided on this path)"""
    if m.dim() == 1:
        return [bool(m[i]) for i in range(m.shape[0])]
    return [[bool(m[i, j]) for j in range(m.shape[1])] for i in range(m.shape[0])]


def sym_mask(env, nm, shape):
    """bool tensor, every entry symbolic; the source values stay away from the threshold so that witnesses are robust"""
    src = env.tensor(nm, shape)
    for c in SH.elems(env, src):
        env.assume(env.L.Or(env.L.ge(c, 1), env.L.le(c, -1)))
    return src > 0


def draw_rows(env, atoms, tag="r", distinct_idx=False):
    """-> (indexers for the real Points, indexers for the model)"""
    real, model = [], []
    for j, a in enumerate(atoms):
        nm = "%s%d" % (tag, j)
        k = a[0]
        if k == "all":
            real.append(slice(None)); model.append(slice(None))
        elif k == "ell":
            real.append(Ellipsis); model.append(Ellipsis)
        elif k == "int":
            v = int(env.integer(nm, a[1], a[2]))
            real.append(v); model.append(v)
        elif k == "cint":
            real.append(a[1]); model.append(a[1])
        elif k == "slice":
            lo = int(env.integer(nm + "lo", *a[1])) if a[1] else None
            hi = int(env.integer(nm + "hi", *a[2])) if a[2] else None
            s = slice(lo, hi, a[3])
            real.append(s); model.append(s)
        elif k == "mask":
            m = sym_mask(env, nm, a[1])
            real.append(m); model.append(np.array(decide_bits(m), dtype=bool))
        elif k == "idx":
            syms = [env.integer("%s_%d" % (nm, i), 0, a[2]) for i in range(a[1])]
            if distinct_idx:  # assignment through repeated indices is unspecified in torch
                for x, y in itertools.combinations(syms, 2):
                    env.assume(env.L.ne(env.v(x), env.v(y)))
            vs = [int(x) for x in syms]
            real.append(torch.tensor(vs, dtype=torch.long)); model.append(np.array(vs, dtype=np.int64))
        elif k == "ilist":
            real.append(list(a[1])); model.append(np.array(a[1], dtype=np.int64))
        else:
            raise ValueError(a)
    return real, model


def real_key(rows, cols):
    parts = list(rows) + ([cols] if cols is not None else [])
    return parts[0] if len(parts) == 1 else tuple(parts)


def cols_of(layout, what):
    """variable selectors for a layout"""
    names = [n for n, _ in layout]
    if what is None:
        return None
    if what == "name":
        return names[-1] if len(names) > 1 else names[0]
    if what == "name0":
        return names[0]
    if what == "names":  # all, reversed
        return list(names[::-1])
    if what == "names2":  # last and first (or the only one)
        return [names[-1], names[0]] if len(names) > 1 else [names[0]]
    if what == "tnames":
        return tuple(names[1:] + names[:1])
    if what == "inner_swap":  # four and more variables: the outer ones stay, the inner ones are permuted
        return [names[0]] + names[1:-1][::-1] + [names[-1]] if len(names) > 3 else list(names[::-1])
    if what == "skip_one":  # first, last, last but one (a sub-selection that skips a variable)
        return [names[0], names[-1], names[-2]] if len(names) > 3 else list(names[::-1])
    if what == "nslice":  # first .. last (exclusive)
        return slice(names[0], names[-1])
    if what == "nslice_open":
        return slice(names[min(1, len(names) - 1)], None)
    if what == "nslice_rev":  # all variables, reversed, through a slice with a negative step and two open ends
        return slice(None, None, -1)
    if what == "nslice_rev_from":  # from the last variable downwards, open end
        return slice(names[-1], None, -1)
    raise ValueError(what)


def ncols(layout, cols):
    """number of tensor columns a selector stands for"""
    t = Table(layout, {n: np.empty((1, d), dtype=object) for n, d in layout}).select(cols)
    return t.dim


# index templates: name -> (row atoms, column selector kind)
N = 3
T_N = {
    "all,name": ([("all",)], "name"),
    "all,name0": ([("all",)], "name0"),
    "all,names": ([("all",)], "names"),
    "all,names2": ([("all",)], "names2"),
    "all,tnames": ([("all",)], "tnames"),
    "all,inner_swap": ([("all",)], "inner_swap"),
    "slice,skip_one": ([("slice", (0, N), (0, N + 1), None)], "skip_one"),
    "all,nslice": ([("all",)], "nslice"),
    "all,nslice_open": ([("all",)], "nslice_open"),
    "all,nslice_rev": ([("all",)], "nslice_rev"),
    "ell,nslice_rev_from": ([("ell",)], "nslice_rev_from"),
    "slice": ([("slice", (0, N), (0, N + 1), None)], None),
    "slice,name": ([("slice", (0, N), (0, N + 1), None)], "name"),
    "slice,names": ([("slice", (0, N), (0, N + 1), None)], "names"),
    "step": ([("slice", None, None, 2)], None),
    "slice_lo,names2": ([("slice", (0, N), None, None)], "names2"),
    "int": ([("int", 0, N - 1)], None),
    "int,name": ([("int", 0, N - 1)], "name"),
    "int,names": ([("int", 0, N - 1)], "names"),
    "negint": ([("cint", -1)], None),
    "negint,names2": ([("cint", -2)], "names2"),
    "ell": ([("ell",)], None),
    "ell,name": ([("ell",)], "name"),
    "ell,names": ([("ell",)], "names"),
    "int,ell,name": ([("int", 0, N - 1), ("ell",)], "name"),
    "mask": ([("mask", (N,))], None),
    "mask,name": ([("mask", (N,))], "name"),
    "mask,ell,name0": ([("mask", (N,)), ("ell",)], "name0"),
    "mask,names": ([("mask", (N,))], "names"),
    "idx": ([("idx", 2, N - 1)], None),
    "idx,name": ([("idx", 2, N - 1)], "name"),
    "idx,names2": ([("idx", 2, N - 1)], "names2"),
    "ilist3": ([("ilist", [2, 0, 1])], None),
}
QUIRK_N = {
    "ilist2": ([("ilist", [0, 2])], None),
    "int,ell": ([("int", 0, N - 1), ("ell",)], None),
}
A_, B_ = BATCHES["ab"]
T_AB = {
    "all,all,name": ([("all",), ("all",)], "name"),
    "all,all,names": ([("all",), ("all",)], "names"),
    "ell,name": ([("ell",)], "name"),
    "ell,names2": ([("ell",)], "names2"),
    "int": ([("int", 0, A_ - 1)], None),
    "int,int": ([("int", 0, A_ - 1), ("int", 0, B_ - 1)], None),
    "int,int,name": ([("int", 0, A_ - 1), ("int", 0, B_ - 1)], "name"),
    "int,slice": ([("int", 0, A_ - 1), ("slice", (0, B_), (0, B_ + 1), None)], None),
    "slice,int": ([("slice", (0, A_), (0, A_ + 1), None), ("int", 0, B_ - 1)], None),
    "slice,slice,names": ([("slice", (0, 1), (1, A_), None), ("slice", (0, 1), (1, B_), None)], "names"),
    "int,ell": ([("int", 0, A_ - 1), ("ell",)], None),
    "int,ell,name": ([("int", 0, A_ - 1), ("ell",)], "name"),
    "all,int,names": ([("all",), ("int", 0, B_ - 1)], "names"),
    "int,all,names2": ([("int", 0, A_ - 1), ("all",)], "names2"),
    "mask_a": ([("mask", (A_,))], None),
    "mask_ab": ([("mask", (A_, B_))], None),
    "mask_ab,ell,name": ([("mask", (A_, B_)), ("ell",)], "name"),
    "mask_a,ell,name0": ([("mask", (A_,)), ("ell",)], "name0"),
    "mask_a,all,name": ([("mask", (A_,)), ("all",)], "name"),
    "mask_a,all,names": ([("mask", (A_,)), ("all",)], "names"),
}
QUIRK_AB = {
    "mask_ab,name": ([("mask", (A_, B_))], "name"),
}
SET_N = ["all,name", "all,names", "all,tnames", "slice", "slice,names", "int", "int,name", "int,names", "negint", "ell,name",
         "mask", "mask,name", "idx,name", "step"]
SET_AB = ["all,all,name", "all,all,names", "int", "int,int,name", "int,slice", "mask_ab", "mask_a", "ell,names2",
          "mask_ab,ell,name"]


# --------------------------------------------------------------------------
# round trip
# --------------------------------------------------------------------------


def roundtrip_case(bname, lname, via):
    layout, batch = LAYOUTS[lname], BATCHES[bname]
    name = "roundtrip/%s/%s/%s" % (bname, lname, via)

    def body(env):
        coords = mk_coords(env, "c", layout, batch)
        separate(env, coords.values())
        if via == "coords":
            user = dict(coords)
            p = Points.from_coordinates(user)
            user_ok = list(user.keys()) == [n for n, _ in layout] and all(user[n] is coords[n] for n in user)
        else:
            p = Points(torch.cat([coords[n] for n, _ in layout], dim=-1), Space(dict(layout)))
            user_ok = True
        back = p.coordinates
        again = Points.from_coordinates(dict(back))
        return dict(coords=coords, p=dump(p), back_keys=list(back.keys()), back=back, again=dump(again), n=int(len(p)),
                    dim=p.dim, variables=sorted(p.variables), isempty=bool(p.isempty), bshape=list(p.shape), user_ok=user_ok)

    def goals(o, L, env):
        tab = Table.from_coords(o["coords"], order=[n for n, _ in layout])
        yield from cmp("built/", o["p"], tab, L)
        yield "coordinates_keys_in_space_order", o["back_keys"] == tab.names
        for n in tab.names:
            if n in o["back"]:
                yield "coordinates_round_trip[%s]" % n, Table([(n, dict(layout)[n])], {n: arr(o["back"][n])}).equal(tab.select(n), L)
        yield from cmp("rebuilt/", o["again"], tab, L)
        yield "len_is_number_of_points", o["n"] == _prod(batch)
        yield "dim", o["dim"] == tab.dim
        yield "variables", o["variables"] == sorted(tab.names)
        yield "not_empty", o["isempty"] is False
        yield "batch_shape", o["bshape"] == list(batch)
        yield "user_dict_untouched", o["user_ok"]

    return Case(name, body, goals, family="roundtrip", params=dict(batch=bname, layout=lname, via=via), **BIG)


# --------------------------------------------------------------------------
# __getitem__ / __setitem__
# --------------------------------------------------------------------------


def getitem_case(bname, lname, tname, spec, quirk=False):
    layout, batch = LAYOUTS[lname], BATCHES[bname]
    atoms, ckind = spec
    cols = cols_of(layout, ckind)
    name = "%s/%s/%s/%s" % ("getitem_quirk" if quirk else "getitem", bname, lname, tname)

    def body(env):
        coords = mk_coords(env, "c", layout, batch)
        separate(env, coords.values())
        p = Points.from_coordinates(dict(coords))
        real, model = draw_rows(env, atoms)
        out = p[real_key(real, cols)]
        return dict(coords=coords, out=dump(out), mrows=model, src=dump(p))

    def goals(o, L, env):
        tab = Table.from_coords(o["coords"], order=[n for n, _ in layout])
        want = tab.rows(o["mrows"]).select(cols)
        yield from cmp("", o["out"], want, L)
        yield from cmp("source_untouched/", o["src"], tab, L)

    return Case(name, body, goals, family=("getitem_quirk/" if quirk else "getitem/") + bname + "/" + tname,
                params=dict(batch=bname, layout=lname, template=tname),
                allowed_exc=(TypeError, IndexError) if quirk else (), **BIG)


def iter_case(bname, lname):
    layout, batch = LAYOUTS[lname], BATCHES[bname]
    name = "iter/%s/%s" % (bname, lname)

    def body(env):
        coords = mk_coords(env, "c", layout, batch)
        separate(env, coords.values())
        p = Points.from_coordinates(dict(coords))
        return dict(coords=coords, items=[dump(q) for q in p], src=dump(p))

    def goals(o, L, env):
        tab = Table.from_coords(o["coords"], order=[n for n, _ in layout])
        yield "one_item_per_entry_of_first_batch_axis", len(o["items"]) == batch[0]
        for i, got in enumerate(o["items"]):
            yield from cmp("item%d/" % i, got, tab.rows([i]), L)
        yield from cmp("source_untouched/", o["src"], tab, L)

    return Case(name, body, goals, family="iter", params=dict(batch=bname, layout=lname), **BIG)


def empty_case():
    def body(env):
        e = Points.empty()
        f = Points.from_coordinates({})
        c = env.tensor("c_x", (2, 1))
        p = Points.from_coordinates({"x": c})
        return dict(e=dump(e), f=dump(f), e_empty=bool(e.isempty), f_empty=bool(f.isempty), n=int(len(e)), dim=e.dim,
                    coords=list(e.coordinates.keys()), cx={"x": c}, ee=dump(e | e), pe=dump(p | e), ep=dump(e.join(p)),
                    eq=bool(e == f), ne=bool(e == p))

    def goals(o, L, env):
        for k in ("e", "f", "ee"):
            yield k + "_is_the_empty_table", o[k]["space"] == [] and o[k]["shape"] == [0, 0]
        yield "isempty", o["e_empty"] and o["f_empty"]
        yield "len_dim", o["n"] == 0 and o["dim"] == 0 and o["coords"] == []
        tab = Table.from_coords(o["cx"])
        yield from cmp("rows_or_empty/", o["pe"], tab, L)
        yield from cmp("empty_join_p/", o["ep"], tab, L)
        yield "empty_equals_empty", o["eq"] is True
        yield "empty_differs_from_nonempty", o["ne"] is False

    return Case("empty", body, goals, family="empty", **BIG)


def setitem_case(bname, lname, tname, spec):
    layout, batch = LAYOUTS[lname], BATCHES[bname]
    atoms, ckind = spec
    cols = cols_of(layout, ckind)
    name = "setitem/%s/%s/%s" % (bname, lname, tname)

    def body(env):
        coords = mk_coords(env, "c", layout, batch)
        p = Points.from_coordinates(dict(coords))
        real, model = draw_rows(env, atoms, distinct_idx=True)
        key = real_key(real, cols)
        # the value: a Points over the selected variables with the batch shape of the selection
        sel_layout = Table(layout, {n: np.empty((1, d), dtype=object) for n, d in layout}).select(cols).vars
        sel_batch = tuple(p[key]._t.shape[:-1])
        qc = mk_coords(env, "q", sel_layout, sel_batch)
        separate(env, list(coords.values()) + list(qc.values()))
        q = Points.from_coordinates(dict(qc))
        before = {n: SH.elems(env, t) for n, t in coords.items()}
        p[real_key(real, cols)] = q
        after = {n: SH.elems(env, t) for n, t in coords.items()}
        return dict(coords=before, cshape={n: list(t.shape) for n, t in coords.items()}, after=after, qc=qc, p=dump(p),
                    q=dump(q), mrows=model, sel_layout=[list(v) for v in sel_layout])

    def goals(o, L, env):
        tab = Table([(n, d) for n, d in layout], {n: arr(o["coords"][n]).reshape(o["cshape"][n]) for n, _ in layout})
        qtab = Table.from_coords(o["qc"], order=[n for n, _ in o["sel_layout"]]) if _prod(o["q"]["shape"]) else None
        if qtab is not None:
            want = tab.assign(o["mrows"], cols, qtab)
            yield from cmp("target/", o["p"], want, L)
            yield from cmp("value_untouched/", o["q"], qtab, L)
        else:
            yield from cmp("target/", o["p"], tab, L)
        for n, _ in layout:
            yield "user_tensor_not_modified[%s]" % n, L.And([L.eq(a, b) for a, b in zip(o["coords"][n], o["after"][n])])

    return Case(name, body, goals, family="setitem/" + bname + "/" + tname,
                params=dict(batch=bname, layout=lname, template=tname), **BIG)


# --------------------------------------------------------------------------
# join / joined / | / repeat / unsqueeze / arithmetic / ==
# --------------------------------------------------------------------------

JOIN_B = {"w1": [("w", 1)], "v2w1": [("v", 2), ("w", 1)]}
JOIN_C = [("z", 1)]


def join_case(bname, lname, jname, how):
    la, lb, batch = LAYOUTS[lname], JOIN_B[jname], BATCHES[bname]
    name = "join/%s/%s+%s/%s" % (bname, lname, jname, how)

    def body(env):
        ca, cb, cc = mk_coords(env, "a", la, batch), mk_coords(env, "b", lb, batch), mk_coords(env, "c", JOIN_C, batch)
        separate(env, list(ca.values()) + list(cb.values()) + list(cc.values()))
        p, q, r = (Points.from_coordinates(dict(c)) for c in (ca, cb, cc))
        e = Points.empty()
        if how == "join":
            out = p.join(q)
        elif how == "joined":
            out = Points.joined(p, q)
        elif how == "joined3":
            out = Points.joined(p, q, r)
        elif how == "assoc_left":
            out = p.join(q).join(r)
        elif how == "assoc_right":
            out = p.join(q.join(r))
        elif how == "join_empty_right":
            out = p.join(e).join(q)
        elif how == "join_empty_left":
            out = e.join(p).join(q)
        elif how == "joined_empty_middle":
            out = Points.joined(p, e, q)
        elif how == "joined_empty_first":
            out = Points.joined(e, p, q)
        else:
            raise ValueError(how)
        return dict(ca=ca, cb=cb, cc=cc, out=dump(out), p=dump(p), q=dump(q))

    def goals(o, L, env):
        ta = Table.from_coords(o["ca"], order=[n for n, _ in la])
        tb = Table.from_coords(o["cb"], order=[n for n, _ in lb])
        tc = Table.from_coords(o["cc"], order=[n for n, _ in JOIN_C])
        want = ta.join(tb)
        if how in ("joined3", "assoc_left", "assoc_right"):
            want = want.join(tc)
        yield from cmp("", o["out"], want, L)
        yield from cmp("left_untouched/", o["p"], ta, L)
        yield from cmp("right_untouched/", o["q"], tb, L)

    return Case(name, body, goals, family="join/" + how, params=dict(batch=bname, layout=lname, other=jname, how=how), **BIG)


def masked_join_case(lname, jname, how):
    """selection (possibly of ZERO rows) commutes with join / row concatenation: p[m].join(q[m]) == p.join(q)[m]"""
    la, lb, batch = LAYOUTS[lname], JOIN_B[jname], BATCHES["n"]
    name = "masked_join/%s+%s/%s" % (lname, jname, how)

    def body(env):
        ca, cb = mk_coords(env, "a", la, batch), mk_coords(env, "b", lb, batch)
        separate(env, list(ca.values()) + list(cb.values()))
        p, q = Points.from_coordinates(dict(ca)), Points.from_coordinates(dict(cb))
        m = sym_mask(env, "m", batch)
        bits = decide_bits(m)
        if how == "join":
            a, b = p[m].join(q[m]), p.join(q)[m]
        elif how == "joined":
            a, b = Points.joined(p[m], q[m]), Points.joined(p, q)[m]
        elif how == "or":
            p2 = Points.from_coordinates(dict(mk_coords(env, "c", la, batch)))
            a, b = (p[m] | p2), None
            return dict(a=dump(a), b=None, bits=bits, p2=dump(p2), pm=dump(p[m]))
        else:
            raise ValueError(how)
        return dict(a=dump(a), b=dump(b), bits=bits)

    def goals(o, L, env):
        k = sum(1 for x in o["bits"] if x)
        if how == "or":
            # k selected rows of p followed by all rows of p2, in p's space (also when k == 0)
            yield "space_names_dims_order", o["a"]["space"] == [[n, d] for n, d in la]
            yield "row_count", o["a"]["shape"][0] == k + batch[0]
            return
        want_space = [[n, d] for n, d in la + lb]
        yield "space_names_dims_order[select_then_join]", o["a"]["space"] == want_space
        yield "space_names_dims_order[join_then_select]", o["b"]["space"] == want_space
        yield "same_shape", o["a"]["shape"] == o["b"]["shape"]
        yield "row_count", o["a"]["shape"][0] == k
        if o["a"]["shape"] == o["b"]["shape"] and k:
            fa = arr(o["a"]["t"], o["a"]["shape"]).reshape(-1)
            fb = arr(o["b"]["t"], o["b"]["shape"]).reshape(-1)
            yield "same_cells", L.And([L.eq(x, y) for x, y in zip(fa, fb)])

    return Case(name, body, goals, family="masked_join/" + how, params=dict(layout=lname, other=jname, how=how), **BIG)


def vcat_case(bname, lname, how):
    layout, batch = LAYOUTS[lname], BATCHES[bname]
    b2 = (2,) + tuple(batch[1:])
    name = "vcat/%s/%s/%s" % (bname, lname, how)
    perm = how == "permuted_space"

    def body(env):
        ca = mk_coords(env, "a", layout, batch)
        lay2 = layout[::-1] if perm else layout
        cb = mk_coords(env, "b", lay2, b2)
        separate(env, list(ca.values()) + list(cb.values()))
        p, q = Points.from_coordinates(dict(ca)), Points.from_coordinates(dict(cb))
        e = Points.empty()
        if how in ("or", "permuted_space"):
            out = p | q
        elif how == "or3":
            out = (p | q) | p
        elif how == "or_empty_right":
            out = (p | e) | q
        elif how == "or_empty_left":
            out = (e | p) | q
        else:
            raise ValueError(how)
        return dict(ca=ca, cb=cb, out=dump(out), p=dump(p), q=dump(q))

    def goals(o, L, env):
        ta = Table.from_coords(o["ca"], order=[n for n, _ in layout])
        tb = Table.from_coords(o["cb"], order=[n for n, _ in (layout[::-1] if perm else layout)])
        # rows are appended; the columns of the second operand go to the variables of the same NAME
        want = ta.vcat(tb.select([n for n, _ in layout]))
        if how == "or3":
            want = want.vcat(ta)
        yield from cmp("", o["out"], want, L)
        yield from cmp("left_untouched/", o["p"], ta, L)
        yield from cmp("right_untouched/", o["q"], tb, L)

    # spaces that differ in order may be rejected (AssertionError); if accepted, names must still be respected
    return Case(name, body, goals, family="vcat/" + how, params=dict(batch=bname, layout=lname, how=how),
                allowed_exc=(AssertionError,) if (perm and len(layout) > 1) else (), **BIG)


def repeat_case(bname, lname, nrep):
    layout, batch = LAYOUTS[lname], BATCHES[bname]
    name = "repeat/%s/%s/%dcounts" % (bname, lname, nrep)

    def body(env):
        ca = mk_coords(env, "a", layout, batch)
        separate(env, ca.values())
        p = Points.from_coordinates(dict(ca))
        ks = [int(env.integer("k%d" % i, 1, 3 if nrep == 1 else 2)) for i in range(nrep)]
        out = p.repeat(*ks)
        return dict(ca=ca, ks=ks, out=dump(out), p=dump(p))

    def goals(o, L, env):
        ta = Table.from_coords(o["ca"], order=[n for n, _ in layout])
        yield from cmp("", o["out"], ta.repeat(*o["ks"]), L)
        yield from cmp("source_untouched/", o["p"], ta, L)

    return Case(name, body, goals, family="repeat", params=dict(batch=bname, layout=lname, counts=nrep), **BIG)


def unsqueeze_case(bname, lname, dim):
    layout, batch = LAYOUTS[lname], BATCHES[bname]
    name = "unsqueeze/%s/%s/dim%d" % (bname, lname, dim)

    def body(env):
        ca = mk_coords(env, "a", layout, batch)
        separate(env, ca.values())
        p = Points.from_coordinates(dict(ca))
        out = p.unsqueeze(dim)
        return dict(ca=ca, out=dump(out), p=dump(p))

    def goals(o, L, env):
        ta = Table.from_coords(o["ca"], order=[n for n, _ in layout])
        yield from cmp("", o["out"], ta.unsqueeze(dim), L)
        yield from cmp("source_untouched/", o["p"], ta, L)

    return Case(name, body, goals, family="unsqueeze", params=dict(batch=bname, layout=lname, dim=dim), **BIG)


ARITH = {"add": operator.add, "sub": operator.sub, "mul": operator.mul, "div": operator.truediv}


def arith_case(bname, lname, op, perm=False):
    layout, batch = LAYOUTS[lname], BATCHES[bname]
    name = "arith/%s/%s/%s%s" % (bname, lname, op, "/permuted_space" if perm else "")

    def body(env):
        ca = mk_coords(env, "a", layout, batch)
        cb = mk_coords(env, "b", layout[::-1] if perm else layout, batch)
        separate(env, list(ca.values()) + list(cb.values()))
        p, q = Points.from_coordinates(dict(ca)), Points.from_coordinates(dict(cb))
        out = ARITH[op](p, q)
        return dict(ca=ca, cb=cb, out=dump(out), p=dump(p), q=dump(q))

    def goals(o, L, env):
        ta = Table.from_coords(o["ca"], order=[n for n, _ in layout])
        tb = Table.from_coords(o["cb"], order=[n for n, _ in (layout[::-1] if perm else layout)])
        yield from cmp("", o["out"], ta.arith(ARITH[op], tb), L)
        yield from cmp("left_untouched/", o["p"], ta, L)
        yield from cmp("right_untouched/", o["q"], tb, L)

    return Case(name, body, goals, family="arith/" + op + ("/permuted_space" if perm else ""),
                params=dict(batch=bname, layout=lname, op=op, permuted=perm),
                allowed_exc=(AssertionError,) if (perm and len(layout) > 1) else (), **BIG)


def eq_case(bname, lname, how):
    layout, batch = LAYOUTS[lname], BATCHES[bname]
    name = "eq/%s/%s/%s" % (bname, lname, how)

    def body(env):
        ca = mk_coords(env, "a", layout, batch)
        p = Points.from_coordinates(dict(ca))
        if how == "same_object_data":
            q = Points(p._t, Space(dict(layout)))
            cb = ca
            lay2 = layout
        elif how == "same_data_permuted_space":
            # the very same tensor, the variables of the space in another order (total dimension unchanged)
            lay2 = layout[1:] + layout[:1]
            q = Points(p._t, Space(dict(lay2)))
            cb = None
        elif how == "other_data":
            cb = mk_coords(env, "b", layout, batch)
            q = Points.from_coordinates(dict(cb))
            lay2 = layout
        elif how == "other_data_permuted_space":
            lay2 = layout[::-1]
            cb = mk_coords(env, "b", lay2, batch)
            q = Points.from_coordinates(dict(cb))
        elif how == "other_data_fewer_rows":
            lay2 = layout
            cb = mk_coords(env, "b", lay2, (batch[0] - 1,) + tuple(batch[1:]))
            q = Points.from_coordinates(dict(cb))
        else:
            raise ValueError(how)
        res = p == q
        res2 = q == p
        return dict(ca=ca, cb=cb, res=bool(res), res2=bool(res2), p=dump(p), q=dump(q), lay2=[list(v) for v in lay2])

    def goals(o, L, env):
        ta = Table.from_coords(o["ca"], order=[n for n, _ in layout])
        lay2 = [(n, d) for n, d in o["lay2"]]
        if o["cb"] is None:
            tb = Table.from_flat(lay2, ta.flat())
        else:
            tb = Table.from_coords(o["cb"], order=[n for n, _ in lay2])
        want = ta.equal(tb, L)
        yield "equal_iff_same_variables_same_order_same_cells", L.Iff(o["res"], want)
        yield "symmetric", L.Iff(o["res2"], want)
        yield from cmp("left_untouched/", o["p"], ta, L)

    return Case(name, body, goals, family="eq/" + how, params=dict(batch=bname, layout=lname, how=how), **BIG)


# --------------------------------------------------------------------------
# Space: ordered multiset of names; every dimension a symbolic integer
# --------------------------------------------------------------------------


def _mk_space(env, tag, names, lo=1, hi=3):
    dims = [(n, env.integer("%s_%s" % (tag, n), lo, hi)) for n in names]
    return Space(dict(dims)), [[n, env.v(d)] for n, d in dims]


def dump_space(s):
    return [[k, v] for k, v in s.items()]


def _ms(items):
    return MSpace([(k, d) for k, d in items])


def _space_eq_goals(prefix, got, want, L):
    """got: dumped real Space; want: MSpace"""
    yield prefix + "names_in_order", [k for k, _ in got] == want.names
    if [k for k, _ in got] == want.names:
        for (k, d), (_, e) in zip(got, want.items):
            yield prefix + "dim[%s]" % k, L.eq(d, e)


def space_product_case(na, nb, nc=None):
    name = "space/product/%s*%s%s" % ("".join(na), "".join(nb), "*" + "".join(nc) if nc else "")

    def body(env):
        A, da = _mk_space(env, "A", na)
        B, db = _mk_space(env, "B", nb)
        before = (dump_space(A), dump_space(B))
        o = dict(da=da, db=db)
        P = A * B
        o["P"] = dump_space(P)
        o["P_dim"] = P.dim
        o["A_dim"], o["B_dim"] = A.dim, B.dim
        o["is_space"] = type(P) is Space
        o["A_in_P"], o["B_in_P"] = bool(A in P), bool(B in P)
        o["P_in_A"] = bool(P in A)
        o["variables"] = sorted(P.variables)
        o["sub_A"] = dump_space(P[list(na)])
        if nc:
            C, dc = _mk_space(env, "C", nc)
            o["dc"] = dc
            o["left"] = dump_space((A * B) * C)
            o["right"] = dump_space(A * (B * C))
        o["factors_untouched"] = [dump_space(A), dump_space(B)]
        o["before"] = list(before)
        return o

    def goals(o, L, env):
        A, B = _ms(o["da"]), _ms(o["db"])
        P = A.product(B)
        yield "product_is_a_space", o["is_space"]
        yield from _space_eq_goals("product/", o["P"], P, L)
        yield "dim_of_product_is_sum_of_dims", L.eq(o["P_dim"], A.dim() + B.dim())
        yield "dim_is_sum_of_its_dimensions", L.eq(o["P_dim"], P.dim())
        yield "left_factor_is_subspace", L.Iff(o["A_in_P"], P.contains(A, L))
        yield "left_factor_is_subspace_holds", o["A_in_P"] is True
        yield "right_factor_is_subspace_holds", o["B_in_P"] is True
        yield "product_in_factor_iff_nothing_added", L.Iff(o["P_in_A"], A.contains(P, L))
        yield "variables", o["variables"] == sorted(P.names)
        yield from _space_eq_goals("getitem_names_of_left_factor/", o["sub_A"], P.select(list(na)), L)
        if nc:
            C = _ms(o["dc"])
            yield from _space_eq_goals("assoc_left/", o["left"], A.product(B).product(C), L)
            yield from _space_eq_goals("assoc_right/", o["right"], A.product(B.product(C)), L)
        for got, want in zip(o["factors_untouched"], (A, B)):
            yield from _space_eq_goals("factor_untouched/", got, want, L)

    return Case(name, body, goals, family="space/product", params=dict(a=na, b=nb, c=nc), **BIG)


def space_contains_case(na, nb):
    name = "space/contains/%s_in_%s" % ("".join(nb), "".join(na))

    def body(env):
        A, da = _mk_space(env, "A", na)
        B, db = _mk_space(env, "B", nb)
        res = B in A
        return dict(da=da, db=db, res=bool(res), strs=[bool(n in A) for n in nb], other=bool(3 in A),
                    after=[dump_space(A), dump_space(B)])

    def goals(o, L, env):
        A, B = _ms(o["da"]), _ms(o["db"])
        yield "subspace_iff_every_variable_fits", L.Iff(o["res"], A.contains(B, L))
        yield "name_membership", o["strs"] == [n in na for n in nb]
        yield "non_space_is_not_contained", o["other"] is False
        for got, want in zip(o["after"], (A, B)):
            yield from _space_eq_goals("operand_untouched/", got, want, L)

    return Case(name, body, goals, family="space/contains", params=dict(a=na, b=nb), **BIG)


def space_getitem_case(na, sel):
    def show(s):
        if isinstance(s, slice):
            return "%s:%s%s" % (s.start or "", s.stop or "", ":%d" % s.step if s.step else "")
        return "".join(s) if not isinstance(s, str) else "'%s'" % s

    name = "space/getitem/%s[%s%s]" % ("".join(na), "t" if isinstance(sel, tuple) else "", show(sel))

    def body(env):
        A, da = _mk_space(env, "A", na)
        S = A[sel]
        if isinstance(sel, str):
            return dict(da=da, single=S, after=dump_space(A))
        return dict(da=da, S=dump_space(S), S_dim=S.dim, is_space=type(S) is Space, S_in_A=bool(S in A), after=dump_space(A))

    def goals(o, L, env):
        A = _ms(o["da"])
        if isinstance(sel, str):
            yield "dimension_of_variable", L.eq(o["single"], A.get(sel))
        else:
            want = A.select(sel if isinstance(sel, slice) else list(sel))
            yield "result_is_a_space", o["is_space"]
            yield from _space_eq_goals("", o["S"], want, L)
            yield "dim", L.eq(o["S_dim"], want.dim())
            yield "selection_is_subspace", o["S_in_A"] is True
        yield from _space_eq_goals("operand_untouched/", o["after"], A, L)

    return Case(name, body, goals, family="space/getitem", params=dict(a=na, sel=show(sel)), **BIG)


def space_eq_case(na, nb):
    name = "space/eq/%s==%s" % ("".join(na), "".join(nb))

    def body(env):
        A, da = _mk_space(env, "A", na)
        B, db = _mk_space(env, "B", nb)
        return dict(da=da, db=db, eq=bool(A == B), ne=bool(A != B), eq2=bool(B == A))

    def goals(o, L, env):
        A, B = _ms(o["da"]), _ms(o["db"])
        want = A.equal(B, L)
        yield "equal_iff_same_names_same_order_same_dims", L.Iff(o["eq"], want)
        yield "ne_is_not_eq", L.Iff(o["ne"], L.Not(want))
        yield "symmetric", L.Iff(o["eq2"], want)

    return Case(name, body, goals, family="space/eq", params=dict(a=na, b=nb), **BIG)


# --------------------------------------------------------------------------
# operation sequences (rank-generic operations)
# --------------------------------------------------------------------------

SEQ_OPS = ("sel", "sl", "mk", "rep", "unsq", "join", "vcat", "add", "int", "set")


def _seq_real(env, p, op, i, st):
    """apply op number i to the real Points p -> (new p, record for the model)"""
    names = list(p.space.keys())
    n0 = p._t.shape[0]
    if op == "sel":
        cols = names[::-1] if len(names) > 1 else names
        cols = cols[: max(1, len(cols) - 1)] if len(cols) > 2 else cols
        return p[..., list(cols)], ("sel", list(cols))
    if op == "sl":
        lo = int(env.integer("s%dlo" % i, 0, 1))
        hi = int(env.integer("s%dhi" % i, 1, max(1, min(n0, 2))))
        return p[lo:hi], ("rows", [slice(lo, hi)])
    if op == "mk":
        k = min(n0, 2)  # the first two entries symbolic, the rest True
        m = sym_mask(env, "m%d" % i, (k,))
        bits = decide_bits(m) + [True] * (n0 - k)
        if n0 > k:
            m = torch.cat([m, torch.ones(n0 - k, dtype=torch.bool)])
        return p[m], ("rows", [np.array(bits, dtype=bool)])
    if op == "rep":
        return p.repeat(2), ("rep", 2)
    if op == "unsq":
        return p.unsqueeze(0), ("unsq", 0)
    if op == "join":
        nm = "j%d" % i
        c = env.tensor(nm, tuple(p._t.shape[:-1]) + (1,))
        st["extra"][nm] = c
        return p.join(Points.from_coordinates({nm: c})), ("join", nm)
    if op == "vcat":
        return p | p, ("vcat",)
    if op == "add":
        return p + p, ("add",)
    if op == "int":
        v = int(env.integer("i%d" % i, 0, min(n0 - 1, 1)))
        return p[v], ("rows", [v])
    if op == "set":
        # overwrite the last variable of the first row(s) with fresh symbols
        nm = "w%d" % i
        d = p.space[names[-1]]
        tgt = p[0, ..., names[-1]] if p._t.dim() > 2 else p[0, names[-1]]
        c = env.tensor(nm, tuple(tgt._t.shape[:-1]) + (d,))
        st["extra"][nm] = c
        q = Points(c, Space({names[-1]: d}))
        p = Points(p._t.clone(), p.space)  # do not write through to earlier stages
        if p._t.dim() > 2:
            p[0, ..., names[-1]] = q
        else:
            p[0, names[-1]] = q
        return p, ("set", names[-1], nm)
    raise ValueError(op)


def _seq_model(tab, rec, extra):
    k = rec[0]
    if k == "sel":
        return tab.select(rec[1])
    if k == "rows":
        return tab.rows(rec[1])
    if k == "rep":
        return tab.repeat(rec[1])
    if k == "unsq":
        return tab.unsqueeze(rec[1])
    if k == "join":
        return tab.join(Table.from_coords({rec[1]: extra[rec[1]]}))
    if k == "vcat":
        return tab.vcat(tab)
    if k == "add":
        return tab.arith(operator.add, tab)
    if k == "set":
        q = Table.from_coords({rec[1]: extra[rec[2]]})
        return tab.assign([0], rec[1], q)
    raise ValueError(rec)


def seq_case(lname, seq):
    layout = LAYOUTS[lname]
    batch = (2,)
    name = "seq/%s/%s" % (lname, "-".join(seq))

    def body(env):
        ca = mk_coords(env, "a", layout, batch)
        st = dict(extra={})
        p = Points.from_coordinates(dict(ca))
        recs, stages = [], []
        for i, op in enumerate(seq):
            if p._t.shape[0] == 0:
                break
            p, rec = _seq_real(env, p, op, i, st)
            recs.append(list(rec))
            stages.append(dump(p))
        separate(env, list(ca.values()) + list(st["extra"].values()))
        return dict(ca=ca, extra=st["extra"], recs=recs, stages=stages)

    def goals(o, L, env):
        tab = Table.from_coords(o["ca"], order=[n for n, _ in layout])
        for i, (rec, got) in enumerate(zip(o["recs"], o["stages"])):
            tab = _seq_model(tab, rec, o["extra"])
            yield from cmp("after_step%d_%s/" % (i, seq[i]), got, tab, L)

    return Case(name, body, goals, family="seq/len%d" % len(seq), params=dict(layout=lname, seq=list(seq)), **BIG)


def _coords_dump(p):
    """the table as p.coordinates presents it (column blocks by name, concatenated in space order)"""
    co = p.coordinates
    names = list(p.space.keys())
    t = torch.cat([co[n] for n in names], dim=-1) if names else p._t
    return dict(space=[[n, co[n].shape[-1]] for n in names], t=t, shape=list(t.shape))


def alias_case(lname, how):
    """histories in which two views of one table could drift apart:
    read_to_assign_read   coordinates read, p.to(float64), a cell block assigned, coordinates read again
    repeat_ones_assign    q = p.repeat(1[,1]); assignment into q; p is still the old table, q the assigned one"""
    layout = LAYOUTS[lname]
    batch = (2,) if how != "repeat_ones_assign_ab" else (2, 2)
    name = "alias/%s/%s" % (lname, how)
    last = layout[-1][0]

    def body(env):
        ca = mk_coords(env, "a", layout, batch)
        w = env.tensor("w", tuple(batch[1:]) + (dict(layout)[last],))
        separate(env, list(ca.values()) + [w])
        p = Points.from_coordinates(dict(ca))
        out = dict(ca=ca, w=w)
        if how == "read_to_assign_read":
            first = _coords_dump(p)
            p.to(torch.float64 if p._t.dtype == torch.float32 else torch.float32)  # a real dtype change in both run modes
            mid = _coords_dump(p)
            p[0, last] = Points(w.reshape(1, -1) if len(batch) == 1 else w, Space({last: dict(layout)[last]}))
            out.update(first=first, mid=mid, tensor_view=dump(p), coords_view=_coords_dump(p),
                       roundtrip=bool(Points.from_coordinates(p.coordinates) == p))
        else:
            q = p.repeat(*([1] * len(batch)))
            if len(batch) == 1:
                q[0, last] = Points(w.reshape(1, -1), Space({last: dict(layout)[last]}))
            else:
                q[0, ..., last] = Points(w, Space({last: dict(layout)[last]}))
            out.update(p_view=dump(p), q_view=dump(q), p_coords=_coords_dump(p))
        return out

    def goals(o, L, env):
        tab = Table.from_coords(o["ca"], order=[n for n, _ in layout])
        assigned = tab.assign([0], last, Table.from_coords({last: o["w"]}))
        if how == "read_to_assign_read":
            yield from cmp("coordinates_first_read/", o["first"], tab, L)
            yield from cmp("coordinates_after_to/", o["mid"], tab, L)
            yield from cmp("tensor_after_assignment/", o["tensor_view"], assigned, L)
            yield from cmp("coordinates_after_assignment/", o["coords_view"], assigned, L)
            yield "from_coordinates_round_trip", o["roundtrip"]
        else:
            yield from cmp("source_of_repeat_unchanged/", o["p_view"], tab, L)
            yield from cmp("source_coordinates_unchanged/", o["p_coords"], tab, L)
            yield from cmp("repeated_table_assigned/", o["q_view"], assigned, L)

    return Case(name, body, goals, family="alias/" + how, params=dict(layout=lname, how=how), **BIG)


def mixed_dtype_case(lname):
    """from_coordinates with an INTEGER first variable (an index / flag column built with arange) followed by real-valued
    variables: the table is real-valued (type promotion as in torch.cat), the real columns come back unchanged"""
    layout = LAYOUTS[lname]
    name = "roundtrip/n/%s/integer_first_variable" % lname

    def body(env):
        ca = mk_coords(env, "a", layout, (2,))
        # real cells that are NOT integers, so that a cast to the first variable's dtype would show
        for t in ca.values():
            for c in SH.elems(env, t):
                env.assume(env.L.And(env.L.gt(c, 0), env.L.lt(c, 1)))
        idx = torch.arange(2).reshape(2, 1)
        p = Points.from_coordinates({"k": idx, **ca})
        co = p.coordinates
        return dict(ca=ca, back={n: co[n] for n, _ in layout}, k=co["k"], floating=bool(p._t.dtype.is_floating_point),
                    space=[[n, d] for n, d in p.space.items()])

    def goals(o, L, env):
        yield "space", o["space"] == [["k", 1]] + [[n, d] for n, d in layout]
        yield "table_is_real_valued", o["floating"]
        yield "index_column", L.And(L.eq(arr(o["k"]).reshape(-1)[0], 0), L.eq(arr(o["k"]).reshape(-1)[1], 1))
        for n, _ in layout:
            yield "real_column_unchanged[%s]" % n, L.And([L.eq(a, b) for a, b in zip(arr(o["back"][n]).reshape(-1), arr(o["ca"][n]).reshape(-1))])

    return Case(name, body, goals, family="roundtrip/mixed_dtype", params=dict(layout=lname), **BIG)


# --------------------------------------------------------------------------


def cases(tier):
    thorough = tier == "thorough"
    cs = []
    lay_main = ["x2t1u1", "t1x2", "u2x1t2"] + (["t1u1x2", "x1"] if thorough else [])
    lay_small = ["t1x2"] + (["x2t1u1", "x1"] if thorough else [])
    for b in BATCHES:
        for l in lay_main + (["x1"] if not thorough else []):
            for via in ("coords", "tensor"):
                cs.append(roundtrip_case(b, l, via))
    # ---- getitem
    for l in lay_main:
        for t, spec in T_N.items():
            if len(LAYOUTS[l]) == 1 and spec[1] == "nslice":
                continue  # would select no variable at all
            cs.append(getitem_case("n", l, t, spec))
        for t, spec in QUIRK_N.items():
            cs.append(getitem_case("n", l, t, spec, quirk=True))
    for t in ("all,inner_swap", "slice,skip_one", "all,names", "mask,names"):  # four variables
        cs.append(getitem_case("n", "a1b2c1d1", t, T_N[t]))
    cs.append(setitem_case("n", "a1b2c1d1", "all,inner_swap", T_N["all,inner_swap"]))
    for b in BATCHES:
        for l in lay_main:
            cs.append(iter_case(b, l))
    cs.append(empty_case())
    if thorough:  # every order of three variables for the central selectors
        for l in PERMS:
            for t in ("all,names", "all,tnames", "all,names2", "slice,names", "mask,name", "int,names", "all,nslice"):
                cs.append(getitem_case("n", l, t, T_N[t]))
            for t in ("all,all,names", "ell,names2", "mask_ab,ell,name"):
                cs.append(getitem_case("ab", l, t, T_AB[t]))
            for t in ("all,names", "slice,names", "mask,name"):
                cs.append(setitem_case("n", l, t, T_N[t]))
            cs.append(roundtrip_case("n", l, "coords"))
    for l in (lay_main if thorough else ["x2t1u1", "t1x2"]):
        for t, spec in T_AB.items():
            cs.append(getitem_case("ab", l, t, spec))
        for t, spec in QUIRK_AB.items():
            cs.append(getitem_case("ab", l, t, spec, quirk=True))
    # ---- setitem
    for l in (lay_main if thorough else ["x2t1u1"]):
        for t in SET_N:
            cs.append(setitem_case("n", l, t, T_N[t]))
    for l in (lay_small if thorough else ["t1x2"]):
        for t in SET_AB:
            cs.append(setitem_case("ab", l, t, T_AB[t]))
    # ---- join / vcat
    hows = ["join", "joined", "joined3", "assoc_left", "assoc_right", "join_empty_right", "join_empty_left",
            "joined_empty_middle", "joined_empty_first"]
    for b in BATCHES:
        for l in (lay_main if thorough else ["t1x2"]):
            for j in (JOIN_B if thorough else ["v2w1"]):
                for how in hows:
                    cs.append(join_case(b, l, j, how))
    for how in ("join", "joined", "or"):
        for l in (lay_main if thorough else ["t1x2"]):
            cs.append(masked_join_case(l, "v2w1", how))
    for b in BATCHES:
        for l in (lay_main if thorough else ["x2t1u1"]):
            for how in ("or", "or3", "or_empty_right", "or_empty_left", "permuted_space"):
                cs.append(vcat_case(b, l, how))
    # ---- repeat / unsqueeze / arithmetic / eq
    for l in (lay_main if thorough else ["x2t1u1"]):
        cs.append(repeat_case("n", l, 1))
        cs.append(repeat_case("ab", l, 1))
        cs.append(repeat_case("ab", l, 2))
        for b, batch in BATCHES.items():
            for dim in range(-len(batch) - 1, len(batch) + 1):
                cs.append(unsqueeze_case(b, l, dim))
    for b in BATCHES:
        for l in (lay_main if thorough else ["t1x2"]):
            for op in ARITH:
                cs.append(arith_case(b, l, op))
            cs.append(arith_case(b, l, "add", perm=True))
            if thorough:
                cs.append(arith_case(b, l, "div", perm=True))
            for how in ("same_object_data", "same_data_permuted_space", "other_data", "other_data_permuted_space",
                        "other_data_fewer_rows"):
                if l == "x1" and "permuted" in how:
                    continue
                cs.append(eq_case(b, l, how))
    cs.append(mixed_dtype_case("x2t1u1"))
    # ---- views that could drift apart (coordinates vs tensor, repeat(1) vs its source)
    for l in (["x2t1u1", "t1x2"] if thorough else ["x2t1u1"]):
        for how in ("read_to_assign_read", "repeat_ones_assign", "repeat_ones_assign_ab"):
            cs.append(alias_case(l, how))
    # ---- spaces
    pairs = [(["x", "t"], ["u"]), (["x", "t"], ["t", "v"]), (["x"], ["x"]), (["x", "t", "u"], ["u", "x"])]
    if thorough:
        pairs += [(["x", "t"], ["t", "x"]), (["t"], ["x", "t", "u"]), (["x", "t", "u"], ["v", "t", "w"]), (["x"], ["t"])]
    for a, b_ in pairs:
        cs.append(space_product_case(a, b_))
    triples = [(["x"], ["t", "x"], ["u", "t"])] + ([(["x", "t"], ["u"], ["v"]), (["x"], ["x"], ["x"])] if thorough else [])
    for a, b_, c in triples:
        cs.append(space_product_case(a, b_, c))
    cont = [(["x", "t", "u"], ["u", "x"]), (["x", "t"], ["t", "v"]), (["x", "t"], ["t", "x"])]
    if thorough:
        cont += [(["x"], ["x"]), (["x", "t", "u"], ["x", "t", "u"]), (["t"], ["x", "t"]), (["x", "t", "u"], ["t"])]
    for a, b_ in cont:
        cs.append(space_contains_case(a, b_))
    sels = [["u", "x"], ("t", "u"), slice("x", "u"), slice("t", None), slice(None, "t"), "t",
            slice(None, None, -1), slice("u", None, -1), slice(None, "x", -1), slice(None, None, 2), slice("u", "x", -1)]
    if thorough:
        sels += [["x", "t", "u"], ["u"], slice("u", "x"), slice(None, None), ("u", "t", "x")]
    for sel in sels:
        cs.append(space_getitem_case(["x", "t", "u"], sel))
    eqs = [(["x", "t"], ["x", "t"]), (["x", "t"], ["t", "x"]), (["x", "t", "u"], ["x", "u", "t"])]
    if thorough:
        eqs += [(["x"], ["x"]), (["x", "t"], ["x"]), (["x", "t", "u"], ["x", "t", "u"]), (["x", "t", "u"], ["u", "t", "x"])]
    for a, b_ in eqs:
        cs.append(space_eq_case(a, b_))
    # ---- sequences
    if thorough:
        for l in ("x2t1u1", "t1x2"):
            for ln in (2, 3):
                for seq in itertools.product(SEQ_OPS, repeat=ln):
                    cs.append(seq_case(l, seq))
    else:
        for seq in itertools.product(SEQ_OPS, repeat=2):
            cs.append(seq_case("x2t1u1", seq))
    return cs
