"""C16  Data loaders deliver every datum with intact input/target pairing.

Two routes (DESIGN C16):

A. *All sizes up to B, decided by z3.*  The real `PointsDataset`, `DeepONetDataset`,
   `DeepONetDataset_Unique` (`__init__`, `__len__`, `_slice_points`, `__getitem__`) are executed
   with symbolic sizes N_b, N_t, batch sizes and index (`symtorch/symint.py`: bounded ints over
   bit-vectors, index-recording stand-ins for the tensors, module globals `len/min/int/math/np/
   torch/Points` of the two data-loader modules shadowed for the duration of the run).  Per index:
   pairing / batch size / in-range are goals on every path.  Coverage (`forall f<N_b, l<N_t exists
   idx<len`) is phrased over the path summary of `__getitem__` with the bounded quantifier over idx
   expanded into one query.  A counterexample is replayed on the *real classes behind the real
   torch DataLoader with plain tensors* (replay branch of the bodies).
B. *Real tensors under SymMode.*  Small concrete sizes (structure), every data cell symbolic,
   the real loaders iterated through `torch.utils.data.DataLoader.__iter__`, `randperm` forked over
   all permutations: pairing is decided by z3 on the cell terms.  `DataCondition` /
   `DeepONetDataCondition.forward(use_full_dataset=True)` are run on 2-3 symbolic batches and
   compared with max / mean of the per-batch means.
"""
from __future__ import annotations

import math

import torch
import z3
import torchphysics as tp
from torchphysics.problem.spaces.points import Points
from torchphysics.problem.conditions.condition import DataCondition
from torchphysics.problem.conditions.deeponet_condition import DeepONetDataCondition
from torchphysics.models.deeponet.deeponet import DeepONet
from torchphysics.utils.data import dataloader as PM
from torchphysics.utils.data import deeponet_dataloader as DM

from symtorch.harness import Case
from symtorch import symint as SI

BOUND = {"quick": 6, "thorough": 10}

META = dict(
    level="model_checking",
    bounds="route A: data-set sizes N, N_b, N_t and batch sizes in [1,B] (dividing or not, also larger than the data set), "
           "every batch index < len <= B^2, B=6 quick / 10 thorough, all shuffle / drop_last flags, both trunk layouts; "
           "route B: real tensors with symbolic cells, N<=4 (points) / N_b,N_t<=3 (DeepONet), all permutations of randperm; "
           "condition aggregation on 2-3 symbolic batches, norms inf/1/2",
    outside=["sizes > B", "worker processes (num_workers>0), pin_memory", "negative batch sizes (-1 = full batch)",
             "float rounding in math.ceil(N/bs) / np.lcm(..)/bs for sizes beyond 2^53"],
    assumptions=[
        "torch DataLoader(dataset, batch_size=None, shuffle=False) yields dataset[idx] for idx in range(len(dataset)) "
        "(documented sampler semantics); route A models exactly this loop, route B and every replay run the real DataLoader",
        "route A: tensors are index-recording stand-ins; Points(...)[rows, :] and tensor[perm] select rows (checked on real "
        "Points/tensors in route B); randperm(n) is a bijection of range(n), so shuffling relabels the data set",
        "route A: bounded ints are bit-vectors of width %d; absence of overflow, positivity of divisors and the bound of the "
        "lcm expansion are proved as goals (defined[...]) of every case" % SI.W,
    ],
)

Sb, St, So = tp.spaces.R1("u"), tp.spaces.R1("x"), tp.spaces.R1("y")
SX, SY = tp.spaces.R1("x"), tp.spaces.R2("y")


def _flag(b):
    return "T" if b else "F"


def _all(fs):
    fs = [f for f in fs if f is not True]
    if any(f is False for f in fs):
        return False
    if not fs:
        return True
    return z3.And(*fs) if len(fs) > 1 else fs[0]


def _begin(env):
    if env.symbolic:
        SI.pure_bv(env.ctx)
        del SI.SIDE[:]


EXACT = "bitvector_model_exact"  # no overflow, divisors > 0, dividends >= 0, lcm expansion bound: see symint.py


def _side():
    out = _all([f for _, f in SI.SIDE])
    del SI.SIDE[:]
    return out


# ==========================================================================
# real runs (replay branch): the unmodified classes behind the real torch DataLoader
# ==========================================================================


def _trials(shuffled):
    """replays of shuffling loaders are repeated over several seeds (the solver's permutation is abstract)"""
    for k in range(12 if shuffled else 1):
        torch.manual_seed(k)
        yield k


def _real_deeponet_loader(layout, Nb, Nt, bb, bt, shb, sht):
    branch = torch.arange(Nb, dtype=torch.float64).reshape(Nb, 1, 1)
    out = (1000.0 * torch.arange(Nb, dtype=torch.float64).reshape(Nb, 1) + torch.arange(Nt, dtype=torch.float64).reshape(1, Nt)).reshape(Nb, Nt, 1)
    trunk = torch.arange(Nt, dtype=torch.float64).reshape(Nt, 1) if layout == "shared" else out.clone()
    return tp.utils.DeepONetDataLoader(branch, trunk, out, Sb, St, So, bb, bt, shuffle_branch=shb, shuffle_trunk=sht)


def _decode_deeponet(layout, batch):
    """-> (function ids of the branch rows, location ids of the trunk rows, pairing ok)"""
    b, t, o = (p.as_tensor for p in batch)
    fids = [int(round(v)) for v in b[:, 0, 0].tolist()]
    if layout == "shared":
        lids = [int(round(v)) for v in t[:, 0].tolist()]
        trunk_ok = True
    else:
        lids = [int(round(v)) % 1000 for v in t[0, :, 0].tolist()] if t.shape[0] else []
        trunk_ok = tuple(t.shape[:2]) == (len(fids), len(lids)) and all(
            int(round(t[i, j, 0].item())) == 1000 * fids[i] + lids[j] for i in range(len(fids)) for j in range(len(lids)))
    rows_ok = tuple(o.shape[:2]) == (len(fids), len(lids)) and all(
        int(round(o[i, j, 0].item())) // 1000 == fids[i] for i in range(len(fids)) for j in range(len(lids)))
    cols_ok = tuple(o.shape[:2]) == (len(fids), len(lids)) and all(
        int(round(o[i, j, 0].item())) % 1000 == lids[j] for i in range(len(fids)) for j in range(len(lids)))
    return fids, lids, rows_ok, cols_ok, trunk_ok


def _real_points_loader(N, bs, shuffle, drop_last):
    x = torch.arange(N, dtype=torch.float64).reshape(N, 1)
    y = torch.stack([100.0 + torch.arange(N, dtype=torch.float64), 200.0 + torch.arange(N, dtype=torch.float64)], dim=1)
    return tp.utils.PointsDataLoader((Points(x, SX), Points(y, SY)), batch_size=bs, shuffle=shuffle, drop_last=drop_last)


def _decode_points(batch):
    xb, yb = (p.as_tensor for p in batch)
    ids = [int(round(v)) for v in xb[:, 0].tolist()]
    ok = xb.shape[0] == yb.shape[0] and all(
        int(round(yb[r, 0].item())) == 100 + ids[r] and int(round(yb[r, 1].item())) == 200 + ids[r] for r in range(len(ids)))
    return ids, ok


# ==========================================================================
# route A -- symbolic sizes
# ==========================================================================


def _sym_deeponet(layout, Nb, Nt, bb, bt, shb, sht):
    br = SI.IdxT("branch", [Nb, 1, 1])
    tr = SI.IdxT("trunk", [Nt, 1]) if layout == "shared" else SI.IdxT("trunk", [Nb, Nt, 1])
    out = SI.IdxT("out", [Nb, Nt, 1])
    cls = DM.DeepONetDataset if layout == "shared" else DM.DeepONetDataset_Unique
    return cls(br, tr, out, Sb, St, So, bb, bt, shb, sht)


def _deeponet_item_facts(layout, item, bb, bt):
    b, t, o = (p.as_tensor for p in item)
    tax = t.axes[0] if layout == "shared" else t.axes[1]
    facts = dict(
        out_rows_are_branch_rows=o.axes[0].same_as(b.axes[0]),
        out_cols_are_trunk_rows=o.axes[1].same_as(tax),
        trunk_rows_are_branch_rows=True if layout == "shared" else t.axes[0].same_as(b.axes[0]),
        branch_batch_not_larger_than_requested=SI.cmp(b.axes[0].length(), SI.zi(bb), "le"),
        trunk_batch_not_larger_than_requested=SI.cmp(tax.length(), SI.zi(bt), "le"),
        indices_in_range=z3.And(b.axes[0].in_range(), tax.in_range(), o.axes[0].in_range(), o.axes[1].in_range()),
    )
    return facts, b.axes[0], tax


ITEM_GOALS = ["out_rows_are_branch_rows", "out_cols_are_trunk_rows", "trunk_rows_are_branch_rows",
              "branch_batch_not_larger_than_requested", "trunk_batch_not_larger_than_requested", "indices_in_range",
              "standin_side_conditions", EXACT]


def deeponet_item_case(B, layout, shb, sht):
    """one batch of the DeepONet data sets, every size and the index symbolic"""
    name = "A/deeponet/item/%s/shuffle_b%s_t%s" % (layout, _flag(shb), _flag(sht))
    K = B * B

    def body(env):
        _begin(env)
        Nb, Nt = SI.bvint(env, "N_b", 1, B), SI.bvint(env, "N_t", 1, B)
        bb, bt = SI.bvint(env, "bs_b", 1, B), SI.bvint(env, "bs_t", 1, B)
        idx = SI.bvint(env, "idx", 0, K - 1)
        if not env.symbolic:
            res = None
            for _ in _trials(shb or sht):
                batches = list(_real_deeponet_loader(layout, Nb, Nt, bb, bt, shb, sht))
                fids, lids, rows_ok, cols_ok, trunk_ok = _decode_deeponet(layout, batches[idx])
                r = dict(out_rows_are_branch_rows=rows_ok, out_cols_are_trunk_rows=cols_ok, trunk_rows_are_branch_rows=trunk_ok,
                         branch_batch_not_larger_than_requested=len(fids) <= bb, trunk_batch_not_larger_than_requested=len(lids) <= bt,
                         indices_in_range=True, standin_side_conditions=True, **{EXACT: True})
                res = r if res is None else {k: res[k] and r[k] for k in r}
            return dict(res, batch=(fids, lids), n_batches=len(batches))
        SI.LCM_BOUND[0] = B
        with SI.shadow_globals(DM):
            ds = _sym_deeponet(layout, Nb, Nt, bb, bt, shb, sht)
            n = ds.__len__()
            env.assume(SI.cmp(idx.t, SI.zi(n), "lt"))
            item = ds.__getitem__(idx)
        facts, _, _ = _deeponet_item_facts(layout, item, bb, bt)
        facts["standin_side_conditions"] = _side()
        facts[EXACT] = SI.take_obligations(env.ctx)
        return facts

    def goals(o, L, env):
        for g in ITEM_GOALS:
            yield g, o[g]

    return Case(name, body, goals, family="A/deeponet/item/" + layout, params=dict(B=B, layout=layout, shuffle_branch=shb, shuffle_trunk=sht),
                max_paths=32)


def _regime(name, layout, Nb, Nt, bb, bt):
    """extra assumptions selecting a sub-family of the sizes"""
    z = SI.zB
    if name == "any":
        return []
    if name == "bs_le_n":
        return [z(bb) <= z(Nb), z(bt) <= z(Nt)]
    if name == "coprime_cycles":
        # the two batch cycles lcm(N,bs)/bs have no common factor
        Lb = SI.floordiv(SI.zi(SI.s_lcm(Nb, bb)), z(bb))
        Lt = SI.floordiv(SI.zi(SI.s_lcm(Nt, bt)), z(bt))
        return [SI.zB(SI.zi(SI.s_lcm(SI.SInt(Lb), SI.SInt(Lt)))) == SI.mul(Lb, Lt)]
    if name in ("bs_le_n_equal_counts", "bs_gt_n_equal_counts"):
        cb, ct = SI.SRatio(SI.zi(Nb), SI.zi(bb)).ceil(), SI.SRatio(SI.zi(Nt), SI.zi(bt)).ceil()
        eq = z(cb) == z(ct)
        if name.startswith("bs_le_n"):
            return [z(bb) <= z(Nb), z(bt) <= z(Nt), eq]
        return [z3.Or(z(bb) > z(Nb), z(bt) > z(Nt)), eq]
    raise ValueError(name)


COVER_GOALS = ["len_within_expansion_bound", "summary_is_total", "every_pair_presented", "every_branch_row_presented",
               "every_trunk_row_presented", "standin_side_conditions", EXACT]


def deeponet_coverage_case(B, layout, regime, shb=False, sht=False, rebatch=False):
    """one pass presents every (function, location) pair: forall f<N_b, l<N_t exists idx<len.
    rebatch: the data set was built with OTHER (arbitrary) batch sizes and the sizes under test were assigned to
    dataset.branch_batch_size / trunk_batch_size afterwards (the data set documents that it supports this)"""
    name = "A/deeponet/coverage/%s/%s" % (layout, regime) + ("/shuffled" if (shb or sht) else "") + ("/rebatched" if rebatch else "")
    K = B * B

    def body(env):
        _begin(env)
        Nb, Nt = SI.bvint(env, "N_b", 1, B), SI.bvint(env, "N_t", 1, B)
        bb, bt = SI.bvint(env, "bs_b", 1, B), SI.bvint(env, "bs_t", 1, B)
        f, l = SI.bvint(env, "f", 0, B - 1), SI.bvint(env, "l", 0, B - 1)
        bb0, bt0 = (SI.bvint(env, "bs_b0", 1, B), SI.bvint(env, "bs_t0", 1, B)) if rebatch else (bb, bt)
        if not env.symbolic:
            loader = _real_deeponet_loader(layout, Nb, Nt, bb0, bt0, shb, sht)
            if rebatch:
                len(loader)
                loader.dataset.branch_batch_size, loader.dataset.trunk_batch_size = bb, bt
            pairs, n = set(), 0
            for batch in loader:
                n += 1
                fids, lids, *_ = _decode_deeponet(layout, batch)
                pairs |= {(a, c) for a in fids for c in lids}
            return dict(len_within_expansion_bound=len(loader) <= K, summary_is_total=True,
                        every_pair_presented=len(pairs) == Nb * Nt,
                        every_branch_row_presented={a for a, _ in pairs} == set(range(Nb)),
                        every_trunk_row_presented={c for _, c in pairs} == set(range(Nt)),
                        standin_side_conditions=True, **{EXACT: True},
                        presented="%d of %d pairs in %d batches (len=%d)" % (len(pairs), Nb * Nt, n, len(loader)),
                        missing=sorted(set((a, c) for a in range(Nb) for c in range(Nt)) - pairs)[:6])
        SI.LCM_BOUND[0] = B
        ctx = env.ctx
        env.assume(z3.And(f.t < Nb.t, l.t < Nt.t))
        idx = z3.BitVec("idx", SI.W)
        with SI.shadow_globals(DM):
            for a in _regime(regime, layout, Nb, Nt, bb, bt):
                env.assume(a)
            ds = _sym_deeponet(layout, Nb, Nt, bb0, bt0, shb, sht)
            if rebatch:
                ds.__len__()
                ds.branch_batch_size, ds.trunk_batch_size = bb, bt
            n = SI.zB(ds.__len__())
            local = [idx >= 0, idx < n, idx < K]

            def item():
                it = ds.__getitem__(SI.SInt(idx))
                _, bax, tax = _deeponet_item_facts(layout, it, bb, bt)
                return bax, tax

            S = SI.summarize(item, assumptions=ctx.assumptions + ctx.axioms + ctx.pc + local, local=local)
        S.adopt()
        pairs, rows, cols = [], [], []
        for k in range(K):
            here = z3.BitVecVal(k, SI.W) < n
            p_, r_, c_ = [], [], []
            for pc, (bax, tax) in S.paths:
                mb, mt = bax.member(f.t), tax.member(l.t)
                p_.append(SI.subst(z3.And(pc, mb, mt), idx, k))
                r_.append(SI.subst(z3.And(pc, mb), idx, k))
                c_.append(SI.subst(z3.And(pc, mt), idx, k))
            pairs.append(z3.And(here, z3.Or(*p_)))
            rows.append(z3.And(here, z3.Or(*r_)))
            cols.append(z3.And(here, z3.Or(*c_)))
        return dict(len_within_expansion_bound=n <= K,
                    summary_is_total=z3.Implies(z3.And(*local), z3.Or(*[pc for pc, _ in S.paths])),
                    every_pair_presented=z3.Or(*pairs), every_branch_row_presented=z3.Or(*rows),
                    every_trunk_row_presented=z3.Or(*cols), standin_side_conditions=_side(), n_paths=len(S.paths),
                    **{EXACT: SI.take_obligations(env.ctx)})

    def goals(o, L, env):
        for g in COVER_GOALS:
            yield g, o[g]

    return Case(name, body, goals, family="A/deeponet/coverage/%s/%s" % (layout, regime),
                params=dict(B=B, layout=layout, regime=regime, shuffle_branch=shb, shuffle_trunk=sht), max_paths=8,
                timeout_ms=60000 if B <= 6 else 400000)  # one expanded-forall query takes ~2 s (B=6) / ~30 s (B=10) on an idle machine


POINT_ITEM_GOALS = ["tuple_members_hold_same_rows", "batch_not_larger_than_requested", "indices_in_range", "standin_side_conditions", EXACT]


def _sym_points(N, bs, shuffle, drop_last):
    data = (SI.PStandin(SI.IdxT("x", [N, 1]), SX), SI.PStandin(SI.IdxT("y", [N, 2]), SY), SI.PStandin(SI.IdxT("z", [N, 1]), SX))
    return PM.PointsDataset(data, bs, shuffle=shuffle, drop_last=drop_last)


def points_item_case(B, shuffle, drop_last):
    name = "A/points/item/shuffle%s_droplast%s" % (_flag(shuffle), _flag(drop_last))

    def body(env):
        _begin(env)
        N, bs = SI.bvint(env, "N", 1, B), SI.bvint(env, "bs", 1, B)
        idx = SI.bvint(env, "idx", 0, B - 1)
        if not env.symbolic:
            res = None
            for _ in _trials(shuffle):
                batches = list(_real_points_loader(N, bs, shuffle, drop_last))
                ids, ok = _decode_points(batches[idx])
                r = dict(tuple_members_hold_same_rows=ok, batch_not_larger_than_requested=len(ids) <= bs, indices_in_range=True,
                         standin_side_conditions=True, **{EXACT: True})
                res = r if res is None else {k: res[k] and r[k] for k in r}
            return dict(res, batch=ids)
        with SI.shadow_globals(PM):
            ds = _sym_points(N, bs, shuffle, drop_last)
            n = ds.__len__()
            env.assume(SI.cmp(idx.t, SI.zi(n), "lt"))
            item = ds.__getitem__(idx)
        axes = [p.as_tensor.axes[0] for p in item]
        return dict(tuple_members_hold_same_rows=_all([axes[0].same_as(a) for a in axes[1:]] + [len(item) == 3]),
                    batch_not_larger_than_requested=SI.cmp(axes[0].length(), bs.t, "le"),
                    indices_in_range=z3.And(*[a.in_range() for a in axes]), standin_side_conditions=_side(),
                    **{EXACT: SI.take_obligations(env.ctx)})

    def goals(o, L, env):
        for g in POINT_ITEM_GOALS:
            yield g, o[g]

    return Case(name, body, goals, family="A/points/item", params=dict(B=B, shuffle=shuffle, drop_last=drop_last))


POINT_COVER_GOALS = ["len_within_expansion_bound", "every_sample_presented", "standin_side_conditions", EXACT]


def points_coverage_case(B, shuffle, drop_last):
    name = "A/points/coverage/shuffle%s_droplast%s" % (_flag(shuffle), _flag(drop_last))

    def body(env):
        _begin(env)
        N, bs = SI.bvint(env, "N", 1, B), SI.bvint(env, "bs", 1, B)
        s = SI.bvint(env, "s", 0, B - 1)
        if not env.symbolic:
            loader = _real_points_loader(N, bs, shuffle, drop_last)
            seen = []
            for batch in loader:
                ids, _ = _decode_points(batch)
                seen += ids
            want = (N // bs) * bs if drop_last else N
            return dict(len_within_expansion_bound=len(loader) <= B, every_sample_presented=len(set(seen)) == want,
                        standin_side_conditions=True, **{EXACT: True}, presented="%d distinct samples of %d (expected %d)" % (len(set(seen)), N, want))
        env.assume(s.t < N.t)
        if drop_last:  # the explicitly dropped tail: the last N mod bs positions
            env.assume(s.t < SI.mul(SI.floordiv(N.t, bs.t), bs.t))
        idx = z3.BitVec("idx", SI.W)
        ctx = env.ctx
        with SI.shadow_globals(PM):
            ds = _sym_points(N, bs, shuffle, drop_last)
            n = SI.zB(ds.__len__())
            local = [idx >= 0, idx < n, idx < B]
            S = SI.summarize(lambda: ds.__getitem__(SI.SInt(idx))[0].as_tensor.axes[0],
                             assumptions=ctx.assumptions + ctx.axioms + ctx.pc + local, local=local)
        S.adopt()
        terms = []
        for k in range(B):
            terms.append(z3.And(z3.BitVecVal(k, SI.W) < n, z3.Or(*[SI.subst(z3.And(pc, ax.member(s.t)), idx, k) for pc, ax in S.paths])))
        return dict(len_within_expansion_bound=n <= B, every_sample_presented=z3.Or(*terms), standin_side_conditions=_side(),
                    **{EXACT: SI.take_obligations(env.ctx)})

    def goals(o, L, env):
        for g in POINT_COVER_GOALS:
            yield g, o[g]

    return Case(name, body, goals, family="A/points/coverage", params=dict(B=B, shuffle=shuffle, drop_last=drop_last))


# ==========================================================================
# route B -- real tensors under SymMode, symbolic cells
# ==========================================================================


def _tol(L):
    """Route B equalities are asked within a tolerance: the claims are homogeneous in the data (scaling all cells scales
    both sides), so "within tol for all data" is the same statement as exact equality.  The solver has to exhibit a
    difference > 1e-3, the float64 replay accepts only <= 1e-6: every solver counterexample survives the replay."""
    return 1e-3 if L.symbolic else 1e-6


def _rows_eq(L, a, b):
    """all cells of two nested lists equal"""
    fa, fb = _flatten(a), _flatten(b)
    if len(fa) != len(fb):
        return False
    return L.And([L.eq(x, y, _tol(L)) for x, y in zip(fa, fb)])


def _flatten(a):
    if isinstance(a, list):
        out = []
        for x in a:
            out += _flatten(x)
        return out
    return [a]


def real_points_case(N, bs, shuffle, drop_last):
    name = "B/points/N%d_bs%d/shuffle%s_droplast%s" % (N, bs, _flag(shuffle), _flag(drop_last))

    def body(env):
        X, Y = env.tensor("X", (N, 1)), env.tensor("Y", (N, 2))
        xs = [env.v(X[i, 0]) for i in range(N)]
        for i in range(N):
            for j in range(i):
                env.assume(env.L.ne(xs[i], xs[j]))  # distinct samples, so that "twice" is expressible
        loader = tp.utils.PointsDataLoader((Points(X, SX), Points(Y, SY)), batch_size=bs, shuffle=shuffle, drop_last=drop_last)
        batches = [(b[0].as_tensor, b[1].as_tensor) for b in loader]
        return dict(X=X, Y=Y, batches=batches, n=len(loader))

    def goals(o, L, env):
        X, Y, bt = o["X"], o["Y"], o["batches"]
        want_n = N // bs if drop_last else math.ceil(N / bs)
        yield "loader_len_is_number_of_batches", o["n"] == len(bt) == want_n
        rows = []
        for k, (xb, yb) in enumerate(bt):
            yield "batch_not_larger_than_requested[batch%d]" % k, len(xb) == len(yb) and 1 <= len(xb) <= bs
            yield "rows_are_dataset_pairs[batch%d]" % k, L.And([L.Or([L.And(_rows_eq(L, xr, X[s]), _rows_eq(L, yr, Y[s])) for s in range(N)])
                                                                 for xr, yr in zip(xb, yb)])
            rows += list(zip(xb, yb))
        yield "presented_count", len(rows) == ((N // bs) * bs if drop_last else N)
        yield "no_sample_twice", L.And([L.ne(rows[i][0][0], rows[j][0][0]) for i in range(len(rows)) for j in range(i)])
        if not drop_last:
            for s in range(N):
                yield "presented[sample%d]" % s, L.Or([L.And(_rows_eq(L, xr, X[s]), _rows_eq(L, yr, Y[s])) for xr, yr in rows])

    return Case(name, body, goals, family="B/points", params=dict(N=N, bs=bs, shuffle=shuffle, drop_last=drop_last),
                max_paths=40, max_forks_per_site=40)


def shared_points_case(N, bs, shuffle2):
    """history: two loaders are built from ONE Points object x (inputs) with different targets; the first one shuffles.
    The second loader still pairs x_i with v_i, and the user's Points objects are left as they were"""
    name = "B/points_shared_input/N%d_bs%d/second_shuffle%s" % (N, bs, _flag(shuffle2))

    def body(env):
        X, U, V = env.tensor("X", (N, 1)), env.tensor("U", (N, 1)), env.tensor("V", (N, 1))
        xs = [env.v(X[i, 0]) for i in range(N)]
        for i in range(N):
            for j in range(i):
                env.assume(env.L.ne(xs[i], xs[j]))
        px, pu, pv = Points(X, SX), Points(U, tp.spaces.R1("u")), Points(V, tp.spaces.R1("u"))
        l1 = tp.utils.PointsDataLoader((px, pu), batch_size=bs, shuffle=True)
        l2 = tp.utils.PointsDataLoader((px, pv), batch_size=bs, shuffle=shuffle2)
        b2 = [(b[0].as_tensor, b[1].as_tensor) for b in l2]
        b1 = [(b[0].as_tensor, b[1].as_tensor) for b in l1]
        return dict(X=X, U=U, V=V, b1=b1, b2=b2, px=px.as_tensor, pu=pu.as_tensor, pv=pv.as_tensor)

    def goals(o, L, env):
        X, U, V = o["X"], o["U"], o["V"]
        for nm, got, want in (("x", o["px"], X), ("u", o["pu"], U), ("v", o["pv"], V)):
            yield "users_points_unchanged[%s]" % nm, L.And([_rows_eq(L, a, b) for a, b in zip(got, want)]) if len(got) == len(want) else False
        for tag, bt, T_ in (("first", o["b1"], U), ("second", o["b2"], V)):
            for k, (xb, yb) in enumerate(bt):
                yield "rows_are_dataset_pairs[%s,batch%d]" % (tag, k), L.And(
                    [L.Or([L.And(_rows_eq(L, xr, X[s]), _rows_eq(L, yr, T_[s])) for s in range(N)]) for xr, yr in zip(xb, yb)])
            yield "presented_count[%s]" % tag, sum(len(xb) for xb, _ in bt) == N

    return Case(name, body, goals, family="B/points_shared_input", params=dict(N=N, bs=bs, shuffle2=shuffle2),
                max_paths=math.factorial(N) ** (2 if shuffle2 else 1) + 8, max_forks_per_site=40)


def real_deeponet_case(layout, Nb, Nt, bb, bt, shb, sht):
    name = "B/deeponet/%s/Nb%d_Nt%d_bs%d_%d/shuffle_b%s_t%s" % (layout, Nb, Nt, bb, bt, _flag(shb), _flag(sht))

    def body(env):
        BR, OUT = env.tensor("BR", (Nb, 1, 1)), env.tensor("OUT", (Nb, Nt, 1))
        TR = env.tensor("TR", (Nt, 1)) if layout == "shared" else env.tensor("TR", (Nb, Nt, 1))
        loader = tp.utils.DeepONetDataLoader(BR, TR, OUT, Sb, St, So, bb, bt, shuffle_branch=shb, shuffle_trunk=sht)
        batches = [(b.as_tensor, t.as_tensor, o.as_tensor) for b, t, o in loader]
        return dict(BR=BR, TR=TR, OUT=OUT, batches=batches, n=len(loader))

    def goals(o, L, env):
        BR, TR, OUT = o["BR"], o["TR"], o["OUT"]
        yield "loader_len_is_number_of_batches", o["n"] == len(o["batches"]) and o["n"] >= 1
        for k, (b, t, out) in enumerate(o["batches"]):
            nb = len(b)
            nt = len(t) if layout == "shared" else (len(t[0]) if t else 0)
            shapes = len(out) == nb and all(len(r) == nt for r in out) and (layout == "shared" or (len(t) == nb and all(len(r) == nt for r in t)))
            yield "batch_shapes[batch%d]" % k, shapes and 1 <= nb <= bb and 1 <= nt <= bt
            if not shapes:
                continue
            cells = []
            for i in range(nb):
                for j in range(nt):
                    alts = []
                    for f in range(Nb):
                        for l in range(Nt):
                            tr_ok = _rows_eq(L, t[j], TR[l]) if layout == "shared" else _rows_eq(L, t[i][j], TR[f][l])
                            alts.append(L.And(_rows_eq(L, b[i], BR[f]), tr_ok, _rows_eq(L, out[i][j], OUT[f][l])))
                    cells.append(L.Or(alts))
            yield "output_ij_belongs_to_function_i_location_j[batch%d]" % k, L.And(cells)

    npaths = (math.factorial(Nb) if shb else 1) * (math.factorial(Nt) if sht else 1)
    return Case(name, body, goals, family="B/deeponet/" + layout, params=dict(layout=layout, Nb=Nb, Nt=Nt, bs_b=bb, bs_t=bt, shb=shb, sht=sht),
                max_paths=npaths + 8, max_forks_per_site=40)


class _Lin(torch.nn.Module):
    """stub model: y = x + w (w symbolic; linear, so that max-of-abs goals stay in linear arithmetic), Points in the output space"""

    def __init__(self, w, out_space, width):
        super().__init__()
        self.w, self.out_space, self.width = w, out_space, width

    def forward(self, pts):
        return Points((pts.as_tensor + self.w).repeat(1, self.width), self.out_space)


def _batch_rows(N, bs, drop_last):
    nb = N // bs if drop_last else math.ceil(N / bs)
    return [list(range(k * bs, min((k + 1) * bs, N))) for k in range(nb)]


def condition_case(N, bs, norm, drop_last=False, shuffle=False, root=1.0):
    """DataCondition.forward(use_full_dataset=True) over a real PointsDataLoader"""
    name = "B/condition/points/N%d_bs%d/norm%s%s%s%s" % (N, bs, norm, "/droplast" if drop_last else "", "/shuffle" if shuffle else "",
                                                         "/root%g" % root if root != 1.0 else "")

    def body(env):
        X, Y, w = env.tensor("X", (N, 1)), env.tensor("Y", (N, 2)), env.tensor("w", ())
        loader = tp.utils.PointsDataLoader((Points(X, SX), Points(Y, SY)), batch_size=bs, shuffle=shuffle, drop_last=drop_last)
        cond = DataCondition(_Lin(w, SY, 2), loader, norm=norm, root=root, use_full_dataset=True)
        loss = cond.forward()
        L = env.L
        xs, ys, wv = [env.v(X[i, 0]) for i in range(N)], [[env.v(Y[i, c]) for c in range(2)] for i in range(N)], env.v(w)
        dist = [[L.abs(wv + xs[i] - ys[i][c]) for c in range(2)] for i in range(N)]
        groups = _batch_rows(N, bs, drop_last)
        if norm == "inf":
            want = 0
            for g in groups:
                for i in g:
                    for c in range(2):
                        want = L.max(want, dist[i][c])
        else:
            want = 0
            for g in groups:
                m = 0
                for i in g:
                    for c in range(2):
                        d = dist[i][c]
                        m = m + (d if norm == 1 else d * d)
                want = want + m / (2 * len(g)) / len(groups)
        return dict(loss=loss, want=want, shape=list(loss.shape))

    def goals(o, L, env):
        yield "one_loss_value", o["shape"] == [1]
        if o["shape"] == [1]:
            v = o["loss"][0]
            if root == 1.0:
                yield "aggregates_every_batch_exactly_once", L.eq(v, o["want"], _tol(L))
            else:
                yield "aggregates_every_batch_exactly_once", L.And(L.ge(v, 0), L.eq(v * v, o["want"], _tol(L)))

    return Case(name, body, goals, family="B/condition/points", params=dict(N=N, bs=bs, norm=str(norm), drop_last=drop_last, shuffle=shuffle, root=root),
                max_paths=40, max_forks_per_site=40)


def condition_iter_case(N, bs, calls):
    """use_full_dataset=False: every forward consumes the next batch and restarts after the last"""
    name = "B/condition/points_iterate/N%d_bs%d/calls%d" % (N, bs, calls)

    def body(env):
        X, Y, w = env.tensor("X", (N, 1)), env.tensor("Y", (N, 2)), env.tensor("w", ())
        loader = tp.utils.PointsDataLoader((Points(X, SX), Points(Y, SY)), batch_size=bs)
        cond = DataCondition(_Lin(w, SY, 2), loader, norm="inf", use_full_dataset=False)
        losses = [cond.forward() for _ in range(calls)]
        L = env.L
        xs, ys, wv = [env.v(X[i, 0]) for i in range(N)], [[env.v(Y[i, c]) for c in range(2)] for i in range(N)], env.v(w)
        groups = _batch_rows(N, bs, False)
        want = []
        for g in groups:
            m = None
            for i in g:
                for c in range(2):
                    d = L.abs(wv + xs[i] - ys[i][c])
                    m = d if m is None else L.max(m, d)
            want.append(m)
        return dict(losses=[l.reshape(1) for l in losses], want=want)

    def goals(o, L, env):
        nb = len(o["want"])
        for k, l in enumerate(o["losses"]):
            yield "call_uses_next_batch[call%d]" % k, L.eq(l[0], o["want"][k % nb], _tol(L))

    return Case(name, body, goals, family="B/condition/points_iterate", params=dict(N=N, bs=bs, calls=calls))


class _StubBranch(torch.nn.Module):
    def forward(self, pts):
        self.current_out = pts.as_tensor
        return self.current_out


class _StubONet(DeepONet):
    """DeepONet whose nets are replaced by u_i + w + x_j (DeepONetDataCondition insists on the class)"""

    def __init__(self, w):
        torch.nn.Module.__init__(self)
        self.w = w
        self.branch = _StubBranch()
        self.output_space = So

    def forward(self, trunk_inputs, branch_inputs=None, device="cpu"):
        b = self.branch.current_out  # (nb, 1, 1)
        t = trunk_inputs.as_tensor  # (nt, 1)
        return Points(b + self.w + t.unsqueeze(0), self.output_space)


def deeponet_condition_case(Nb, Nt, bb, bt, norm):
    """DeepONetDataCondition.forward(use_full_dataset=True); sizes with coprime batch cycles, so that one pass is a
    partition into len = (N_b/bs_b)*(N_t/bs_t) batches"""
    name = "B/condition/deeponet/Nb%d_Nt%d_bs%d_%d/norm%s" % (Nb, Nt, bb, bt, norm)
    assert Nb % bb == 0 and Nt % bt == 0 and math.gcd(Nb // bb, Nt // bt) == 1

    def body(env):
        BR, TR, OUT, w = env.tensor("BR", (Nb, 1, 1)), env.tensor("TR", (Nt, 1)), env.tensor("OUT", (Nb, Nt, 1)), env.tensor("w", ())
        loader = tp.utils.DeepONetDataLoader(BR, TR, OUT, Sb, St, So, bb, bt, shuffle_branch=False, shuffle_trunk=False)
        cond = DeepONetDataCondition(_StubONet(w), loader, norm=norm, use_full_dataset=True)
        loss = cond.forward()
        L = env.L
        wv = env.v(w)
        d = [[L.abs(env.v(BR[i, 0, 0]) + wv + env.v(TR[j, 0]) - env.v(OUT[i, j, 0])) for j in range(Nt)] for i in range(Nb)]
        blocks = [(list(range(p * bb, (p + 1) * bb)), list(range(q * bt, (q + 1) * bt))) for p in range(Nb // bb) for q in range(Nt // bt)]
        want = 0
        for rows, cols in blocks:
            if norm == "inf":
                for i in rows:
                    for j in cols:
                        want = L.max(want, d[i][j])
            else:
                m = 0
                for i in rows:
                    for j in cols:
                        m = m + (d[i][j] if norm == 1 else d[i][j] * d[i][j])
                want = want + m / (len(rows) * len(cols)) / len(blocks)
        return dict(loss=loss, want=want, shape=list(loss.shape), n=len(loader), blocks=len(blocks))

    def goals(o, L, env):
        yield "one_pass_is_a_partition", o["n"] == o["blocks"]
        yield "one_loss_value", o["shape"] == [1]
        if o["shape"] == [1]:
            yield "aggregates_every_batch_exactly_once", L.eq(o["loss"][0], o["want"], _tol(L))

    return Case(name, body, goals, family="B/condition/deeponet", params=dict(Nb=Nb, Nt=Nt, bs_b=bb, bs_t=bt, norm=str(norm)))


# ==========================================================================


def cases(tier):
    B = BOUND[tier]
    th = tier == "thorough"
    cs = []
    # ---- route A
    for shuffle in (False, True):
        for drop_last in (False, True):
            cs.append(points_item_case(B, shuffle, drop_last))
            cs.append(points_coverage_case(B, shuffle, drop_last))
    for layout in ("shared", "unique"):
        flags = [(False, False), (True, True)] + ([(False, True), (True, False)] if th else [])
        for shb, sht in flags:
            cs.append(deeponet_item_case(B, layout, shb, sht))
    cs.append(deeponet_coverage_case(B, "shared", "any"))
    cs.append(deeponet_coverage_case(B, "shared", "coprime_cycles"))
    cs.append(deeponet_coverage_case(B, "shared", "coprime_cycles", True, True))
    cs.append(deeponet_coverage_case(B, "unique", "bs_le_n"))
    cs.append(deeponet_coverage_case(B, "unique", "bs_le_n_equal_counts"))
    cs.append(deeponet_coverage_case(B, "unique", "bs_le_n_equal_counts", True, True))
    cs.append(deeponet_coverage_case(B, "unique", "bs_gt_n_equal_counts"))
    cs.append(deeponet_coverage_case(B, "unique", "bs_le_n", rebatch=True))
    # ---- route B
    pts = [(3, 2, False, False), (3, 2, True, False), (3, 2, True, True), (2, 3, False, False), (4, 2, False, True)]
    if th:
        pts += [(4, 3, True, False), (4, 3, True, True), (4, 4, True, False), (3, 1, True, False), (1, 1, True, True)]
    for N, bs, sh, dl in pts:
        cs.append(real_points_case(N, bs, sh, dl))
    cs.append(shared_points_case(3, 2, False))
    if th:
        cs.append(shared_points_case(3, 2, True))
    don = [("shared", 3, 2, 2, 1, True, True), ("shared", 2, 3, 1, 2, False, False), ("unique", 3, 2, 2, 1, True, True),
           ("unique", 2, 2, 1, 2, False, True)]
    if th:
        don += [("shared", 3, 3, 2, 2, True, True), ("unique", 3, 3, 2, 2, True, True), ("shared", 2, 3, 3, 2, True, False),
                ("unique", 2, 3, 2, 3, True, False), ("shared", 3, 2, 3, 2, False, True)]
    for cfg in don:
        cs.append(real_deeponet_case(*cfg))
    conds = [(3, 2, "inf", False, False, 1.0), (3, 2, 2, False, False, 1.0), (5, 2, 1, False, False, 1.0), (5, 2, "inf", True, False, 1.0),
             (3, 2, "inf", False, True, 1.0)]
    if th:
        conds += [(5, 2, 2, True, False, 1.0), (4, 2, 2, False, True, 1.0), (3, 3, 2, False, True, 1.0), (3, 2, 1, False, False, 2.0),
                  (4, 2, "inf", True, True, 1.0)]
    for N, bs, norm, dl, sh, root in conds:
        cs.append(condition_case(N, bs, norm, dl, sh, root))
    cs.append(condition_iter_case(3, 2, 3))
    if th:
        cs.append(condition_iter_case(5, 2, 7))
    cs.append(deeponet_condition_case(2, 3, 1, 3, "inf"))
    cs.append(deeponet_condition_case(2, 3, 1, 3, 2))
    if th:
        cs.append(deeponet_condition_case(3, 2, 1, 1, 1))
        cs.append(deeponet_condition_case(2, 2, 2, 1, "inf"))
    return cs
