"""C18  The bounding box encloses the domain."""
from __future__ import annotations

import torch
import torchphysics as tp
from torchphysics.problem.spaces.points import Points

from symtorch.harness import Case
from oracle import sets as O
from . import shapes as SH
from symtorch import ops_c08 as _ops_c08  # noqa: F401  (registers the diag_embed kernel used by torch.diag)

META = dict(
    level="model_checking",
    bounds="bounding_box(params) of every catalogue shape (primitives, parameter-dependent primitives affine in t, one Boolean "
           "operation of two primitives, independent products, translated primitives incl. parameter-dependent translation; "
           "rotations given as matrix [[c,-s],[s,c]] with symbolic c,s (c^2+s^2=1), as from_angles with symbolic angle "
           "(cos/sin pair) and as from_angles with angle w0+w1*t; thorough: Sphere, nesting depth 2, rotated polygons with a "
           "concrete non-axis-aligned inner polygon) with all shape parameters and k<=2 parameter rows symbolic and one symbolic "
           "query point per case: oracle member => inside the box, per row and axis; the composition layer "
           "(union/cut/intersection/product/translate/rotate) additionally on ARBITRARY operands of which only an enclosing "
           "symbolic box is known; the unit square rotated by pi/4 and quarter turns; Point domains (number / tensor / moving, "
           "k<=2); tightness box == exact extremes for primitives at k<=1 rows; ProductDomain.set_bounding_box; "
           "NormalizationLayer on a symbolic member point; LHSSampler._create_lhs_in_bounding_box with n=2 (thorough also 3) "
           "points, every draw and permutation symbolic: proposals in the box, every slab hit, every member coordinate in a slab",
    outside=["bounding box of a product whose first factor depends on the second (documented as a sampled approximation; only "
             "the set_bounding_box override is checked)", "shapely/trimesh primitives", "k>2 rows, nesting depth >2",
             "the Latin-hypercube law itself (C11)", "rotated polygons with symbolic inner polygon AND symbolic rotation "
             "(13 reals, non-linear: not decided within the budgets; covered by the abstract rotate cases + concrete inner polygon)"],
    assumptions=["shapes have positive measure", "normalisation of intersections: the box has positive width on every axis",
                 "builtin min()/max() in the polygon/union/intersection bounding_box code: the */fork cases execute them by "
                 "forking one path per ordering; all other cases model them as if-then-else terms with the builtin's "
                 "semantics (module globals shadowed, source untouched); both modes are run on the polygons",
                 "replayed counterexamples are compared with a purely relative float slack (1e-9), the claims being scale-invariant"],
)


# --------------------------------------------------------------------------
# builtin min()/max() over symbolic numbers
# --------------------------------------------------------------------------
# The bounding_box code of polygons / unions / intersections calls the *builtin* min()/max() on
# python-level symbolic scalars or 0-d tensors; under the engine every comparison forks the path
# (one path per ordering).  mode "fork" keeps that; mode "ite" shadows the module globals
# `min`/`max` of those torchphysics modules (module globals are looked up before builtins, the
# source is untouched) by versions that return the same value as an if-then-else term
# (builtin semantics: min keeps the running element unless the next one is strictly smaller, max
# unless strictly larger), which turns a few hundred paths into one query with case splits.

import builtins
import contextlib


def _is_symval(x):
    from symtorch import symt as S
    return isinstance(x, (S.SymScalar, S.SymT))


def _fold(args, kw, smaller):
    from symtorch import symt as S
    from symtorch import term as T
    seq = list(args[0]) if (len(args) == 1 and not kw) else list(args)
    if kw or not any(_is_symval(x) for x in seq):
        return (builtins.min if smaller else builtins.max)(*args, **kw)
    r = seq[0]
    for x in seq[1:]:
        if isinstance(x, S.SymT) or isinstance(r, S.SymT):
            xt = x if isinstance(x, torch.Tensor) else torch.as_tensor(x)
            rt = r if isinstance(r, torch.Tensor) else torch.as_tensor(r)
            r = torch.where((xt < rt) if smaller else (xt > rt), xt, rt)
        else:
            a, b = S.SymScalar.un(x), S.SymScalar.un(r)
            v = T.ite(T.lt(a, b) if smaller else T.gt(a, b), a, b)
            r = v if T.is_conc(v) else S.SymScalar(v)
    return r


def _smin(*a, **kw):
    return _fold(a, kw, True)


def _smax(*a, **kw):
    return _fold(a, kw, False)


@contextlib.contextmanager
def minmax_mode(env, mode):
    if mode != "ite" or not env.symbolic:
        yield
        return
    import torchphysics.problem.domains.domain2D.parallelogram as m1
    import torchphysics.problem.domains.domain2D.triangle as m2
    import torchphysics.problem.domains.domainoperations.union as m3
    import torchphysics.problem.domains.domainoperations.intersection as m4
    mods = (m1, m2, m3, m4)
    try:
        for m in mods:
            m.min, m.max = _smin, _smax
        yield
    finally:
        for m in mods:
            for nm in ("min", "max"):
                if nm in m.__dict__:
                    delattr(m, nm)


# --------------------------------------------------------------------------
# rotations whose counterexamples can be replayed
# --------------------------------------------------------------------------
# shapes.rotate builds Rotate.from_angles with a symbolic angle; cos/sin of it are fresh symbols
# tied only by c^2+s^2=1, so a solver model does not determine an angle that float cos/sin would
# map to the model's (c, s).  The builders below make (c, s) inputs instead:
#   matrix : Rotate(domain, [[c,-s],[s,c]]) with inputs c, s, c^2+s^2=1
#   angle  : Rotate.from_angles(domain, w) with (c, s) = (cos w, sin w) as inputs; the replay uses w = atan2(s, c)
#   matrix[t]: Rotate(domain, R(t)) with the rational parametrisation u = u0+u1*t,
#              c = (1-u^2)/(1+u^2), s = 2u/(1+u^2) (an exact rotation for every t; used with abstract operands)
#   angle[t] : Rotate.from_angles(domain, t -> w0+w1*t); one input pair (c_i, s_i) per parameter row, the replay
#              solves w0 (and w1) from atan2 of the pairs


def rotate_r(env, a, how, tag="rot", around=True):
    L = env.L
    ar = SH.Aff(env, tag + "p", 2, None) if around else None
    around_o = ar.oracle() if around else (lambda prm: [0, 0])
    ra = ar.tp() if around else None
    pv = list(a.pvars)
    if how in ("matrix", "angle"):
        cs_t = env.tensor(tag + "cs", (2,))
        c, s = SH.elems(env, cs_t)
        if how == "matrix":
            env.assume(L.eq(c * c + s * s, 1))
            M = torch.stack((torch.stack((cs_t[0], -cs_t[1])), torch.stack((cs_t[1], cs_t[0]))))
            dom = tp.domains.Rotate(a.dom, M, rotate_around=ra)
        else:
            if env.symbolic:
                ang = env.tensor(tag + "w", ())
                cw, sw = L.cossin(SH.elems(env, ang)[0])
                env.assume(L.And(L.eq(c, cw), L.eq(s, sw)))
            else:
                ang = torch.atan2(cs_t[1], cs_t[0])
            dom = tp.domains.Rotate.from_angles(a.dom, ang, rotate_around=ra)

        def cs(prm):
            return c, s
    elif how == "matrix[t]":
        u = SH.Aff(env, tag + "u", 1, "t")
        base, slope = u.base, u.slope

        def rot(t):
            uu = base + slope * t
            den = 1 + uu * uu
            co, si = (1 - uu * uu) / den, 2 * uu / den
            return torch.stack((torch.cat((co, -si), dim=1), torch.cat((si, co), dim=1)), dim=1)

        dom = tp.domains.Rotate(a.dom, rot, rotate_around=ra)
        uo = u.oracle()

        def cs(prm):
            x = uo(prm)[0]
            return (1 - x * x) / (1 + x * x), 2 * x / (1 + x * x)
        pv = SH._merge_pvars(pv, [("t", 1)])
    elif how == "angle[t]":
        # from_angles with the angle w0 + w1*t; after the parameter rows exist, bind_rows() ties one input pair
        # (c_i, s_i) per row to cos/sin of that row's angle; the replay solves w0 (and w1 for two rows) from them
        import math
        w = SH.Aff(env, tag + "w", 1, "t")
        cell = {"base": w.base, "slope": w.slope}

        def ang(t):
            return cell["base"] + cell["slope"] * t

        dom = tp.domains.Rotate.from_angles(a.dom, ang, rotate_around=ra)
        wo = w.oracle()
        if env.symbolic:
            def cs(prm):
                return L.cossin(wo(prm)[0])
        else:
            def cs(prm):
                x = float(cell["base"]) + float(cell["slope"]) * float(prm["t"][0])
                return math.cos(x), math.sin(x)

        def bind_rows(rows):
            k = len(rows)
            e = SH.elems(env, env.tensor(tag + "cs", (k, 2)))
            if env.symbolic:
                for i, prm in enumerate(rows):
                    cw, sw = cs(prm)
                    env.assume(L.And(L.eq(e[2 * i], cw), L.eq(e[2 * i + 1], sw)))
                # cos/sin are fresh symbols per argument term: state that they are functions of the angle
                for i in range(k):
                    for j in range(i + 1, k):
                        env.assume(L.Implies(L.eq(wo(rows[i])[0], wo(rows[j])[0]),
                                             L.And(L.eq(e[2 * i], e[2 * j]), L.eq(e[2 * i + 1], e[2 * j + 1]))))
                return
            angs = [math.atan2(e[2 * i + 1], e[2 * i]) for i in range(k)]
            ts = [float(prm["t"][0]) for prm in rows]
            slope = float(cell["slope"])
            if k >= 2 and ts[1] != ts[0]:
                slope = (angs[1] - angs[0]) / (ts[1] - ts[0])
            cell["slope"] = torch.tensor(slope)
            cell["base"] = torch.tensor(angs[0] - slope * ts[0])
        pv = SH._merge_pvars(pv, [("t", 1)])
    else:
        raise ValueError(how)
    sh = SH.Sh("Rotate<%s>(%s)" % (how, a.name), dom, O.ORotate2D(a.oset, cs, around_o), pv, a.space_vars,
               closed_form=a.closed_form)
    if how == "angle[t]":
        sh.bind_rows = bind_rows
    return sh


# --------------------------------------------------------------------------
# abstract operands: ANY set with ANY enclosing box
# --------------------------------------------------------------------------

from torchphysics.problem.domains.domain import Domain as _Domain


class BoxStub(_Domain):
    """an arbitrary domain of which only a bounding box is known (symbolic)"""

    def __init__(self, space, env, tag):
        super().__init__(space, dim=space.dim)
        self.necessary_variables = set()
        self.box_t = env.tensor(tag + "_box", (2 * space.dim,))
        self.box = SH.elems(env, self.box_t)
        self.inside = env.v(env.boolean(tag + "_in"))  # truth value of "the examined point belongs to the set"

    def __call__(self, **data):
        return self

    def bounding_box(self, params=Points.empty(), device="cpu"):
        return self.box_t

    def encloses(self, p, L):
        """assumption: the stub's box encloses the stub's set (stated for the examined point p)"""
        return L.Implies(self.inside, L.And(*[L.And(L.le(self.box[2 * i], p[i]), L.le(p[i], self.box[2 * i + 1]))
                                              for i in range(len(p))]))


# comparisons of the goals.  Symbolic: exact.  Replay: the claims are invariant under scaling of all lengths and the
# solver likes to answer with witnesses of size 1e-18, which the harness' absolute float slack (1e-7) would wave through;
# the replay therefore compares with a purely RELATIVE slack (1e-9 of the larger operand), strict comparisons exactly.


def rle(L, a, b):
    if getattr(L, "symbolic", False):
        return L.le(a, b)
    a, b = float(a), float(b)
    return a <= b + 1e-9 * max(abs(a), abs(b))


def rlt(L, a, b):
    if getattr(L, "symbolic", False):
        return L.lt(a, b)
    return float(a) < float(b)


def req(L, a, b):
    if getattr(L, "symbolic", False):
        return L.eq(a, b)
    a, b = float(a), float(b)
    return abs(a - b) <= 1e-9 * max(abs(a), abs(b))


def _dim(sh):
    return sum(d for _, d in sh.space_vars)


def _is_dep(info, name):
    return bool(info.get("fam") == "dep" or info.get("dep") or "[t]" in name)


def _box_rows(box, shape, d, nrows):
    """the returned box as one list of 2d entries per parameter row (None if the layout is not understood).
    The documented layout is a flat tensor of length 2d (goal `layout_flat_2d`); a (1, 2d) or (k, 2d) result is
    additionally read row-wise so that the enclosure claim itself is still examined."""
    if shape == [2 * d]:
        return [box] * nrows
    if len(shape) == 2 and shape[1] == 2 * d and (shape[0] == 1 or shape[0] >= nrows):
        return [box[min(i, shape[0] - 1)] for i in range(nrows)]
    return None


def _enclosure_goals(o, L, d):
    rows = _box_rows(o["box"], o["shape"], d, len(o["mem"]))
    yield "layout_flat_2d", o["shape"] == [2 * d]
    if rows is None:
        return
    q = o["q"]
    for i, (mem, b) in enumerate(zip(o["mem"], rows)):
        for a in range(d):
            yield "min_below_member[row%d,axis%d]" % (i, a), L.Implies(mem, rle(L, b[2 * a], q[a]))
            yield "max_above_member[row%d,axis%d]" % (i, a), L.Implies(mem, rle(L, q[a], b[2 * a + 1]))


_BOUNDS = dict(max_paths=200, max_decisions=96, max_forks_per_site=96)


# --------------------------------------------------------------------------
# enclosure for every catalogue shape
# --------------------------------------------------------------------------


def encloses_case(name, mk, info, k, mode="ite", boundary=False, **kw):
    cname = "%s/%s/k%d%s" % ("bencloses" if boundary else "encloses", name, k, "/fork" if mode == "fork" else "")

    def body(env):
        sh = mk(env)
        d = _dim(sh)
        P, rows = SH.params(env, sh.pvars, k)
        L = env.L
        if hasattr(sh, "bind_rows"):
            sh.bind_rows(rows)
        for prm in rows:
            env.assume(sh.oset.positive(prm, L))
        dom = sh.dom.boundary if boundary else sh.dom
        with minmax_mode(env, mode):
            box = dom.bounding_box(P)
        q = SH.elems(env, env.tensor("q", (d,)))
        mem = [sh.oset.closure(q, prm, L, 0) for prm in rows]
        return dict(box=box, shape=list(box.shape), q=q, mem=mem, d=d)

    def goals(o, L, env):
        yield from _enclosure_goals(o, L, o["d"])

    b = dict(_BOUNDS)
    b.update(kw)
    return Case(cname, body, goals, family=("bencloses/" if boundary else "encloses/") + name,
                params=dict(shape=name, k=k, boundary=boundary, minmax=mode, **info), **b)


def fixed_angle_case(name, which):
    """Rotate.from_angles by a fixed angle: 'lead' = the unit square rotated by 45 degrees about the origin;
    'quarter<j>' = a symbolic parallelogram rotated by j*pi/2 about a symbolic point (boxes are mapped to boxes,
    so the rule of rotating two opposite corners is exact there)"""

    def body(env):
        L = env.L
        if which == "lead":
            X = tp.spaces.R2("x")
            sq = tp.domains.Parallelogram(X, env.const([0.0, 0.0]), env.const([1.0, 0.0]), env.const([0.0, 1.0]))
            a = SH.Sh("UnitSquare", sq, O.OParallelogram([0, 0], [1, 0], [0, 1]), [], [("x", 2)])
            r = rotate_r(env, a, "angle", around=False)
            c, s = r.oset.cs({})
            env.assume(L.And(L.eq(c, s), L.gt(c, 0)))  # the angle pi/4
        else:
            a = SH.parallelogram(env, tag="A")
            env.assume(a.oset.positive({}, L))
            r = rotate_r(env, a, "angle")
            c, s = r.oset.cs({})
            cj, sj = [(1, 0), (0, 1), (-1, 0), (0, -1)][int(which[-1]) % 4]
            env.assume(L.And(L.eq(c, cj), L.eq(s, sj)))
        with minmax_mode(env, "ite"):
            box = r.dom.bounding_box()
        q = SH.elems(env, env.tensor("q", (2,)))
        return dict(box=box, shape=list(box.shape), q=q, mem=[r.oset.closure(q, {}, L, 0)], d=2)

    def goals(o, L, env):
        yield from _enclosure_goals(o, L, 2)

    return Case("encloses/%s/k0" % name, body, goals, family="encloses/" + name, params=dict(shape=name, which=which), **_BOUNDS)


# --------------------------------------------------------------------------
# the composition layer on ARBITRARY operands with ARBITRARY enclosing boxes
# --------------------------------------------------------------------------


def abstract_case(op, k=0):
    cname = "abstract/%s/k%d" % (op, k)

    def body(env):
        L = env.L
        X = tp.spaces.R2("x")
        q = SH.elems(env, env.tensor("q", (3 if op == "product" else 2,)))
        a = BoxStub(X, env, "sa")
        rows = [{}]
        P = Points.empty()
        if op in ("+", "-", "&"):
            b = BoxStub(X, env, "sb")
            dom = {"+": a + b, "-": a - b, "&": a & b}[op]
            env.assume(a.encloses(q, L))
            env.assume(b.encloses(q, L))
            mem = [{"+": L.Or(a.inside, b.inside), "-": L.And(a.inside, L.Not(b.inside)), "&": L.And(a.inside, b.inside)}[op]]
        elif op == "product":
            b = BoxStub(tp.spaces.R1("t"), env, "sb")
            dom = a * b
            env.assume(a.encloses(q[:2], L))
            env.assume(b.encloses(q[2:], L))
            mem = [L.And(a.inside, b.inside)]
        elif op == "translate":
            v = SH.Aff(env, "tr", 2, "t" if k else None)
            dom = tp.domains.Translate(a, v.tp())
            P, rows = SH.params(env, [("t", 1)] if k else [], k)
            vo = v.oracle()
            # the inner set is examined at the pre-image of q under the motion of row 0
            w = vo(rows[0])
            env.assume(a.encloses([q[0] - w[0], q[1] - w[1]], L))
            mem = [a.inside]
            rows = rows[:1]
        elif op.startswith("rotate"):
            how = op.split(":")[1]
            sh0 = SH.Sh("Stub", a, None, [], [("x", 2)])
            r = rotate_r(env, sh0, how)
            dom = r.dom
            P, rows = SH.params(env, r.pvars, k)
            c, s = r.oset.cs(rows[0])
            ar = r.oset.around(rows[0]) if callable(r.oset.around) else r.oset.around
            x, y = q[0] - ar[0], q[1] - ar[1]
            env.assume(a.encloses([c * x + s * y + ar[0], -s * x + c * y + ar[1]], L))
            mem = [a.inside]
            rows = rows[:1]
        else:
            raise ValueError(op)
        with minmax_mode(env, "ite"):
            box = dom.bounding_box(P)
        return dict(box=box, shape=list(box.shape), q=q, mem=mem, d=len(q))

    def goals(o, L, env):
        yield from _enclosure_goals(o, L, o["d"])

    return Case(cname, body, goals, family="abstract/" + op, params=dict(op=op, k=k), **_BOUNDS)


# --------------------------------------------------------------------------
# tightness for primitives at a single parameter row
# --------------------------------------------------------------------------


def tight_case(kind, k, dep, mode="fork"):
    cname = "tight/%s%s/k%d%s" % (kind, "[t]" if dep else "", k, "" if mode == "fork" else "/ite")

    def body(env):
        sh = SH.PRIMS[kind](env, dep="t" if dep else None)
        d = _dim(sh)
        P, rows = SH.params(env, sh.pvars, k)
        L = env.L
        env.assume(sh.oset.positive(rows[0], L))
        with minmax_mode(env, mode):
            box = sh.dom.bounding_box(P)
        want = sh.oset.bbox(rows[0], L)
        return dict(box=box, shape=list(box.shape), want=want, d=d)

    def goals(o, L, env):
        d = o["d"]
        yield "layout_flat_2d", o["shape"] == [2 * d]
        if o["shape"] != [2 * d]:
            return
        for a in range(d):
            yield "min_is_extreme[axis%d]" % a, req(L, o["box"][2 * a], o["want"][a][0])
            yield "max_is_extreme[axis%d]" % a, req(L, o["box"][2 * a + 1], o["want"][a][1])
            yield "nondegenerate[axis%d]" % a, rlt(L, o["box"][2 * a], o["box"][2 * a + 1])

    return Case(cname, body, goals, family="tight/" + kind, params=dict(kind=kind, k=k, dep=dep, minmax=mode), **_BOUNDS)


# --------------------------------------------------------------------------
# Point (bounding_box_tol)
# --------------------------------------------------------------------------


def point_case(dim, k, form):
    """form: 'tensor' (constant coordinates given as tensor), 'number' (R1, python number), 'moving' (callable of t)"""
    cname = "point/%s/d%d/k%d" % (form, dim, k)

    def body(env):
        X = tp.spaces.Rn("x", dim)
        if form == "moving":
            c = SH.Aff(env, "Qp", dim, "t")
            base, slope = c.base, c.slope

            def f(t):
                return base + slope * t
            dom = tp.domains.Point(X, f)
            pv = [("t", 1)]
        elif form == "number":
            c = SH.Aff(env, "Qp", 1, None)
            dom = tp.domains.Point(X, c.base.item())
            pv = []
        else:
            c = SH.Aff(env, "Qp", dim, None)
            dom = tp.domains.Point(X, c.base.reshape(dim))
            pv = []
        oc = c.oracle()
        P, rows = SH.params(env, pv, k)
        box = dom.bounding_box(P)
        cs = [oc(prm) for prm in rows]
        return dict(box=box, shape=list(box.shape), cs=cs, d=dim)

    def goals(o, L, env):
        d = o["d"]
        yield "layout_flat_2d", o["shape"] == [2 * d]
        if o["shape"] != [2 * d]:
            return
        b = o["box"]
        for i, c in enumerate(o["cs"]):
            for a in range(d):
                yield "min_below_point[row%d,axis%d]" % (i, a), rle(L, b[2 * a], c[a])
                yield "max_above_point[row%d,axis%d]" % (i, a), rle(L, c[a], b[2 * a + 1])
        for a in range(d):
            # a normalisation built from the box divides by max-min
            yield "nondegenerate[axis%d]" % a, rlt(L, b[2 * a], b[2 * a + 1])

    return Case(cname, body, goals, family="point/" + form, params=dict(dim=dim, k=k, form=form), max_paths=64)


# --------------------------------------------------------------------------
# products: the set_bounding_box override
# --------------------------------------------------------------------------


def set_box_case(dependent):
    cname = "product_set_bounding_box/%s" % ("dependent" if dependent else "independent")

    def body(env):
        a = SH.circle(env, tag="A", dep="t" if dependent else None)
        b = SH.interval(env, tag="B", var="t")
        sh = SH.product(a, b)
        bt = env.tensor("ub", (6,))
        sh.dom.set_bounding_box([bt[i] for i in range(6)])
        box = sh.dom.bounding_box()
        return dict(box=list(box), user=SH.elems(env, bt), n=len(box))

    def goals(o, L, env):
        yield "length", o["n"] == 6
        for i in range(min(o["n"], 6)):
            yield "override_returned[%d]" % i, req(L, o["box"][i], o["user"][i])

    return Case(cname, body, goals, family="product_set_bounding_box", params=dict(dependent=dependent))


def operand_box_kept_case(op):
    """history: the box of a combination is asked, then the boxes of its operands again -- they are what they were before
    (the first operand is a product with a USER-SET box, which is handed out as the user's own list)"""
    cname = "operand_boxes_kept/%s" % op

    def body(env):
        L = env.L
        a1, b1 = SH.circle(env, tag="A"), SH.interval(env, tag="B", var="t")
        a2, b2 = SH.circle(env, tag="C"), SH.interval(env, tag="D", var="t")
        p1, p2 = a1.dom * b1.dom, a2.dom * b2.dom
        for sh in (a1, b1, a2, b2):
            env.assume(sh.oset.positive({}, L))
        ub = env.tensor("ub", (6,))
        user = [ub[i] for i in range(6)]
        p1.set_bounding_box(user)
        with minmax_mode(env, "ite"):
            before1, before2 = list(p1.bounding_box()), list(p2.bounding_box())
            comb = {"intersection": p1 & p2, "union": p1 + p2, "cut": p1 - p2, "intersection_swapped": p2 & p1}[op]
            comb.bounding_box()
            comb.bounding_box()
            after1, after2 = list(p1.bounding_box()), list(p2.bounding_box())
        return dict(b1=before1, a1=after1, b2=before2, a2=after2, user_now=list(user), user=SH.elems(env, ub))

    def goals(o, L, env):
        for nm, x, y in (("first_operand", o["a1"], o["b1"]), ("second_operand", o["a2"], o["b2"]), ("users_list", o["user_now"], o["user"])):
            yield "%s_length" % nm, len(x) == len(y) == 6
            for i in range(min(len(x), len(y))):
                yield "%s_box_unchanged[%d]" % (nm, i), req(L, x[i], y[i])

    return Case(cname, body, goals, family="operand_boxes_kept", params=dict(op=op))


# --------------------------------------------------------------------------
# consumers
# --------------------------------------------------------------------------


def _box_has_width(env, sh, d):
    """assumption for intersections: the box the layer is built from has positive width on every axis
    (positive measure of the operands does not give that for an intersection or a cut; a box of width 0 cannot be
    normalised).  Stated on the code's own box: enclosure is what the encloses/* cases decide."""
    L = env.L
    with minmax_mode(env, "ite"):
        box = sh.dom.bounding_box()
    if list(box.shape) != [2 * d]:
        return
    b = SH.elems(env, box)
    for a in range(d):
        env.assume(L.lt(b[2 * a], b[2 * a + 1]))


def normalize_case(name, mk, info):
    cname = "normalize/%s" % name

    def body(env):
        sh = mk(env)
        d = _dim(sh)
        L = env.L
        env.assume(sh.oset.positive({}, L))
        if info.get("kind") == "&":
            _box_has_width(env, sh, d)
        with minmax_mode(env, "ite"):
            layer = tp.models.NormalizationLayer(sh.dom)
        coords, q = {}, []
        for vn, vd in sh.space_vars:
            t = env.tensor("q_" + vn, (1, vd))
            coords[vn] = t
            q += SH.elems(env, t)
        out = layer(Points.from_coordinates(coords))
        mem = sh.oset.closure(q, {}, L, 0)
        res = dict(out=out.as_tensor, mem=mem, d=d, shape=list(out.as_tensor.shape))
        if len(sh.space_vars) > 1:
            # the same layer object again, the same point with its variables in reverse order (as sampler_t * sampler_x
            # delivers them): the named coordinates are the same, so is the image
            out2 = layer(Points.from_coordinates({vn: coords[vn] for vn, _ in reversed(sh.space_vars)}))
            res["out2"], res["keys"] = out2.as_tensor, (list(out.space.keys()), list(out2.space.keys()))
        return res

    def goals(o, L, env):
        d = o["d"]
        yield "output_shape", o["shape"] == [1, d]
        if o["shape"] != [1, d]:
            return
        for a in range(d):
            y = o["out"][0][a]
            yield "member_mapped_into_unit_cube[axis%d]" % a, L.Implies(o["mem"], L.And(L.le(-1, y), L.le(y, 1)))
        if "out2" in o:
            yield "same_output_space_for_reordered_input", o["keys"][0] == o["keys"][1]
            for a in range(d):
                yield "reordered_input_same_image[axis%d]" % a, req(L, o["out2"][0][a], o["out"][0][a])

    return Case(cname, body, goals, family="normalize/" + name, params=dict(shape=name, **info), **_BOUNDS)


def lhs_case(name, mk, info, n):
    cname = "lhs/%s/n%d" % (name, n)

    def body(env):
        sh = mk(env)
        d = _dim(sh)
        L = env.L
        env.assume(sh.oset.positive({}, L))
        s = tp.samplers.LHSSampler(sh.dom, n_points=n)
        with minmax_mode(env, "ite"):
            box = sh.dom.bounding_box()
        pts = s._create_lhs_in_bounding_box(box, "cpu")
        q = SH.elems(env, env.tensor("q", (d,)))
        mem = sh.oset.closure(q, {}, L, 0)
        return dict(box=box, bshape=list(box.shape), pts=pts, pshape=list(pts.shape), q=q, mem=mem, d=d)

    def goals(o, L, env):
        d = o["d"]
        yield "layout_flat_2d", o["bshape"] == [2 * d]
        yield "proposal_shape", o["pshape"] == [n, d]
        if o["bshape"] != [2 * d] or o["pshape"] != [n, d]:
            return
        b, p, q = o["box"], o["pts"], o["q"]
        for a in range(d):
            lo, hi = b[2 * a], b[2 * a + 1]
            w = (hi - lo) / n
            for r in range(n):
                yield "proposal_in_box[row%d,axis%d]" % (r, a), L.And(rle(L, lo, p[r][a]), rle(L, p[r][a], hi))
            slabs = [(lo + w * j, lo + w * (j + 1)) for j in range(n)]
            for j, (s0, s1) in enumerate(slabs):
                yield "slab_hit[axis%d,slab%d]" % (a, j), L.Or(*[L.And(rle(L, s0, p[r][a]), rle(L, p[r][a], s1)) for r in range(n)])
            # every member point's coordinate lies in a slab of the box (the slabs cover the domain)
            yield "member_in_a_slab[axis%d]" % a, L.Implies(o["mem"], L.Or(*[L.And(rle(L, s0, q[a]), rle(L, q[a], s1)) for s0, s1 in slabs]))

    return Case(cname, body, goals, family="lhs/" + name, params=dict(shape=name, n=n, **info), **_BOUNDS)


# --------------------------------------------------------------------------


def lhs_rows_case(kind):
    """LHSSampler over a parameter-dependent shape, two parameter rows that also carry a variable the shape does not depend
    on: the hypercube laid out for row i encloses the set of row i"""
    cname = "lhs_rows/%s[t]/k2/extra_parameter_variable" % kind

    def body(env):
        sh = SH.PRIMS[kind](env, dep="t")
        d = _dim(sh)
        L = env.L
        P, rows = SH.params(env, list(sh.pvars) + [("zz", 1)], 2)
        for prm in rows:
            env.assume(sh.oset.positive(prm, L))
        s = tp.samplers.LHSSampler(sh.dom, n_points=1)
        boxes = []
        orig = s._create_lhs_in_bounding_box

        def rec(bounding_box, device):
            boxes.append(bounding_box)
            return orig(bounding_box, device)

        s._create_lhs_in_bounding_box = rec
        with minmax_mode(env, "ite"):
            s.sample_points(P)
        q = SH.elems(env, env.tensor("q", (d,)))
        return dict(boxes=[b.reshape(-1) for b in boxes], q=q, mem=[sh.oset.closure(q, prm, L, 0) for prm in rows], d=d)

    def goals(o, L, env):
        yield "one_hypercube_per_parameter_row", len(o["boxes"]) == 2
        if len(o["boxes"]) != 2:
            return
        for i, b in enumerate(o["boxes"]):
            for a in range(o["d"]):
                yield "hypercube_of_row_encloses_set_of_row[row%d,axis%d]" % (i, a), L.Implies(
                    o["mem"][i], L.And(rle(L, b[2 * a], o["q"][a]), rle(L, o["q"][a], b[2 * a + 1])))

    return Case(cname, body, goals, family="lhs_rows/" + kind, params=dict(kind=kind), **_BOUNDS)


def translate_optional_case():
    """Translate around a circle whose radius function declares a default for its only argument (no necessary variable):
    a t supplied through the parameter rows is honoured by the circle, and by the box of the translated circle"""
    cname = "encloses/Translate(Circle[r(t=default)])/k2"

    def body(env):
        L = env.L
        r0, r1 = env.tensor("R0", ()), env.tensor("R1", ())
        c, v = env.tensor("Cc", (2,)), env.tensor("Tv", (2,))
        e0, e1, ec, ev = SH.elems(env, r0)[0], SH.elems(env, r1)[0], SH.elems(env, c), SH.elems(env, v)

        def radius(t=1.0):
            return r0 + r1 * t

        X = tp.spaces.R2("x")
        dom = tp.domains.Translate(tp.domains.Circle(X, c, radius), v)
        P, rows = SH.params(env, [("t", 1)], 2)
        for prm in rows:
            env.assume(L.gt(e0 + e1 * prm["t"][0], 0))
        env.assume(L.gt(e0 + e1, 0))
        with minmax_mode(env, "ite"):
            box = dom.bounding_box(P)
        q = SH.elems(env, env.tensor("q", (2,)))
        mem = []
        for prm in rows:
            rr = e0 + e1 * prm["t"][0]
            dx, dy = q[0] - ec[0] - ev[0], q[1] - ec[1] - ev[1]
            mem.append(L.le(dx * dx + dy * dy, rr * rr))
        return dict(box=box, shape=list(box.shape), q=q, mem=mem)

    def goals(o, L, env):
        b = o["box"]
        flat = [x for r in b for x in (r if isinstance(r, list) else [r])] if isinstance(b, list) else [b]
        rowsb = [flat[i:i + 4] for i in range(0, len(flat), 4)]
        yield "box_has_four_numbers_per_row", len(flat) % 4 == 0 and len(rowsb) in (1, 2)
        if len(flat) % 4 or len(rowsb) not in (1, 2):
            return
        for i, m in enumerate(o["mem"]):
            bx = rowsb[min(i, len(rowsb) - 1)]
            for a in range(2):
                yield "member_inside_box[row%d,axis%d]" % (i, a), L.Implies(m, L.And(rle(L, bx[2 * a], o["q"][a]), rle(L, o["q"][a], bx[2 * a + 1])))

    return Case(cname, body, goals, family="encloses/translate_optional", **_BOUNDS)


def boundary_two_orders_case():
    """history: the box of ONE boundary object is asked twice with the same numbers under the two variable orders (t,s)
    and (s,t): each answer is the box for the named values"""
    cname = "bencloses/Circle[c(s),r(t)]/same_numbers_other_variable_order"

    def body(env):
        from .c17 import circle_ts
        L = env.L
        sh = circle_ts(env, tag="A")
        bd = sh.dom.boundary
        vals = env.tensor("pv", (1, 2))
        a, b = SH.elems(env, vals)
        T_, S_ = tp.spaces.R1("t"), tp.spaces.R1("s")
        out = []
        for order, sp, prm in (("ts", T_ * S_, {"t": [a], "s": [b]}), ("st", S_ * T_, {"s": [a], "t": [b]})):
            env.assume(sh.oset.positive(prm, L))
            with minmax_mode(env, "ite"):
                box = bd.bounding_box(Points(vals, sp))
            out.append(dict(order=order, box=box.reshape(-1), want=sh.oset.bbox(prm, L)))
        return dict(q=out)

    def goals(o, L, env):
        for q in o["q"]:
            yield "layout[%s]" % q["order"], len(q["box"]) == 4
            if len(q["box"]) == 4:
                for ax, (lo, hi) in enumerate(q["want"]):
                    yield "tight_min[%s,axis%d]" % (q["order"], ax), req(L, q["box"][2 * ax], lo)
                    yield "tight_max[%s,axis%d]" % (q["order"], ax), req(L, q["box"][2 * ax + 1], hi)

    return Case(cname, body, goals, family="bencloses/history", **_BOUNDS)


def two_queries_case():
    """history: the SAME product object (factors depend on an external parameter, not on each other) is asked for its
    box twice with different parameter rows; each answer must be the exact box of its own row"""
    cname = "encloses/(Circle[t]*Interval_y)/two_queries_same_object"

    def body(env):
        L = env.L
        a = SH.circle(env, tag="A", dep="t")
        b = SH.interval(env, tag="B", var="y")
        d = a.dom * b.dom
        env.assume(b.oset.positive({}, L))
        out = []
        for qi in range(2):
            P, rows = SH.params(env, [("t", 1)], 1, tag="prm%d" % qi)
            env.assume(a.oset.positive(rows[0], L))
            box = d.bounding_box(P)
            want = a.oset.bbox(rows[0], L) + b.oset.bbox({}, L)
            out.append(dict(box=box.reshape(-1), want=want))
        return dict(q=out)

    def goals(o, L, env):
        for qi, q in enumerate(o["q"]):
            yield "layout_flat_2d[query%d]" % qi, len(q["box"]) == 2 * len(q["want"])
            if len(q["box"]) == 2 * len(q["want"]):
                for ax, (lo, hi) in enumerate(q["want"]):
                    yield "tight_min[query%d,axis%d]" % (qi, ax), req(L, q["box"][2 * ax], lo)
                    yield "tight_max[query%d,axis%d]" % (qi, ax), req(L, q["box"][2 * ax + 1], hi)

    return Case(cname, body, goals, family="encloses/product_history", **_BOUNDS)


def _catalog(tier):
    """the shape catalogue; its from_angles rotations are replaced by rotations whose counterexamples replay.
    Rotated polygons: the inner polygon is concrete (ConcShapeEnv: non-axis-aligned), the rotation, its centre and the
    query point symbolic -- with all 13 reals symbolic the solver does not decide these queries within the budgets;
    the composition layer itself is decided for ANY inner set and box by the abstract/rotate cases."""
    out = []
    for name, mk, info in SH.catalog(tier):
        if name.startswith("Rotate"):
            continue
        out.append((name, mk, info))
    for how in ("matrix", "angle", "angle[t]"):
        out.append(("Rotate<%s>(Circle)" % how, (lambda env, how=how: rotate_r(env, SH.circle(env, tag="A"), how)),
                    dict(fam="transform", rot=how, dep=(how == "angle[t]"))))
    if tier == "thorough":
        for kind in ("Parallelogram", "Triangle"):
            for how in ("matrix",) + (("angle[t]",) if kind == "Parallelogram" else ()):
                out.append(("Rotate<%s>(%s*)" % (how, kind),
                            (lambda env, kind=kind, how=how: rotate_r(env, SH.PRIMS[kind](SH.ConcShapeEnv(env), tag="A"), how)),
                            dict(fam="transform", rot=how, dep=(how == "angle[t]"), concrete_inner=True)))
        out.append(("Rotate<matrix>((Circle&Parallelogram)*)",
                    lambda env: rotate_r(env, SH.inter(SH.circle(SH.ConcShapeEnv(env), tag="A"),
                                                       SH.parallelogram(SH.ConcShapeEnv(env), tag="B")), "matrix"),
                    dict(fam="nested", rot="matrix", concrete_inner=True)))
    return out


def cases(tier):
    quick = tier == "quick"
    cs = []
    cat = _catalog(tier)
    for name, mk, info in cat:
        if info.get("dependent"):
            continue  # documented as a sampled approximation
        dep = _is_dep(info, name)
        prim = info.get("fam") in ("prim", "dep")
        poly = any(p in name for p in ("Parallelogram", "Triangle"))
        ks = ((1, 2) if dep else (0, 2)) if not quick else ((2,) if dep else (0,))
        if dep and not quick:
            ks = (1, 2)
        if info.get("rot") == "angle[t]" and quick:
            ks = (1,)  # quotients of the rational rotation x polygon: k=2 is covered with Circle
        for k in ks:
            cs.append(encloses_case(name, mk, info, k, mode="ite"))
        if prim and poly and (not quick or not dep):
            # the same claim with the builtin min()/max() forking one path per ordering
            cs.append(encloses_case(name, mk, info, 1 if dep else 0, mode="fork", max_paths=400))
    if quick:  # the 3-D primitive with two parameter rows of different radii (not in the quick catalogue)
        for name, mk, info in _catalog("thorough"):
            if name == "Sphere[t]":
                cs.append(encloses_case(name, mk, info, 2, mode="ite"))
    cs.append(two_queries_case())
    cs.append(translate_optional_case())
    cs.append(boundary_two_orders_case())
    cs.append(fixed_angle_case("Rotate45(unit square)", "lead"))
    for j in ((1,) if quick else (1, 2, 3)):
        cs.append(fixed_angle_case("Rotate%d(Parallelogram)" % (90 * j), "quarter%d" % j))
    # the boundary's box is the domain's box
    for name, mk, info in cat:
        if info.get("fam") == "prim" and name in ("Circle", "Interval"):
            cs.append(encloses_case(name, mk, info, 0, boundary=True))
        if name in ("(Circle*Interval)", "(Circle+Parallelogram)", "(Interval-Interval)"):
            # boundaries whose dimension is lower than that of their space (the boundary of a product IS a union)
            cs.append(encloses_case(name, mk, info, 0, boundary=True))
    for op in ("+", "-", "&", "product"):
        cs.append(abstract_case(op))
    for k in (0, 1, 2):
        cs.append(abstract_case("translate", k))
    cs.append(abstract_case("rotate:matrix", 0))
    cs.append(abstract_case("rotate:angle", 0))
    cs.append(abstract_case("rotate:matrix[t]", 1))
    if not quick:
        cs.append(abstract_case("rotate:matrix[t]", 2))
    for kind in ("Interval", "Circle", "Parallelogram", "Triangle") + (() if quick else ("Sphere",)):
        cs.append(tight_case(kind, 0, False))
        cs.append(tight_case(kind, 1, True, mode="ite" if quick else "fork"))
        if not quick and kind in ("Parallelogram", "Triangle"):
            cs.append(tight_case(kind, 0, False, mode="ite"))
    cs.append(point_case(1, 0, "number"))
    cs.append(point_case(2, 0, "tensor"))
    cs.append(point_case(2, 1, "moving"))
    cs.append(point_case(2, 2, "moving"))
    if not quick:
        cs.append(point_case(1, 0, "tensor"))
        cs.append(point_case(1, 2, "moving"))
    cs.append(set_box_case(False))
    cs.append(set_box_case(True))
    cs.append(lhs_rows_case("Interval"))
    if not quick:
        cs.append(lhs_rows_case("Circle"))
    for op in ("intersection", "union", "cut", "intersection_swapped"):
        cs.append(operand_box_kept_case(op))
    reps_q = ("Interval", "Circle", "Parallelogram", "(Circle+Parallelogram)", "(Interval-Interval)", "(Circle*Interval)",
              "Translate(Circle)", "Rotate<matrix>(Circle)")
    reps_t = reps_q + ("Triangle", "Sphere", "(Circle-Parallelogram)", "(Circle&Circle)", "Translate(Parallelogram)", "(Interval+Interval)", "(Interval&Interval)", "(Parallelogram*Interval)")
    for name, mk, info in cat:
        if name in (reps_q if quick else reps_t) and not _is_dep(info, name):
            cs.append(normalize_case(name, mk, info))
    lhs_q = ("Interval", "Circle", "Parallelogram", "(Circle*Interval)")
    lhs_t = lhs_q + ("Triangle", "(Circle+Parallelogram)", "Translate(Circle)", "Rotate<matrix>(Circle)")
    for name, mk, info in cat:
        if name in (lhs_q if quick else lhs_t):
            cs.append(lhs_case(name, mk, info, 2))
            if not quick and name in ("Interval", "Circle"):
                cs.append(lhs_case(name, mk, info, 3))
    if quick:
        for c in cs:
            c.budget_s = 100
    return cs
