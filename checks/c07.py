"""C07  Training through the Solver equals the reference optimisation loop.

Every case builds the same training problem TWICE from the same symbols (two independent object graphs: real
conditions around a real `tp.models.FCN` with activation z*z, a real learnable `Parameter`, real
`AdaptiveWeightLayer`s, fixed symbolic points, symbolic condition weights):

* world A is handed to the REAL `Solver`; a ~25-line driver (`_lightning_stub`) stands for `pl.Trainer.fit` and
  performs what Lightning documents for automatic optimisation: `configure_optimizers`, `on_train_start`, then per
  batch `training_step` -> `zero_grad` -> `backward` -> `optimizer.step` -> scheduler step at the configured
  interval/frequency, optionally `validation_step` under `no_grad` between the steps (and once before training:
  Lightning's sanity check).  The real `torch.optim.SGD/Adam` and `lr_scheduler.StepLR/ExponentialLR` step code runs
  above the dispatcher.
* world B is optimised by the reference loop written from the property statement (`_reference_loop`): every training
  condition evaluated once per step with the step index, sum of w_i * loss_i, the same optimizer class over ALL
  learnable tensors found by an independent object-graph walk (`_learnables`, not `Solver.parameters()`), adaptive
  point weights in a `maximize=True` group with the gradient reversal REMOVED from their layer (plain gradient
  ascent), the same scheduler stepped every `scheduler_frequency` steps.  Validation conditions do not occur in it.

Goals (z3 identities over all symbols, cell by cell): after every step all learnable tensors and all optimizer state
tensors of A equal those of B, and so do the learning rates; every training condition was called exactly once per step
with iteration == step index; every learnable tensor of the walk is in an optimizer param group and is updated; adaptive
weights moved in the ascent direction of the true (un-reversed) gradient; validation steps (incl. the sanity validation
before training) leave every learnable term unchanged.  'induct/' cases start both runs from an ARBITRARY symbolic
optimizer state after k steps (the inductive step of "after any number of steps").
"""
from __future__ import annotations

import time
import types
import zlib

import torch
import torchphysics as tp
import z3
from torchphysics.models.model import AdaptiveWeightLayer
from torchphysics.problem.conditions import condition as C
from torchphysics.problem.spaces import Space
from torchphysics.problem.spaces.points import Points
from torchphysics.solver import OptimizerSetting, Solver

import symtorch.ops_c07  # noqa: F401  (kernels reached by torch.optim only)
from symtorch import term as T
from symtorch.harness import Case
from symtorch.symt import SymT, lift

from . import condkit as K
from . import shapes as SH

META = dict(
    level="model_checking",
    bounds="training conditions drawn from PINNCondition (static sampler, residual with du/dx and a learnable inverse-problem "
           "Parameter), MeanCondition (non-static fixed sampler), DataCondition (real PointsDataLoader, 2 batches, norm 2), "
           "AdaptiveWeightsCondition (symbolic adaptive point weights), ParameterCondition (penalty on the shared Parameter), a "
           "user-defined Condition whose loss depends on the step index; all conditions of a case share one real FCN (1 input, 1 "
           "hidden layer of 1 or 2 neurons, activation z*z, 1 output) and one Parameter; 2 (one case 3) points per condition; all "
           "initial weights, the Parameter, adaptive weights, condition weights w_i, points and data symbolic (Python-float "
           "condition weights in two cases).  quick: 2 conditions, 2 steps, SGD lr 0.5 / 0.125 with momentum 0 / 0.5 (+ one case "
           "each: validation on, StepLR, non-zero starting step counter, Adam 1 step, inductive step).  thorough: every ordered "
           "pair of the six condition types and triples / a quadruple incl. AdaptiveWeightsCondition, 3 steps, SGD (momentum, "
           "nesterov + weight decay), StepLR(step_size 1, 2) / ExponentialLR with scheduler_frequency 1 and 2, validation "
           "conditions on/off (sharing model and Parameter with the training conditions, a validation-only Parameter, a "
           "validation data iterator), starting step counter 0 or 5; Adam (betas (0.5, 0.75), eps 1/8, and the defaults): 1 "
           "step from a cold start on 3-4 conditions, 2 steps on 2 conditions, 3 steps with one learnable cell, and the INDUCTIVE "
           "step: one (two for SGD) step(s) from an arbitrary symbolic optimizer state (momentum buffers / exp_avg / exp_avg_sq "
           ">= 0, step count 2, 4 or 7), which together with the cold first step covers any number of steps",
    outside=["pl.Trainer itself (replaced by the stub driver, see assumptions); real logging; multi-device; checkpoint I/O",
             "optimizer hyper-parameters are concrete (mostly dyadic) numbers from a small set, because torch hands them to the "
             "kernels as Python numbers; optimizers other than SGD/Adam; ReduceLROnPlateau; several optimizers; manual optimisation",
             "closure-based optimizers (LBFGS): they evaluate the loss several times per optimizer step, so 'once per step with the "
             "step index' has no counterpart (observed with the real Trainer: Solver.n_training_step then counts loss evaluations)",
             "more than 3 unrolled steps / 4 conditions; non-polynomial activations; random / adaptive samplers (C04/C14/C15)",
             "Parameters combined with .join() (cannot be handed to a condition at all: known finding F-C04-joined-parameters)",
             "Adam over 2+ unrolled steps on more than 2 conditions (z3 cannot exhibit a model of the nested square-root "
             "definitions for the reachability twin in reasonable time; replaced by cold step + inductive step)",
             "definedness of Adam's sqrt / division beyond the first step (non-negativity of sums of squares of high-degree "
             "polynomials): those cases run with check_obligations=False"],
    assumptions=["pl.Trainer.fit behaves as the stub: configure_optimizers, (restore of a checkpointed optimizer state,) sanity "
                 "validation, on_train_start, then per batch training_step -> optimizer.zero_grad -> loss.backward -> "
                 "optimizer.step (one optimizer step per batch, no gradient clipping / accumulation), lr-scheduler configs with "
                 "interval 'step' are stepped when (batch_idx + 1) % frequency == 0, validation_step runs under torch.no_grad() "
                 "and the grad mode is restored afterwards; solver.log is a no-op.  (Cross-checked outside the check: the real "
                 "pytorch_lightning 2.6.6 Trainer(inference_mode=False) and the stub give bit-identical float64 weights and "
                 "identical call sequences on three configurations incl. validation and scheduler_frequency 2.)",
                 "condition weights are 0-d tensors (a Python float takes the same `weight * loss` expression; two cases use "
                 "Python floats): a SymScalar weight would drop the autograd graph of a 0-d loss",
                 "torch.optim takes its single-tensor (non-foreach) code path on SymT parameters, as it does for any tensor "
                 "subclass on cpu",
                 "a non-zero starting step counter is modelled by assigning solver.n_training_step after on_train_start; an "
                 "arbitrary optimizer state by assigning optimizer.state[p] before training (what load_state_dict does)",
                 "inductive cases: Adam second moments are non-negative"],
)

DIMS = {"x": 1, "u": 1, "p": 1, "q": 1}
XS, US = ("x",), ("u",)


# --------------------------------------------------------------------------
# the training problem (built twice per case from the same symbols)
# --------------------------------------------------------------------------


class IterCondition(C.Condition):
    """a user-defined condition whose loss depends on the step index it is handed"""

    def __init__(self, module, sampler, weight, name):
        super().__init__(name=name, weight=weight, track_gradients=True)
        self.module = module
        self.sampler = sampler

    def forward(self, device="cpu", iteration=None):
        x = self.sampler.sample_points(device=device)
        y = self.module(x)
        return torch.mean((y.as_tensor - (iteration + 1) * x.as_tensor) ** 2)


class SharedFeature:
    """per-iteration cache shared by a training and a validation condition (what a FunctionSet + branch net are for the
    DeepONet conditions): recomputed whenever a NEW step index arrives, reused within one step"""

    def __init__(self):
        self.cur, self.val = None, None


class CachingCondition(C.Condition):
    def __init__(self, module, sampler, weight, name, shared, track_gradients=True):
        super().__init__(name=name, weight=weight, track_gradients=track_gradients)
        self.module, self.sampler, self.shared = module, sampler, shared

    def forward(self, device="cpu", iteration=None):
        x = self.sampler.sample_points(device=device)
        f = self.shared
        if iteration is None or iteration != f.cur:
            f.cur = iteration
            f.val = self.module(x).as_tensor  # carries a graph only if gradients are enabled right now
        return torch.mean((f.val - 2 * x.as_tensor) ** 2)


class World:
    def __init__(self):
        self.train, self.val, self.weights, self.calls = [], [], [], []
        self.shared = SharedFeature()


def _weight(env, tag, pyweights):
    if pyweights:
        return {"c0": 2.0, "c1": 0.5, "c2": 0.25, "c3": 1.0}.get(tag, 1.0)
    return env.tensor("w_" + tag, ())


def _mk_cond(env, kind, tag, model, prm, n, pyweights, shared=None):
    """one real condition; tag = unique name (also the prefix of its symbols)"""
    w = _weight(env, tag, pyweights)
    pts = lambda: K.fixed_points(env, tag + "_pts", XS, DIMS, n)  # noqa: E731
    if kind == "pinn":
        def residual(u, x, p):
            return tp.utils.grad(u, x) + u - p * x

        c = C.PINNCondition(model, K.FixedSampler(pts()).make_static(), residual, parameter=prm, weight=w, name=tag)
    elif kind == "pinn_q":  # validation only: its own Parameter q
        q, _ = K.sym_parameter(env, tag + "_q", Space({"q": 1}))

        def residual(u, x, q):
            return u - q * x

        c = C.PINNCondition(model, K.FixedSampler(pts()).make_static(), residual, parameter=q, weight=w, name=tag)
    elif kind == "mean":
        def residual(x, u):
            return u * x - 3 * u

        c = C.MeanCondition(model, K.FixedSampler(pts()), residual, weight=w, name=tag)
    elif kind == "data":
        X, Y = env.tensor(tag + "_X", (2 * n, 1)), env.tensor(tag + "_Y", (2 * n, 1))
        loader = tp.utils.PointsDataLoader((Points(X, K.space_of(XS, DIMS)), Points(Y, K.space_of(US, DIMS))), batch_size=n)
        c = C.DataCondition(model, loader, norm=2, weight=w, name=tag)
    elif kind == "adaptive":
        def residual(u, x):
            return u - x * x

        c = C.AdaptiveWeightsCondition(model, K.FixedSampler(pts()).make_static(), residual, weight=w, name=tag)
        aw = env.tensor(tag + "_aw", (n,))
        with torch.no_grad():
            c.adaptive_layer.weight.copy_(aw)
    elif kind == "param":
        def penalty(p):
            return ((p - 2) * (p - 2)).sum()

        c = C.ParameterCondition(prm, penalty, weight=w, name=tag)
    elif kind == "iter":
        c = IterCondition(model, K.FixedSampler(pts()), w, tag)
    elif kind == "cache":
        # as a VALIDATION condition it needs no gradients (track_gradients=False, like a data condition): what it caches
        # carries no graph
        c = CachingCondition(model, K.FixedSampler(K.fixed_points(env, "cache_pts", XS, DIMS, n)), w, tag, shared,
                             track_gradients=not tag.startswith("v"))
    else:
        raise ValueError(kind)
    return c, w


def _world(env, train, val, hidden, n, pyweights):
    wd = World()
    model, _ = K.sym_fcn(env, "m", K.space_of(XS, DIMS), K.space_of(US, DIMS), hidden=hidden)
    prm, _ = K.sym_parameter(env, "p", Space({"p": 1}))
    wd.model, wd.prm = model, prm
    for i, kind in enumerate(train):
        c, w = _mk_cond(env, kind, "c%d" % i, model, prm, n, pyweights, wd.shared)
        wd.train.append(c)
        wd.weights.append(w)
    for i, kind in enumerate(val):
        c, _ = _mk_cond(env, kind, "v%d" % i, model, prm, n, pyweights, wd.shared)
        wd.val.append(c)
    return wd


def _record_calls(wd):
    """instance-level wrapper around every condition's forward: (role, index, iteration) per call"""
    calls = wd.calls
    for role, conds in (("train", wd.train), ("val", wd.val)):
        for i, c in enumerate(conds):
            def fwd(device="cpu", iteration=None, _orig=c.forward, _role=role, _i=i):
                calls.append((_role, _i, iteration))
                return _orig(device=device, iteration=iteration)

            c.forward = fwd


# --------------------------------------------------------------------------
# independent walk over the object graph: all learnable tensors reachable from the conditions
# --------------------------------------------------------------------------

_WALK_MODULES = ("torchphysics", "torch.nn", "checks.", "symtorch.symt")


def _learnables(roots):
    """-> [(path, tensor, ascend)]: every leaf tensor that requires grad reachable from the given objects through
    attributes, containers, closures and bound methods; ascend = reached through an AdaptiveWeightLayer"""
    found, seen = [], set()

    def visit(o, path, asc):
        if o is None or isinstance(o, (str, bytes, int, float, bool, complex, type, types.ModuleType)):
            return
        if id(o) in seen:
            return
        seen.add(id(o))
        if isinstance(o, torch.Tensor):
            if o.requires_grad and o.is_leaf and o.numel() > 0:  # (the default `Parameter.empty()` has nothing to learn)
                found.append((path, o, asc))
            return
        if isinstance(o, AdaptiveWeightLayer):
            asc = True
        if isinstance(o, dict):
            for k, v in o.items():
                visit(v, "%s[%s]" % (path, k), asc)
            return
        if isinstance(o, (list, tuple, set, frozenset)):
            for k, v in enumerate(o):
                visit(v, "%s[%d]" % (path, k), asc)
            return
        if isinstance(o, (types.FunctionType, types.MethodType)):
            if isinstance(o, types.MethodType):
                visit(o.__self__, path + ".__self__", asc)
                o = o.__func__
            for k, cell in enumerate(o.__closure__ or ()):
                try:
                    visit(cell.cell_contents, "%s<closure %s>" % (path, o.__code__.co_freevars[k]), asc)
                except ValueError:
                    pass
            visit(o.__defaults__, path + ".__defaults__", asc)
            visit(o.__kwdefaults__, path + ".__kwdefaults__", asc)
            return
        if not (type(o).__module__ or "").startswith(_WALK_MODULES):
            return
        for k, v in sorted(getattr(o, "__dict__", {}).items()):
            visit(v, "%s.%s" % (path, k), asc)

    for i, r in enumerate(roots):
        visit(r, "cond%d" % i, False)
    return found


def _elems(env, t):
    if env.symbolic and not isinstance(t, SymT):
        t = lift(t)
    return SH.elems(env, t)


def _snap(env, learn):
    return {path: _elems(env, t) for path, t, _ in learn}


def _snap_state(env, learn, opt):
    out = {}
    for path, t, _ in learn:
        st = opt.state.get(t, {})
        out[path] = {k: _elems(env, v) for k, v in sorted(st.items()) if isinstance(v, torch.Tensor)}
    return out


# --------------------------------------------------------------------------
# optimizer settings of a case (concrete hyper-parameters)
# --------------------------------------------------------------------------

OPTS = {
    "sgd": (torch.optim.SGD, {}),
    "sgd_m": (torch.optim.SGD, dict(momentum=0.5)),
    "sgd_nesterov_wd": (torch.optim.SGD, dict(momentum=0.5, nesterov=True, weight_decay=0.25)),
    "adam": (torch.optim.Adam, dict(betas=(0.5, 0.75), eps=0.125)),
    "adam_default": (torch.optim.Adam, {}),
}
SCHEDS = {
    None: (None, {}),
    "steplr": (torch.optim.lr_scheduler.StepLR, dict(step_size=1, gamma=0.5)),
    "steplr2": (torch.optim.lr_scheduler.StepLR, dict(step_size=2, gamma=0.25)),
    "explr": (torch.optim.lr_scheduler.ExponentialLR, dict(gamma=0.5)),
}


def _warm_state(env, learn, optimizer, opt, k):
    """an ARBITRARY optimizer state after k steps (same symbols in both runs): momentum buffers / Adam moments symbolic,
    second moments >= 0; one step from it is the inductive step of 'after any number of steps'"""
    for i, (_, t, _) in enumerate(learn):
        if opt.startswith("adam"):
            ea = env.tensor("ea%d" % i, tuple(t.shape)).to(t.dtype)
            eas = env.tensor("eas%d" % i, tuple(t.shape)).to(t.dtype)
            for e in SH.elems(env, eas):
                env.assume(env.L.ge(e, 0))
            optimizer.state[t] = dict(step=torch.tensor(float(k)), exp_avg=ea, exp_avg_sq=eas)
        elif OPTS[opt][1].get("momentum"):
            optimizer.state[t] = dict(momentum_buffer=env.tensor("mb%d" % i, tuple(t.shape)).to(t.dtype))


# --------------------------------------------------------------------------
# run A: the real Solver, driven by the Lightning stub
# --------------------------------------------------------------------------


def _lightning_stub(solver, n_steps, validate, start_step, after_step, around_val, restore=None, epoch_len=None):
    """what pl.Trainer.fit does with a LightningModule under automatic optimisation (one optimizer; one epoch of n_steps
    batches, or -- epoch_len, i.e. Trainer(limit_train_batches=epoch_len) -- epochs of epoch_len batches with the
    documented hook order on_train_start, (on_train_epoch_start, batches, on_train_epoch_end)*; see META['assumptions'])"""
    solver.log = lambda *a, **k: None
    cfg = solver.configure_optimizers()
    if isinstance(cfg, torch.optim.Optimizer):
        optimizer, sched_cfgs = cfg, []
    else:
        (optimizer,), sched_cfgs = cfg
    if restore is not None:  # resuming: the optimizer state of a checkpoint is loaded before training starts
        restore(optimizer)
    if validate:  # sanity check: validation before training starts
        around_val(lambda: _validate(solver), -1)
    solver.on_train_start()
    if start_step:
        solver.n_training_step = start_step
    if epoch_len:
        assert not sched_cfgs  # Lightning counts scheduler frequencies per epoch-local batch index: not modelled
    for step in range(n_steps):
        batch_idx = step % epoch_len if epoch_len else step
        if epoch_len and batch_idx == 0:
            solver.on_train_epoch_start()
        loss = solver.training_step(None, batch_idx)
        optimizer.zero_grad()
        loss.backward()
        optimizer.step()
        for sc in sched_cfgs:
            if sc["interval"] == "step" and (batch_idx + 1) % sc["frequency"] == 0:
                sc["scheduler"].step()
        after_step(step, optimizer)
        if validate:
            around_val(lambda: _validate(solver), step)
        if epoch_len and (batch_idx == epoch_len - 1 or step == n_steps - 1):
            solver.on_train_epoch_end()
    return optimizer, sched_cfgs


def _validate(solver):
    with torch.no_grad():
        solver.validation_step(None, 0)


# --------------------------------------------------------------------------
# run B: the reference loop, written from the property statement
# --------------------------------------------------------------------------


def _reference_loop(env, wd, opt, lr, sched, freq, n_steps, start_step, warm):
    (opt_cls, opt_args), (sched_cls, sched_args) = OPTS[opt], SCHEDS[sched]
    learn = _learnables(wd.train)
    # adaptive point weights ASCEND: plain product instead of the gradient-reversal layer, maximised by the optimizer
    for c in wd.train:
        for m in c.modules():
            if isinstance(m, AdaptiveWeightLayer):
                m.forward = lambda pts, _m=m: _m.weight * pts
    groups = [dict(params=[t for _, t, asc in learn if not asc])]
    if any(asc for _, _, asc in learn):
        groups.append(dict(params=[t for _, t, asc in learn if asc], maximize=True))
    optimizer = opt_cls(groups, lr=lr, **opt_args)
    scheduler = sched_cls(optimizer, **sched_args) if sched_cls is not None else None
    if warm:
        _warm_state(env, learn, optimizer, opt, warm)
    states, ostates, grads, lrs = [], [], [], []
    for k in range(n_steps):
        total = None
        for c, w in zip(wd.train, wd.weights):
            term = w * c(device="cpu", iteration=start_step + k)
            total = term if total is None else total + term
        optimizer.zero_grad()
        total.backward()
        grads.append({path: _elems(env, t.grad) for path, t, asc in learn if asc})
        optimizer.step()
        if scheduler is not None and (k + 1) % freq == 0:
            scheduler.step()
        states.append(_snap(env, learn))
        ostates.append(_snap_state(env, learn, optimizer))
        lrs.append(sorted(set(g["lr"] for g in optimizer.param_groups)))
    return learn, states, ostates, grads, lrs


# --------------------------------------------------------------------------
# the case
# --------------------------------------------------------------------------


def train_case(train, opt, lr, steps, sched=None, freq=1, val=(), start=0, hidden=2, n=2, pyweights=False, warm=0,
               prior_lr=None, epoch_len=None):
    """warm=k: both runs start from an arbitrary symbolic optimizer state 'after k steps' (step counter k)"""
    start = warm or start
    name = "%s/%s/%s_lr%g/%s%s/steps%d%s%s/h%d%s" % (
        "induct" if warm else "train", "+".join(train), opt, lr, sched or "nosched", "_f%d" % freq if sched else "", steps,
        "/val=" + "+".join(val) if val else "", "/start%d" % start if start else "", hidden, "/pyweights" if pyweights else "")
    if prior_lr is not None:
        name += "/after_other_training_lr%g" % prior_lr
    if epoch_len:
        name += "/epochs_of%d" % epoch_len
    opt_cls, opt_args = OPTS[opt]
    sched_cls, sched_args = SCHEDS[sched]

    def body(env):
        # ---------------- run A: real Solver ----------------
        A = _world(env, train, val, hidden, n, pyweights)
        learnA = _learnables(A.train)
        learnV = [e for e in _learnables(A.val) if id(e[1]) not in {id(t) for _, t, _ in learnA}]
        want = ([id(t) for t in A.model.parameters()] if set(train) - {"param"} else []) + (
            [id(A.prm.as_tensor)] if {"pinn", "param"} & set(train) else []) + [
            id(c.adaptive_layer.weight) for c in A.train if isinstance(c, C.AdaptiveWeightsCondition)]
        walk_ok = sorted(want) == sorted(id(t) for _, t, _ in learnA)
        _record_calls(A)
        init = _snap(env, learnA)
        if prior_lr is not None:
            # history: another training was configured earlier in this process, with DEFAULT optimizer_args and
            # another learning rate; the training under test also relies on the default optimizer_args
            assert not opt_args and sched_cls is None
            Solver(A.train, A.val, optimizer_setting=OptimizerSetting(opt_cls, prior_lr)).configure_optimizers()
            setting = OptimizerSetting(opt_cls, lr)
        else:
            setting = OptimizerSetting(opt_cls, lr, optimizer_args=dict(opt_args), scheduler_class=sched_cls,
                                       scheduler_args=dict(sched_args), scheduler_frequency=freq)
        solver = Solver(A.train, A.val, optimizer_setting=setting)
        statesA, ostatesA, marks, val_pairs, lrsA = [], [], [0], [], []

        def after_step(k, optimizer):
            statesA.append(_snap(env, learnA))
            ostatesA.append(_snap_state(env, learnA, optimizer))
            marks.append(len(A.calls))
            lrsA.append(sorted(set(g["lr"] for g in optimizer.param_groups)))

        def around_val(run, k):
            before = _snap(env, learnA + learnV)
            run()
            val_pairs.append((k, before, _snap(env, learnA + learnV)))
            marks[-1] = len(A.calls)

        restore = (lambda o_: _warm_state(env, learnA, o_, opt, warm)) if warm else None
        optimizer, sched_cfgs = _lightning_stub(solver, steps, bool(val), start, after_step, around_val, restore, epoch_len=epoch_len)
        in_opt = {id(p) for g in optimizer.param_groups for p in g["params"]}
        per_step = [[c for c in A.calls[marks[k]:marks[k + 1]] if c[0] == "train"] for k in range(steps)]
        # ---------------- run B: reference loop on the twin ----------------
        B = _world(env, train, (), hidden, n, pyweights)
        learnB, statesB, ostatesB, gradsB, lrsB = _reference_loop(env, B, opt, lr, sched, freq, steps, start, warm)
        return dict(
            paths=[p for p, _, _ in learnA], paths_ref=[p for p, _, _ in learnB], ascend=[p for p, _, a in learnA if a],
            init=init, A=statesA, B=statesB, oA=ostatesA, oB=ostatesB, gradsB=gradsB,
            in_opt={p: id(t) in in_opt for p, t, _ in learnA}, per_step=per_step, n_train=len(train),
            n_training_step=solver.n_training_step, walk_ok=walk_ok, lrsA=lrsA, lrsB=lrsB, val_pairs=val_pairs,
            val_only=[p for p, _, _ in learnV],
            n_val_calls=sum(1 for c in A.calls if c[0] == "val"), final_val=_snap(env, learnV),
        )

    def goals(o, L, env):
        _EFFORT[0] = time.time() + 30
        # ---- structural facts first ----
        yield "walk_finds_same_learnables_in_twin", o["paths"] == o["paths_ref"]
        yield "walk_finds_exactly_model_parameter_and_adaptive_weights", o["walk_ok"]
        yield "adaptive_weights_recognised", train.count("adaptive") == len(o["ascend"])
        for p in o["paths"]:
            yield "learnable_is_in_optimizer[%s]" % p, o["in_opt"][p]
            yield "learnable_is_updated[%s]" % p, any(not _same(x, y) for x, y in zip(o["init"][p], o["A"][0][p]))
        for k in range(steps):
            calls = o["per_step"][k]
            for i in range(o["n_train"]):
                mine = [c for c in calls if c[1] == i]
                yield "condition_called_once_per_step[step%d,cond%d]" % (k, i), len(mine) == 1
                yield "iteration_is_step_index[step%d,cond%d]" % (k, i), all(c[2] == start + k for c in mine) and bool(mine)
        yield "step_counter_advanced_once_per_step", o["n_training_step"] == start + steps
        for k in range(steps):  # the learning rate in force after step k+1 (concrete numbers): the scheduler's effect
            yield "learning_rate_equals_reference[step%d]" % (k + 1), o["lrsA"][k] == o["lrsB"][k]
        if val:
            yield "validation_ran", o["n_val_calls"] == (steps + 1) * len(val)
        # ---- validation changes nothing (step 0 = Lightning's sanity validation before training) ----
        for k, before, after in o["val_pairs"]:
            for p in sorted(before):
                for j, (x, y) in enumerate(zip(before[p], after[p])):
                    yield "validation_changes_no_learnable[after_step%d][%s][%d]" % (k + 1, p, j), _eq(L, x, y)
        for p in o["val_only"]:
            for j, (x, y) in enumerate(zip(o["val_pairs"][0][1][p], o["final_val"][p])):
                yield "validation_only_learnable_untouched[%s][%d]" % (p, j), _eq(L, x, y)
        if o["paths"] != o["paths_ref"]:
            return
        # ---- learnable state and optimizer state after every step ----
        for k in range(steps):
            for p in o["paths"]:
                a, b = o["A"][k][p], o["B"][k][p]
                yield "state_shape[step%d][%s]" % (k + 1, p), len(a) == len(b)
                for j, (x, y) in enumerate(zip(a, b)):
                    yield "state_equals_reference[step%d][%s][%d]" % (k + 1, p, j), _eq(L, x, y)
                sa, sb = o["oA"][k][p], o["oB"][k][p]
                yield "optimizer_state_keys[step%d][%s]" % (k + 1, p), sorted(sa) == sorted(sb)
                for key in sorted(set(sa) & set(sb)):
                    for j, (x, y) in enumerate(zip(sa[key], sb[key])):
                        yield "optimizer_state_equals_reference[step%d][%s][%s][%d]" % (k + 1, p, key, j), _eq(L, x, y)
        # ---- adaptive weights ascend: (new - old) * d(loss)/d(weight) >= 0 with the true gradient of the reference ----
        # (implied at every step for plain SGD, at the first step from a cold start for momentum / Adam; not with weight decay)
        ascent_steps = 0 if "weight_decay" in opt_args or (warm and opt != "sgd") else (steps if opt == "sgd" else 1)
        for p in o["ascend"]:
            for k in range(ascent_steps):
                old = o["init"][p] if k == 0 else o["A"][k - 1][p]
                for j, g in enumerate(o["gradsB"][k][p]):
                    yield "adaptive_weight_ascends[step%d][%s][%d]" % (k + 1, p, j), L.ge((o["A"][k][p][j] - old[j]) * g, 0)

    return Case(name, body, goals, family=("induct/" if warm else "train/") + opt + ("/" + sched if sched else "") + ("/val" if val else ""),
                params=dict(train=train, opt=opt, lr=lr, steps=steps, sched=sched, freq=freq, val=val, start=start, hidden=hidden,
                            n=n, pyweights=pyweights, warm=warm),
                check_obligations=not opt.startswith("adam") or (steps == 1 and not warm),
                # Adam: the goals are syntactic identities or small; short solver slices keep the reachability twin (which needs a
                # model of the nested sqrt definitions) cheap - its fallback (relaxed model, then fixed inputs) is what succeeds
                timeout_ms=8000 if opt.startswith("adam") else None)


def _same(x, y):
    return x.eq(y) if isinstance(x, z3.ExprRef) and isinstance(y, z3.ExprRef) else x == y


_EFFORT = [0.0]  # deadline of the extra effort _eq spends on terms that are not syntactically identical (per goals() call)


def _eq(L, x, y):
    """x == y.  Terms that are not syntactically identical are (1) brought to a canonical sum-of-monomials form with bounded
    effort, so that the solver is handed `0 == 0` or a small residual polynomial; (2) if that does not settle it, evaluated at two
    fixed rational points: when they differ there, the goal handed over is the equality AT THAT POINT (weaker, and already known
    to be false), so that the solver answers with this counterexample at once instead of searching the zero set of a polynomial
    of high degree; otherwise the full equality goes to the solver."""
    if not L.symbolic or not (isinstance(x, z3.ExprRef) and isinstance(y, z3.ExprRef)) or x.eq(y) or time.time() > _EFFORT[0]:
        return L.eq(x, y)
    try:
        d = z3.TryFor(z3.With("simplify", som=True), 2000)(x - y == 0)
        if len(d) == 1 and z3.is_true(d[0].as_expr() if hasattr(d[0], "as_expr") else d[0]):
            return L.eq(x, x)
    except z3.Z3Exception:
        pass
    fv = T.free_vars(x - y)
    if fv and not any("!" in n for n in fv):  # (defined symbols - sqrt, quotients - cannot be evaluated by substitution)
        for salt in (b"a", b"b"):
            point = [(v, z3.RealVal("%d/4" % (zlib.crc32(salt + n.encode()) % 23 - 11))) for n, v in sorted(fv.items()) if z3.is_real(v)]
            try:  # bounded effort: numbers grow doubly exponentially with the number of steps
                r = z3.TryFor(z3.Tactic("simplify"), 1000)(z3.substitute(x - y, *point) == 0)
            except z3.Z3Exception:
                break
            if len(r) == 1 and len(r[0]) == 1 and z3.is_false(r[0][0]):
                return z3.Implies(z3.And([v == c for v, c in point]), x == y)
    return L.eq(x, y)


def cases(tier):
    th = tier == "thorough"
    cs = []
    # quick: 2 conditions (PINN with inverse-problem Parameter + mean type), 2 steps, SGD with / without momentum
    cs.append(train_case(("pinn", "mean"), "sgd", 0.5, 2))
    cs.append(train_case(("pinn", "mean"), "sgd_m", 0.125, 2))
    cs.append(train_case(("mean", "pinn"), "sgd_m", 0.5, 2, val=("pinn",)))
    cs.append(train_case(("pinn", "data"), "sgd", 0.125, 2, hidden=1))
    cs.append(train_case(("pinn", "adaptive"), "sgd", 0.5, 2, hidden=1))
    cs.append(train_case(("pinn", "param"), "sgd_m", 0.5, 2, hidden=1, pyweights=True))
    cs.append(train_case(("pinn", "iter"), "sgd", 0.5, 2, hidden=1, start=5))
    cs.append(train_case(("pinn", "mean"), "adam", 0.5, 1, hidden=1))
    cs.append(train_case(("pinn", "mean"), "sgd", 0.5, 2, sched="steplr", hidden=1))
    cs.append(train_case(("pinn", "mean"), "sgd_m", 0.5, 1, hidden=1, warm=3))
    cs.append(train_case(("pinn", "mean"), "sgd", 0.125, 1, hidden=1, prior_lr=0.5))
    # several epochs (Trainer(limit_train_batches=2)): the step index handed to the conditions is global, not per epoch
    cs.append(train_case(("pinn", "iter"), "sgd", 0.5, 3, hidden=1, epoch_len=2))
    # a Parameter that reaches the Solver through a ParameterCondition only
    cs.append(train_case(("param",), "sgd", 0.5, 2, hidden=1))
    # a per-iteration cache shared by a training and a validation condition: validation must not pre-empt the step's index
    cs.append(train_case(("pinn", "cache"), "sgd", 0.5, 2, val=("cache",), hidden=1))
    # optimizer arguments AND a scheduler in one OptimizerSetting
    cs.append(train_case(("pinn", "mean"), "sgd_m", 0.5, 2, sched="steplr", hidden=1))
    cs.append(train_case(("param", "mean"), "sgd_m", 0.5, 2, hidden=1))
    if th:
        P3 = ("pinn", "mean", "adaptive")
        # 3 conditions incl. adaptive weights, 3 steps, SGD variants
        for o_, lr_ in (("sgd", 0.5), ("sgd_m", 0.125), ("sgd_nesterov_wd", 0.5)):
            cs.append(train_case(P3, o_, lr_, 3, hidden=1))
        cs.append(train_case(P3, "sgd_m", 0.5, 3, hidden=2))
        # schedulers x frequency (3 steps: frequency 2 and step_size 2 act before the last step)
        for sc_, f_ in (("steplr", 1), ("steplr", 2), ("steplr2", 1), ("explr", 1), ("explr", 2)):
            cs.append(train_case(P3, "sgd_m", 0.5, 3, sched=sc_, freq=f_, hidden=1))
        # validation conditions on (sharing model and Parameter; data iterator; a validation-only Parameter)
        for o_, sc_ in (("sgd_m", None), ("sgd", "explr")):
            cs.append(train_case(P3, o_, 0.5, 3, sched=sc_, val=("pinn", "data"), hidden=1))
            cs.append(train_case(("pinn", "data", "adaptive"), o_, 0.5, 3, sched=sc_, val=("data", "pinn_q", "adaptive"), hidden=1))
        # non-zero starting step counter, step-dependent loss, four conditions, Python-float weights
        cs.append(train_case(("pinn", "iter", "adaptive"), "sgd_m", 0.5, 3, start=5, hidden=1))
        cs.append(train_case(("iter", "pinn", "param", "adaptive"), "sgd", 0.5, 3, sched="steplr", freq=2, start=5, val=("pinn",), hidden=1))
        cs.append(train_case(("pinn", "param", "mean", "data"), "sgd_nesterov_wd", 0.125, 3, hidden=1, pyweights=True))
        # every ordered pair of condition types (gradient accumulation order, shared model / Parameter), alternating settings
        KINDS = ("pinn", "mean", "data", "adaptive", "param", "iter")
        k_ = 0
        for a_ in KINDS:
            for b_ in KINDS:
                if a_ != b_:
                    o_, lr_ = (("sgd", 0.5), ("sgd_m", 0.125), ("sgd_m", 0.5), ("sgd_nesterov_wd", 0.125))[k_ % 4]
                    cs.append(train_case((a_, b_), o_, lr_, 3, sched=(None, "steplr", "explr")[k_ % 3], freq=1 + k_ % 2, hidden=1,
                                         start=(0, 5)[k_ % 2]))
                    k_ += 1
        cs.append(train_case(("pinn", "pinn", "mean"), "sgd_m", 0.5, 3, hidden=1))
        cs.append(train_case(("pinn", "data", "adaptive"), "sgd", 0.125, 3, hidden=2))
        cs.append(train_case(("mean", "adaptive", "pinn"), "sgd_nesterov_wd", 0.5, 3, hidden=2, val=("pinn_q",)))
        cs.append(train_case(("adaptive", "pinn"), "sgd_m", 0.5, 3, hidden=1, n=3))
        # Adam.  Every step introduces sqrt / quotient symbols defined by the previous ones; for the reachability twin z3 has
        # to exhibit a model of these nested definitions, which it does reliably only for: one step from a cold start, one
        # step from an arbitrary state (inductive cases below), two steps on the 2-condition problem, three steps when a
        # single cell is learnable.  Base case + inductive step cover any number of steps.
        for o_, lr_ in (("adam", 0.5), ("adam_default", 0.125)):
            cs.append(train_case(P3, o_, lr_, 1, hidden=1))
        cs.append(train_case(("adaptive", "data", "pinn"), "adam", 0.125, 1, hidden=1))
        cs.append(train_case(P3, "adam", 0.5, 1, hidden=2, val=("pinn", "data")))
        cs.append(train_case(("iter", "pinn", "param", "adaptive"), "adam", 0.5, 1, start=5, val=("data", "pinn_q", "adaptive"), hidden=1))
        for sc_ in (None, "steplr", "explr"):
            cs.append(train_case(("pinn", "mean"), "adam", 0.5, 2, sched=sc_, hidden=1))
        for sc_, f_ in (("steplr", 2), ("explr", 2), ("steplr2", 1)):
            cs.append(train_case(("param",), "adam", 0.5, 3, sched=sc_, freq=f_, hidden=1))
        # inductive step: from an ARBITRARY optimizer state 'after k steps' (symbolic momentum buffers / Adam moments)
        for o_ in ("sgd_m", "sgd_nesterov_wd", "adam", "adam_default"):
            cs.append(train_case(P3, o_, 0.5, 1, hidden=1, warm=2))
        cs.append(train_case(P3, "adam", 0.125, 1, hidden=1, warm=7))
        cs.append(train_case(("adaptive", "data", "pinn"), "adam", 0.125, 1, hidden=1, warm=2))
        cs.append(train_case(("iter", "pinn", "adaptive"), "adam", 0.5, 1, val=("pinn", "data"), hidden=1, warm=2))
        cs.append(train_case(("pinn", "data", "adaptive"), "sgd_m", 0.5, 2, sched="steplr", val=("data",), hidden=2, warm=4))
    seen, out = set(), []
    for c in cs:
        if c.name not in seen:
            seen.add(c.name)
            out.append(c)
    return out
