"""C08  Models are row-wise functions of named variables.

The real `FCN`, `Harmonic_FCN`, `Polynomial_FCN`, `QRES`, `DeepRitzNet`, `NormalizationLayer`,
`Sequential`, `Parallel` (models/model.py, fcn.py, qres.py, deepritz.py, activation_fn.py) are
constructed inside the case body; every parameter is then overwritten by fresh symbols, every input
cell is a fresh symbol, and the real `forward` is executed under the SymTorch dispatcher.  Each
claim is a per-cell z3 equality between two executions of the real code:

  perm/     the same named data presented in every variable order gives the same output
  missing/  an input lacking a required variable (dropped, or replaced by a differently named
            variable of the same width) is rejected with an exception
  rows/     row i of model(batch) == model(batch[i:i+1]) == row i of model(batch with the other rows
            replaced); the output row mentions no symbol of another row
  axes/     a (2,2,d) batch gives the rows of its (4,d) flattening
  seq/ par/ Sequential(f,g)(x) == g(f(x)); Parallel(f,g)(x) == [f(x|f.inputs) , g(x|g.inputs)] with the
            output space in declaration order
"""
from __future__ import annotations

import itertools
import math
import random
from fractions import Fraction

import torch
import torch.nn as nn
import z3

import torchphysics as tp
from torchphysics.problem.spaces import Points, Space
from torchphysics.models import (FCN, Harmonic_FCN, Polynomial_FCN, QRES, DeepRitzNet, NormalizationLayer,
                                 Sequential, Parallel)
from torchphysics.models.activation_fn import AdaptiveActivationFunction, ReLUn, Sinus

from symtorch.harness import Case, _zr
from symtorch.explore import EngineGap, Unwound, Infeasible
from symtorch import term as T
from symtorch import ops_c08 as _ops_c08  # noqa: F401  (extra kernels; registers on import)

META = dict(
    level="model_checking",
    bounds="FCN (tanh, relu, ReLUn(2), Sinus, AdaptiveActivationFunction(tanh)), Harmonic_FCN (frequencies<=2, min_frequenz 0/1), "
           "Polynomial_FCN (degree<=2, res_connection on/off), QRES (tanh, relu), DeepRitzNet (width 2, depth<=2), "
           "NormalizationLayer over Interval x Circle with symbolic bounds, Sequential / Parallel compositions of them (depth<=2); "
           "hidden (2,) quick / (2,2) thorough, output dim 1 (quick) / 2; input spaces of 2 and 3 variables of dim<=2 in every "
           "order; batch 2 quick, (2,2) and 3 thorough; EVERY parameter and every input cell a free real symbol",
    outside=["wider/deeper nets (nothing in forward branches on sizes, but that is an argument, not a solver verdict)",
             "more than two batch axes", "models outside models/{model,fcn,qres,deepritz,activation_fn}.py (DeepONet: C09, FNO: C20)",
             "weight initialisers: the drawn initial values are overwritten by free symbols (the claim is for all weights)",
             "float rounding"],
    assumptions=["tanh is an uninterpreted function R->(-1,1) (equalities by congruence); cos/sin of the Harmonic features are "
                 "symbols with c^2+s^2=1 keyed by their argument term; relu / ReLUn are If-terms",
                 "xavier_normal_/normal_/erfinv_ style initialisers are random stubs whose values are irrelevant: the harness "
                 "overwrites every parameter afterwards",
                 "NormalizationLayer: its weights are the ones the real constructor computes from the symbolic bounding box "
                 "(lb<ub, r>0 assumed); a second configuration overwrites them by free symbols",
                 "violated equalities: the counterexample search is helped by instantiating the inputs with small rationals "
                 "(a violated instance is a violated claim); the instantiated query is still decided by z3 and replayed on the "
                 "real code.  Equalities that hold are proved without instantiation"],
)


# --------------------------------------------------------------------------
# helpers
# --------------------------------------------------------------------------

ENGINE_EXC = (EngineGap, Unwound, Infeasible)


def symbolize(env, model, tag="w"):
    """replace the value of EVERY parameter by fresh symbols (works in symbolic and in replay mode)"""
    for name, p in model.named_parameters():
        w = env.tensor("%s_%s" % (tag, name.replace(".", "_")), tuple(p.shape))
        with torch.no_grad():
            p.copy_(w)
    return model


def coords(env, space, batch, tag="in"):
    return {v: env.tensor("%s_%s" % (tag, v), tuple(batch) + (space[v],)) for v in space}


def pts(co, order):
    """Points holding the named data `co` with the variables in `order`"""
    return Points(torch.cat([co[v] for v in order], dim=-1), Space({v: co[v].shape[-1] for v in order}))


def keys(p):
    return list(p.space.keys())


def rejected(f):
    """-> (raised?, exception type name)"""
    try:
        f()
    except ENGINE_EXC:
        raise
    except Exception as e:  # the rejection the property asks for
        return True, type(e).__name__
    return False, None


def flat_cells(x):
    if isinstance(x, list):
        out = []
        for y in x:
            out += flat_cells(y)
        return out
    return [x]


def shape_of(x):
    s = []
    while isinstance(x, list):
        s.append(len(x))
        x = x[0] if x else None
    return s


_UF_APPROX = {"tanh": (math.tanh, -1, 1), "sigmoid": (lambda x: 1 / (1 + math.exp(-x)), 0, 1), "exp": (math.exp, 0, None)}


def _uf_value(name, c):
    """a rational inside the range the engine's axioms allow for the uninterpreted function `name` at the numeral c
    (any such value is an admissible interpretation; it is a function of c, so congruence is respected)"""
    fn, lo, hi = _UF_APPROX[name]
    try:
        v = Fraction(fn(float(c))).limit_denominator(1000)
    except OverflowError:
        v = Fraction(1000)
    if name == "tanh" and c == 0:
        return Fraction(0)
    eps = Fraction(1, 1000)
    if lo is not None and v <= lo:
        v = lo + eps
    if hi is not None and v >= hi:
        v = hi - eps
    return v


def concretize(f, inst):
    """evaluate formula f at the instance `inst` [(const, value)]: applications of uninterpreted functions to numerals
    are given admissible values innermost-first.  -> (simplified formula, [app == value] hints)"""
    hints = []
    t = z3.simplify(z3.substitute(f, *inst))
    for _ in range(64):
        apps, seen, stack = {}, set(), [t]
        while stack:
            x = stack.pop()
            if x.get_id() in seen:
                continue
            seen.add(x.get_id())
            if (z3.is_app(x) and x.num_args() == 1 and x.decl().kind() == z3.Z3_OP_UNINTERPRETED
                    and x.decl().name() in _UF_APPROX and z3.is_rational_value(x.arg(0))):
                apps[x.get_id()] = x
            else:
                stack.extend(x.children())
        if not apps:
            break
        subs = []
        for x in apps.values():
            c = Fraction(x.arg(0).numerator_as_long(), x.arg(0).denominator_as_long())
            subs.append((x, z3.RealVal(str(_uf_value(x.decl().name(), c)))))
        hints += [x == v for x, v in subs]
        t = z3.simplify(z3.substitute(t, *subs))
    return t, hints


class G:
    """goal builder: per-cell equalities; for cells whose two terms are not syntactically identical a cheap
    witness is looked for by instantiating the case inputs with small rationals -- if z3 finds the instantiated
    equality violated, the instantiated goal (implied by the general one) is handed to the harness, which
    re-decides it and replays the model on the real code; otherwise the general goal is handed over."""

    TRIES = 3

    def __init__(self, L, env):
        self.L, self.env = L, env
        self._inst = None

    def _instances(self):
        if self._inst is None:
            rnd = random.Random(8)
            names = []
            for name, (shape, kind) in self.env.inputs.items():
                if kind != "real":
                    continue
                if shape == ():
                    names.append(name)
                else:
                    for idx in itertools.product(*[range(s) for s in shape]):
                        names.append(name + "".join("_%d" % i for i in idx))
            self._inst = []
            for _ in range(self.TRIES):
                self._inst.append([(z3.Real(n), z3.RealVal(str(Fraction(rnd.choice([-7, -5, -3, -2, -1, 1, 2, 3, 5, 6, 7]), 4))))
                                   for n in names])
            self._hyps = self.env.ctx.hyps()
        return self._inst

    def eq(self, name, a, b):
        L = self.L
        if not L.symbolic:
            return name, L.eq(a, b)
        f = L.eq(a, b)
        if isinstance(f, bool) or z3.is_true(z3.simplify(f)):
            return name, f
        # polynomial identity (uninterpreted applications are atoms): hand z3 the normalised difference
        try:
            d = z3.simplify(_zr(a) - _zr(b), som=True)
            if z3.is_rational_value(d) and d.numerator_as_long() == 0:
                return name, d == 0
        except z3.Z3Exception:
            pass
        for inst in self._instances():
            val, hints = concretize(f, inst)
            if z3.is_true(val):
                continue  # the equality holds at this instance
            if not z3.is_false(val):
                # defined symbols (quotients, cos/sin) are left to the solver
                s = z3.Solver()
                s.set("timeout", 3000)
                for h in self._hyps:
                    s.add(h)
                s.add(*[v == c for v, c in inst])
                s.add(*hints)
                s.add(z3.Not(f))
                if s.check() != z3.sat:
                    continue
            return name, z3.Implies(z3.And(*([v == c for v, c in inst] + hints)), f)
        return name, f

    def cells(self, name, a, b):
        """a, b nested lists of identical shape"""
        sa, sb = shape_of(a), shape_of(b)
        yield name + "_shape", sa == sb
        if sa != sb:
            return
        for k, (x, y) in enumerate(zip(flat_cells(a), flat_cells(b))):
            yield self.eq("%s[%d]" % (name, k), x, y)


def deep_vars(t, ctx, acc=None, seen=None):
    """names of the base symbols a term depends on, looking through defined symbols (cos!k = cos(arg), quot!k, ...)"""
    acc = {} if acc is None else acc
    seen = set() if seen is None else seen
    for n, v in T.free_vars(t).items():
        if n in seen:
            continue
        seen.add(n)
        d = ctx.defsym.get(v.get_id())
        if d is None:
            acc[n] = v
        else:
            for a in d[1:]:
                if T.is_sym(a):
                    deep_vars(a, ctx, acc, seen)
    return acc


# --------------------------------------------------------------------------
# model zoo
# --------------------------------------------------------------------------

X, Tt, U1, U2 = tp.spaces.R2("x"), tp.spaces.R1("t"), tp.spaces.R1("u"), tp.spaces.R2("u")
A, B2, C = tp.spaces.R1("a"), tp.spaces.R2("b"), tp.spaces.R1("c")
SPACES = {"xt": X * Tt, "abc": A * B2 * C, "tx": Tt * X}
V1, V2 = tp.spaces.R1("v"), tp.spaces.R2("v")


def _act(kind):
    return {"tanh": nn.Tanh, "relu": nn.ReLU, "relu2": lambda: ReLUn(2), "sin": Sinus,
            "atanh": lambda: AdaptiveActivationFunction(nn.Tanh(), inital_a=0.5, scaling=2.0)}[kind]()


def _norm_domain(env, order="tx"):
    L = env.L
    lb, ub = env.tensor("dom_lb", ()), env.tensor("dom_ub", ())
    c, r = env.tensor("dom_c", (2,)), env.tensor("dom_r", ())
    env.assume(L.lt(env.v(lb), env.v(ub)))
    env.assume(L.gt(env.v(r), 0))
    I = tp.domains.Interval(Tt, lb, ub)
    Ci = tp.domains.Circle(X, c, r)
    return I * Ci if order == "tx" else Ci * I


def zoo(tier):
    """name -> builder(env) -> model (parameters already symbolic)"""
    H = (2,) if tier == "quick" else (2, 2)
    z = {}

    def add(name, f, sym=True):
        def mk(env, f=f, sym=sym):
            m = f(env)
            return symbolize(env, m) if sym else m
        z[name] = mk

    outs = [("u1", U1)] if tier == "quick" else [("u1", U1), ("u2", U2)]
    for on, O in outs:
        for sn in ("xt", "abc"):
            S = SPACES[sn]
            if on == "u2" and sn == "abc":
                continue
            sfx = "%s/%s" % (sn, on)
            acts = ("tanh", "relu") if (sn == "abc" or on == "u2") else ("tanh", "relu", "relu2", "sin", "atanh")
            for a in acts:
                add("FCN-%s/%s" % (a, sfx), lambda env, S=S, O=O, a=a: FCN(S, O, hidden=H, activations=_act(a)))
            add("Harmonic-f1/%s" % sfx, lambda env, S=S, O=O: Harmonic_FCN(S, O, max_frequenz=1, hidden=H))
            add("Poly-d1/%s" % sfx, lambda env, S=S, O=O: Polynomial_FCN(S, O, polynomial_degree=1, hidden=H))
            add("QRES-tanh/%s" % sfx, lambda env, S=S, O=O: QRES(S, O, hidden=H, activations=nn.Tanh()))
            add("DeepRitz-d1/%s" % sfx, lambda env, S=S, O=O: DeepRitzNet(S, O, width=2, depth=1))
            if tier == "thorough" and sn == "xt":
                add("Harmonic-f2/%s" % sfx, lambda env, S=S, O=O: Harmonic_FCN(S, O, max_frequenz=2, hidden=H))
                add("Harmonic-f12/%s" % sfx, lambda env, S=S, O=O: Harmonic_FCN(S, O, max_frequenz=2, min_frequenz=1, hidden=H))
                add("Poly-d2/%s" % sfx, lambda env, S=S, O=O: Polynomial_FCN(S, O, polynomial_degree=2, hidden=H))
                add("Poly-d2-res/%s" % sfx, lambda env, S=S, O=O: Polynomial_FCN(S, O, polynomial_degree=2, hidden=H,
                                                                                res_connection=True))
                add("Poly-d1-res-relu/%s" % sfx, lambda env, S=S, O=O: Polynomial_FCN(S, O, polynomial_degree=1, hidden=H,
                                                                                     res_connection=True, activation=nn.ReLU()))
                add("QRES-relu/%s" % sfx, lambda env, S=S, O=O: QRES(S, O, hidden=H, activations=nn.ReLU()))
                add("DeepRitz-d2/%s" % sfx, lambda env, S=S, O=O: DeepRitzNet(S, O, width=2, depth=2))
    # NormalizationLayer: real constructor output kept / overwritten by free symbols
    add("Norm/tx", lambda env: NormalizationLayer(_norm_domain(env, "tx")), sym=False)
    add("Norm-sym/xt", lambda env: NormalizationLayer(_norm_domain(env, "xt")))
    # compositions
    add("Seq[Norm,FCN-tanh]/tx/u1", lambda env: Sequential(NormalizationLayer(_norm_domain(env, "tx")),
                                                         FCN(Tt * X, U1, hidden=H, activations=nn.Tanh())))
    add("Seq[FCN-tanh,QRES-tanh]/xt/u1", lambda env: Sequential(FCN(X * Tt, V2, hidden=H, activations=nn.Tanh()),
                                                              QRES(V2, U1, hidden=(2,), activations=nn.Tanh())))
    add("Par[FCN-tanh(x),FCN-relu(t,x)]/xt", lambda env: Parallel(FCN(X, U1, hidden=H, activations=nn.Tanh()),
                                                                FCN(Tt * X, V1, hidden=H, activations=nn.ReLU())))
    add("Par[Poly(t),Harmonic(x)]/tx", lambda env: Parallel(Polynomial_FCN(Tt, V1, polynomial_degree=1, hidden=(2,)),
                                                          Harmonic_FCN(X, U2, max_frequenz=1, hidden=(2,))))
    if tier == "thorough":
        add("Seq[Par[FCN(x),DeepRitz(t)],FCN]/xt", lambda env: Sequential(
            Parallel(FCN(X, V1, hidden=(2,), activations=nn.Tanh()), DeepRitzNet(Tt, U1, width=2, depth=1)),
            FCN(V1 * U1, tp.spaces.R1("y"), hidden=(2,), activations=nn.Tanh())))
        add("Par[QRES(x,t),Seq[Norm,FCN]]/xt", lambda env: Parallel(
            QRES(X * Tt, V1, hidden=(2,), activations=nn.Tanh()),
            Sequential(NormalizationLayer(_norm_domain(env, "tx")), FCN(Tt * X, U1, hidden=(2,), activations=nn.Tanh()))))
    return z


# --------------------------------------------------------------------------
# case families
# --------------------------------------------------------------------------


def after_others(mk):
    """history: before the model under test is used, OTHER models (small FCNs) that DECLARE exactly the layouts it will be
    asked with (every other variable order, every renamed layout of missing/) have been evaluated on such Points -- what
    another model accepted must not influence this one"""
    def mk2(env):
        m = mk(env)
        order = keys_of(m.input_space)
        dims = {v: m.input_space[v] for v in order}
        layouts = [[(v, dims[v]) for v in p] for p in itertools.permutations(order) if list(p) != order]
        for v in order:
            o2 = [(w, dims[w]) if w != v else ("zz", dims[v]) for w in order]
            layouts.append(o2)
            if len(order) > 1:
                layouts.append(o2[1:] + o2[:1])
            rest = [(w, dims[w]) for w in order if w != v]
            if rest:
                layouts.append(rest)
        for i, lay in enumerate(layouts):
            sp = Space(dict(lay))
            other = symbolize(env, FCN(sp, U1, hidden=(2,), activations=nn.Tanh()), "wo%d" % i)
            other(Points(torch.cat([env.tensor("ino%d_%s" % (i, n), (2, d)) for n, d in lay], dim=-1), sp))
        return m
    return mk2


def perm_case(mname, mk, batch):
    cname = "perm/%s/b%s" % (mname, "x".join(map(str, batch)))

    def body(env):
        m = mk(env)
        order = keys_of(m.input_space)
        co = coords(env, m.input_space, batch)
        base = m(pts(co, order))
        outs = {}
        for p in itertools.permutations(order):
            if list(p) == order:
                continue
            outs["".join(p)] = m(pts(co, list(p)))
        return dict(base=base, outs=outs, out_keys=keys(base), want_keys=keys_of(m.output_space),
                    shape=list(base.as_tensor.shape), want_shape=list(batch) + [m.output_space.dim])

    def goals(o, L, env):
        g = G(L, env)
        yield "output_space", o["out_keys"] == o["want_keys"]
        yield "output_shape", o["shape"] == o["want_shape"]
        for p, out in o["outs"].items():
            yield from g.cells("same_output[%s]" % p, out, o["base"])

    return Case(cname, body, goals, family="perm/" + mname.split("/")[0], params=dict(model=mname, batch=list(batch)))


def keys_of(space):
    return list(space.keys())


def missing_case(mname, mk):
    cname = "missing/%s" % mname

    def body(env):
        m = mk(env)
        order = keys_of(m.input_space)
        co = coords(env, m.input_space, (2,))
        flags, kinds = {}, {}
        for v in order:
            rest = [w for w in order if w != v]
            if rest:
                flags["drop_" + v], kinds["drop_" + v] = rejected(lambda: m(pts(co, rest)))
            # same data, same widths, but the column block is not called `v`
            ren = dict(co)
            ren["zz"] = ren.pop(v)
            o2 = [w if w != v else "zz" for w in order]
            flags["rename_" + v], kinds["rename_" + v] = rejected(lambda: m(pts(ren, o2)))
            if len(order) > 1:
                o3 = o2[1:] + o2[:1]
                flags["rename_rot_" + v], kinds["rename_rot_" + v] = rejected(lambda: m(pts(ren, o3)))
        env.note("rejections: %s" % kinds)
        return dict(flags=flags)

    def goals(o, L, env):
        for k, f in o["flags"].items():
            yield "rejected[%s]" % k, bool(f)

    return Case(cname, body, goals, family="missing/" + mname.split("/")[0], params=dict(model=mname))


def rows_case(mname, mk, n):
    cname = "rows/%s/n%d" % (mname, n)

    def body(env):
        m = mk(env)
        order = keys_of(m.input_space)
        co = coords(env, m.input_space, (n,))
        alt = coords(env, m.input_space, (n,), tag="alt")
        p = pts(co, order)
        full = m(p)
        singles, alts = [], []
        for i in range(n):
            singles.append(m(p[i:i + 1]))
            mix = {v: torch.cat([alt[v][:i], co[v][i:i + 1], alt[v][i + 1:]], dim=0) for v in order}
            alts.append(m(pts(mix, order)))
        return dict(full=full, singles=singles, alts=alts, n=n, shape=list(full.as_tensor.shape),
                    want_shape=[n, m.output_space.dim])

    def goals(o, L, env):
        g = G(L, env)
        yield "output_shape", o["shape"] == o["want_shape"]
        if o["shape"] != o["want_shape"]:
            return
        for i in range(o["n"]):
            yield from g.cells("row_equals_single[%d]" % i, [o["full"][i]], o["singles"][i])
            yield from g.cells("other_rows_irrelevant[%d]" % i, o["full"][i], o["alts"][i][i])
            if L.symbolic:
                # the row's terms must not depend on symbols of other rows: structurally absent, or (if a foreign
                # symbol occurs) renaming it must not change the value
                bad = None
                for cell in o["full"][i]:
                    sub = []
                    for nme, v in deep_vars(cell, env.ctx).items():
                        if nme.startswith("alt_"):
                            sub.append((v, z3.Real("in_" + nme[4:])))
                        elif nme.startswith("in_") and int(nme.split("_")[2]) != i:
                            sub.append((v, z3.Real("alt_" + nme[3:])))
                    if sub and bad is None:
                        bad = (cell, z3.substitute(cell, *sub))
                if bad is None:
                    yield "no_foreign_symbol[%d]" % i, True
                else:
                    yield g.eq("no_foreign_symbol[%d]" % i, bad[0], bad[1])
            else:
                yield "no_foreign_symbol[%d]" % i, all(L.eq(a, b) for a, b in zip(o["full"][i], o["alts"][i][i]))

    return Case(cname, body, goals, family="rows/" + mname.split("/")[0], params=dict(model=mname, n=n))


def axes_case(mname, mk, accepts=True):
    cname = "axes/%s" % mname

    def body(env):
        m = mk(env)
        order = keys_of(m.input_space)
        d = m.input_space.dim
        t = env.tensor("in", (2, 2, d))
        flat = m(Points(t.reshape(4, d), m.input_space))
        res = dict(flat=flat, od=m.output_space.dim)
        if accepts:
            res["nested"] = m(Points(t, m.input_space))
            res["raised"] = False
        else:
            # a model written for one batch axis: it must either reject the input or treat it correctly
            box = {}

            def run():
                box["o"] = m(Points(t, m.input_space))
            res["raised"], _ = rejected(run)
            res["nested"] = box.get("o")
        if res["nested"] is not None:
            res["shape"] = list(res["nested"].as_tensor.shape)
        return res

    def goals(o, L, env):
        g = G(L, env)
        if o["raised"]:
            yield "rejected_or_row_wise", True
            return
        yield "output_shape", o["shape"] == [2, 2, o["od"]]
        if o["shape"] != [2, 2, o["od"]]:
            return
        nested = [r for blk in o["nested"] for r in blk]
        yield from g.cells("nested_equals_flat", nested, o["flat"])

    return Case(cname, body, goals, family="axes/" + mname.split("/")[0], params=dict(model=mname, accepts=accepts))


def seq_case(name, parts, batch):
    """Sequential(*parts)(x) == parts[-1](...parts[0](x))"""
    cname = "seq/%s/b%s" % (name, "x".join(map(str, batch)))

    def body(env):
        ms = [symbolize(env, f(env), "w%d" % k) if sym else f(env) for k, (f, sym) in enumerate(parts)]
        s = Sequential(*ms)
        co = coords(env, s.input_space, batch)
        x = pts(co, keys_of(s.input_space))
        got = s(x)
        y = x
        for m in ms:
            y = m(y)
        return dict(got=got, want=y, gk=keys(got), wk=keys_of(ms[-1].output_space), ik=keys_of(s.input_space),
                    wik=keys_of(ms[0].input_space))

    def goals(o, L, env):
        g = G(L, env)
        yield "input_space_is_first", o["ik"] == o["wik"]
        yield "output_space_is_last", o["gk"] == o["wk"]
        yield from g.cells("equals_composition", o["got"], o["want"])

    return Case(cname, body, goals, family="seq/" + name, params=dict(parts=name, batch=list(batch)))


def par_case(name, parts, batch, in_order=None):
    """Parallel(*parts)(x) == join of parts[k](x restricted to parts[k].input_space)"""
    cname = "par/%s/b%s%s" % (name, "x".join(map(str, batch)), "/" + "".join(in_order) if in_order else "")

    def body(env):
        ms = [symbolize(env, f(env), "w%d" % k) if sym else f(env) for k, (f, sym) in enumerate(parts)]
        par = Parallel(*ms)
        co = coords(env, par.input_space, batch)
        order = list(in_order) if in_order else keys_of(par.input_space)
        got = par(pts(co, order))
        outs = [m(pts(co, keys_of(m.input_space))) for m in ms]
        want_in = []
        for m in ms:
            want_in += [k for k in keys_of(m.input_space) if k not in want_in]
        want_out = [k for m in ms for k in keys_of(m.output_space)]
        return dict(got=got, outs=outs, gk=keys(got), wk=want_out, mk=keys_of(par.output_space), ik=keys_of(par.input_space),
                    wik=want_in, ndim=len(batch))

    def goals(o, L, env):
        g = G(L, env)
        yield "input_space_is_union_in_order", o["ik"] == o["wik"]
        yield "declared_output_space_in_declaration_order", o["mk"] == o["wk"]
        yield "output_space_in_declaration_order", o["gk"] == o["wk"]

        def rows(x, nd):
            return x if nd == 1 else [r for blk in x for r in rows(blk, nd - 1)]

        got = rows(o["got"], o["ndim"])
        parts_rows = [rows(p, o["ndim"]) for p in o["outs"]]
        want = [sum((pr[i] for pr in parts_rows), []) for i in range(len(got))]
        yield from g.cells("equals_join_of_parts", got, want)

    return Case(cname, body, goals, family="par/" + name, params=dict(parts=name, batch=list(batch), order=in_order))


# --------------------------------------------------------------------------


def cases(tier):
    cs = []
    z = zoo(tier)
    quick = tier == "quick"
    for mname, mk in z.items():
        cs.append(perm_case(mname, mk, (2,)))
        if not quick and not mname.startswith("Poly") and "Poly" not in mname and "/abc" not in mname:
            cs.append(perm_case(mname, mk, (2, 2)))
        cs.append(missing_case(mname, mk))
        cs.append(rows_case(mname, mk, 2))
        if not quick and "/xt/u1" in mname:
            cs.append(rows_case(mname, mk, 3))
        if "/abc" in mname and quick:
            continue
        cs.append(axes_case(mname, mk, accepts="Poly" not in mname))
    # four input variables: reorderings that keep the outer variables and permute the inner ones
    ABCD = A * B2 * C * tp.spaces.R1("d")
    cs.append(perm_case("FCN-tanh/abcd/u1", lambda env: symbolize(env, FCN(ABCD, U1, hidden=(2,), activations=nn.Tanh())), (2,)))
    # narrow residual polynomial network (every hidden layer of width 1) and two batch axes for permuted inputs
    narrow = lambda env: symbolize(env, Polynomial_FCN(SPACES["xt"], U1, polynomial_degree=1, hidden=(1, 1), res_connection=True))
    cs.append(rows_case("Poly-d1-res-h1x1/xt/u1", narrow, 2))
    cs.append(perm_case("Poly-d1-res-h1x1/xt/u1", narrow, (2,)))
    for mname in ("DeepRitz-d1/xt/u1", "FCN-tanh/xt/u1", "QRES-tanh/xt/u1"):
        if quick:
            cs.append(perm_case(mname, z[mname], (2, 2)))
    # the same claims after other models were evaluated on the layouts in question (process-wide state)
    for mname in ["FCN-tanh/xt/u1", "QRES-tanh/xt/u1", "Norm-sym/xt"] + ([] if quick else ["Harmonic-f1/xt/u1", "DeepRitz-d1/xt/u1", "FCN-relu/abc/u1"]):
        cs.append(perm_case("after_others:" + mname, after_others(z[mname]), (2,)))
        cs.append(missing_case("after_others:" + mname, after_others(z[mname])))
    # Polynomial_FCN is written for ONE batch axis; where sizes happen to fit it must not silently mix rows
    cs.append(axes_case("Poly-d1/x/u1", lambda env: symbolize(env, Polynomial_FCN(X, U1, polynomial_degree=1, hidden=(2,))),
                        accepts=False))
    if not quick:
        cs.append(axes_case("Poly-d2/x/u1", lambda env: symbolize(env, Polynomial_FCN(X, U1, polynomial_degree=2, hidden=(2, 2))),
                            accepts=False))
    H = (2,) if quick else (2, 2)
    f_fcn = (lambda env: FCN(X * Tt, V2, hidden=H, activations=nn.Tanh()), True)
    f_norm = (lambda env: NormalizationLayer(_norm_domain(env, "tx")), False)
    seqs = {
        "FCN>QRES": [f_fcn, (lambda env: QRES(V2, U1, hidden=(2,), activations=nn.Tanh()), True)],
        "Norm>FCN": [f_norm, (lambda env: FCN(Tt * X, U1, hidden=H, activations=nn.Tanh()), True)],
        "Norm>Harmonic>Poly": [f_norm, (lambda env: Harmonic_FCN(Tt * X, V1, max_frequenz=1, hidden=(2,)), True),
                               (lambda env: Polynomial_FCN(V1, U1, polynomial_degree=1, hidden=(2,)), True)],
        # the second part declares its inputs in another order than the first part delivers them
        "Par>FCN(reordered)": [(lambda env: Parallel(symbolize(env, FCN(X, V1, hidden=(2,)), "wa"),
                                                     symbolize(env, DeepRitzNet(Tt, U1, width=2, depth=1), "wb")), False),
                               (lambda env: FCN(U1 * V1, tp.spaces.R1("y"), hidden=(2,), activations=nn.ReLU()), True)],
    }
    for n, parts in seqs.items():
        cs.append(seq_case(n, parts, (2,)))
        if not quick:
            cs.append(seq_case(n, parts, (2, 2)))
    pars = {
        "FCN(x)|FCN(t,x)": [(lambda env: FCN(X, U1, hidden=H, activations=nn.Tanh()), True),
                           (lambda env: FCN(Tt * X, V2, hidden=H, activations=nn.ReLU()), True)],
        "QRES(t)|Harmonic(x)|DeepRitz(x,t)": [(lambda env: QRES(Tt, V1, hidden=(2,), activations=nn.Tanh()), True),
                                             (lambda env: Harmonic_FCN(X, U2, max_frequenz=1, hidden=(2,)), True),
                                             (lambda env: DeepRitzNet(X * Tt, tp.spaces.R1("y"), width=2, depth=1), True)],
        "Poly(a)|Norm(t,x)": [(lambda env: Polynomial_FCN(A, V1, polynomial_degree=1, hidden=(2,)), True), f_norm],
    }
    for n, parts in pars.items():
        cs.append(par_case(n, parts, (2,)))
        if n.startswith("FCN"):
            cs.append(par_case(n, parts, (2,), in_order=("t", "x")))
        if not quick and "Poly" not in n:
            cs.append(par_case(n, parts, (2, 2)))
    return cs
