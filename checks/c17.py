"""C17  Partially evaluating a domain is the same as supplying the parameters."""
from __future__ import annotations

import torch
import torchphysics as tp
from torchphysics.problem.spaces.points import Points
from torchphysics.problem.domains.domain import Domain
from torchphysics.problem.domains.domainoperations.union import UnionDomain
from torchphysics.problem.domains.domainoperations.cut import CutDomain
from torchphysics.utils.user_fun import UserFunction

from symtorch.harness import Case
from oracle import sets as O
from . import shapes as SH
from .c18 import minmax_mode, req

META = dict(
    level="model_checking",
    bounds="parameter-dependent domain expressions (Interval/Circle/Point; thorough: Parallelogram/Triangle/Sphere) with shape "
           "parameters affine in t, in s, or in both (one user function of two variables); one Boolean operation, product, "
           "translation or rotation of such shapes (thorough: Circle x Parallelogram pairs, nesting depth 2); all coefficients "
           "symbolic; every non-empty subset of {t, s} fixed to symbolic values given as 0-d tensor (also (1,)-tensor and python "
           "scalar for primitives); D(**v) compared with D at params=v on k<=2 symbolic rows of the remaining variables: "
           "_contains of symbolic query points (iff), volume (=), bounding_box (=), sample_random_uniform / sample_grid with "
           "n=2 where both executions receive the SAME draw symbols (cell-wise =); the same for D.boundary(**v) and "
           "D(**v).boundary, Interval.boundary_left/right; D(t=v)(s=w) = D(s=w)(t=v) = D(t=v,s=w) = D at params; original "
           "unchanged (attribute/default-table identities and membership terms before/after); necessary_variables = free "
           "variables before and after, exactly that set suffices, one less raises, an unrelated variable changes nothing; "
           "CutDomain(contained=True) / UnionDomain(disjoint=True) flags; products fixing their own second-factor variable",
    outside=["shapely/trimesh primitives", "values with more than one element per variable", "k>2 rows, n>2 points",
             "sampling of Boolean combinations: only Interval pairs, samples of D(**v) required to lie in the set D denotes at "
             "the fixed values, rejection loops unwound to 24 paths / 4 forks per site (beyond: reported as unwound); "
             "sample_grid of polygons (integer side-ratio forks; membership of grids is C01)",
             "volume/bounding box of dependent products (sampled approximations)"],
    assumptions=["shapes have positive measure at the examined rows",
                 "builtin min()/max() of the polygon/union/intersection bounding_box code are modelled as if-then-else terms "
                 "(module globals shadowed, see c18.minmax_mode)"],
)

_BOUNDS = dict(max_paths=64, max_decisions=96, max_forks_per_site=24)


# --------------------------------------------------------------------------
# shape builders with two parameter variables
# --------------------------------------------------------------------------


class Aff2:
    """base + a*t + b*s per component: one shape parameter depending on BOTH variables"""

    def __init__(self, env, name, dim, s_default=None):
        sh = (dim,) if dim > 1 else ()
        self.base, self.a, self.b = env.tensor(name + "0", sh), env.tensor(name + "1", sh), env.tensor(name + "2", sh)
        self.e = [SH.elems(env, x) for x in (self.base, self.a, self.b)]
        self.s_default = s_default

    def tp(self):
        base, a, b = self.base, self.a, self.b

        def f(t, s):
            return base + a * t + b * s

        if self.s_default is not None:  # s is an OPTIONAL argument of the user's function (declared default)
            def f(t, s=self.s_default):  # noqa: F811
                return base + a * t + b * s

        return f

    def oracle(self):
        e0, e1, e2 = self.e
        return lambda prm: [e0[i] + e1[i] * prm["t"][0] + e2[i] * prm["s"][0] for i in range(len(e0))]


TS = [("t", 1), ("s", 1)]


def circle_ts(env, tag="C"):
    """centre depends on s, radius on t"""
    X = tp.spaces.R2("x")
    c, r = SH.Aff(env, tag + "c", 2, "s"), SH.Aff(env, tag + "r", 1, "t")
    o = O.OBall(c.oracle(), r.oracle(), 2)
    return SH.Sh("Circle[c(s),r(t)]", tp.domains.Circle(X, c.tp(), r.tp()), o, TS, [("x", 2)], bd_volume=o.surface)


def circle_mixed(env, tag="C"):
    """radius depends on t AND s (one user function of two variables), centre on s"""
    X = tp.spaces.R2("x")
    c, r = SH.Aff(env, tag + "c", 2, "s"), Aff2(env, tag + "r", 1)
    o = O.OBall(c.oracle(), r.oracle(), 2)
    return SH.Sh("Circle[c(s),r(t,s)]", tp.domains.Circle(X, c.tp(), r.tp()), o, TS, [("x", 2)], bd_volume=o.surface)


def circle_optional_s(env, tag="C"):
    """radius r(t, s=1.0): s has a declared default, so only t is a NECESSARY variable -- a supplied s is honoured all the same"""
    X = tp.spaces.R2("x")
    c, r = SH.Aff(env, tag + "c", 2, None), Aff2(env, tag + "r", 1, s_default=1.0)
    o = O.OBall(c.oracle(), r.oracle(), 2)
    return SH.Sh("Circle[r(t,s=1)]", tp.domains.Circle(X, c.tp(), r.tp()), o, TS, [("x", 2)], bd_volume=o.surface)


def rotate_angle_ts(env, tag="R"):
    """rotation whose ANGLE is one user function of both variables, w(t, s), about a symbolic pivot"""
    a = SH.circle(env, tag=tag + "A")
    ang = Aff2(env, tag + "w", 1)
    piv = SH.Aff(env, tag + "p", 2, None)
    dom = tp.domains.Rotate.from_angles(a.dom, ang.tp(), rotate_around=piv.tp())
    angle = ang.oracle()
    L_ = env.L
    o = O.ORotate2D(a.oset, lambda prm: L_.cossin(angle(prm)[0]), piv.oracle())
    return SH.Sh("Rotate[w(t,s)](Circle)", dom, o, TS, a.space_vars, closed_form=a.closed_form)


def interval_ts(env, tag="I", var="x"):
    X = tp.spaces.R1(var)
    lb, ub = SH.Aff(env, tag + "lb", 1, "s"), SH.Aff(env, tag + "ub", 1, "t")
    return SH.Sh("Interval[lb(s),ub(t)]", tp.domains.Interval(X, lb.tp(), ub.tp()), O.OInterval(lb.oracle(), ub.oracle()), TS,
                 [(var, 1)], bd_volume=lambda prm, L: 2)


def parallelogram_ts(env, tag="P"):
    X = tp.spaces.R2("x")
    o_, c1, c2 = SH.Aff(env, tag + "o", 2, "s"), SH.Aff(env, tag + "a", 2, "t"), SH.Aff(env, tag + "b", 2, None)
    os_ = O.OParallelogram(o_.oracle(), c1.oracle(), c2.oracle())
    return SH.Sh("Parallelogram[o(s),c1(t)]", tp.domains.Parallelogram(X, o_.tp(), c1.tp(), c2.tp()), os_, TS, [("x", 2)])


def _prim(kind, dep):
    return lambda env, tag="A": SH.PRIMS[kind](env, tag=tag, dep=dep)


def shapes_catalog(tier):
    """(name, builder(env) -> Sh, info)"""
    quick = tier == "quick"
    out = []
    for kind in ("Interval", "Circle") + (() if quick else ("Parallelogram", "Triangle", "Sphere")):
        out.append((kind + "[t]", (lambda env, kind=kind: SH.PRIMS[kind](env, dep="t")), dict(fam="prim1", sample=True, boundary=True)))
    out.append(("Point[t]", lambda env: SH.point(env, dim=2, dep="t"), dict(fam="prim1", point=True, sample=True)))
    out.append(("Circle[c(s),r(t)]", circle_ts, dict(fam="prim2", sample=True, boundary=True)))
    out.append(("Circle[c(s),r(t,s)]", circle_mixed, dict(fam="prim2", sample=True)))
    out.append(("Interval[lb(s),ub(t)]", interval_ts, dict(fam="prim2", sample=True, boundary=True)))
    if not quick:
        out.append(("Parallelogram[o(s),c1(t)]", parallelogram_ts, dict(fam="prim2", sample=True, boundary=True)))
    pairs = [("Circle", "Circle")] + ([] if quick else [("Circle", "Parallelogram")])
    for ka, kb in pairs:
        for opn, op in (("+", SH.union), ("-", SH.cut), ("&", SH.inter)):
            out.append(("(%s[t]%s%s[s])" % (ka, opn, kb),
                        (lambda env, ka=ka, kb=kb, op=op: op(SH.PRIMS[ka](env, tag="A", dep="t"), SH.PRIMS[kb](env, tag="B", dep="s"))),
                        dict(fam="bool", kind=opn, sample=False)))
    for opn, op in (("+", SH.union), ("-", SH.cut), ("&", SH.inter)):
        out.append(("(Interval[t]%sInterval[s])" % opn,
                    (lambda env, op=op: op(SH.interval(env, tag="A", dep="t"), SH.interval(env, tag="B", dep="s"))),
                    dict(fam="bool", kind=opn, sample=(opn == "+" or not quick), boundary=(opn == "+" or not quick))))
    out.append(("(Circle[s]*Interval[t])",
                lambda env: SH.product(SH.circle(env, tag="A", dep="s"), SH.interval(env, tag="B", var="y", dep="t")),
                dict(fam="product", sample=True)))
    out.append(("(Circle[c(s),r(t)]*Interval_t)",
                lambda env: SH.product(circle_ts(env, tag="A"), SH.interval(env, tag="B", var="t")),
                dict(fam="product", dependent=True)))
    out.append(("Translate[s](Circle[t])", lambda env: SH.translate(env, SH.circle(env, tag="A", dep="t"), dep="s"),
                dict(fam="transform", sample=True, boundary=True)))
    out.append(("Rotate[s](Circle[t])", lambda env: SH.rotate(env, SH.circle(env, tag="A", dep="t", dep_center=True), dep="s"),
                dict(fam="transform", sample=True)))
    # the pivot of the rotation depends on the variable that gets fixed
    out.append(("Rotate[s;pivot(t)](Circle[t])",
                lambda env: SH.rotate(env, SH.circle(env, tag="A", dep="t"), dep="s", around_dep="t"),
                dict(fam="transform", sample=True)))
    out.append(("Rotate[w(t,s)](Circle)", rotate_angle_ts, dict(fam="transform", sample=False)))
    if not quick:
        out.append(("Rotate[s](Parallelogram[t])", lambda env: SH.rotate(env, SH.parallelogram(env, tag="A", dep="t"), dep="s"),
                    dict(fam="transform", sample=True)))
        out.append(("Translate[t]((Circle[t]-Circle[s]))",
                    lambda env: SH.translate(env, SH.cut(SH.circle(env, tag="A", dep="t"), SH.circle(env, tag="B", dep="s")), dep="t"),
                    dict(fam="nested")))
    return out


# --------------------------------------------------------------------------
# helpers
# --------------------------------------------------------------------------


def _value(env, name, form):
    """symbolic value for variable `name` -> (object handed to __call__, formula-level element, 0-d tensor)"""
    if form == "1d":
        t = env.tensor("v_" + name, (1,))
        return t, SH.elems(env, t)[0], t.reshape(())
    t = env.tensor("v_" + name, ())
    if form == "scalar":
        return t.item(), SH.elems(env, t)[0], t
    return t, SH.elems(env, t)[0], t


def _setup(env, sh, fix, k, form="0d"):
    """values for the fixed variables, k symbolic rows of the remaining ones
    -> call kwargs, Points of the remaining variables, Points of all variables, oracle rows"""
    call, cols_full, cols_rest = {}, {}, {}
    rows = [dict() for _ in range(k)]
    for name, dim in sh.pvars:
        if name in fix:
            obj, el, t0 = _value(env, name, form)
            call[name] = obj
            cols_full[name] = t0.reshape(1, 1).repeat(k, 1)
            for i in range(k):
                rows[i][name] = [el]
        else:
            t = env.tensor("prm_" + name, (k, dim))
            cols_rest[name] = t
            cols_full[name] = t
            el = SH.elems(env, t)
            for i in range(k):
                rows[i][name] = el[i * dim:(i + 1) * dim]
    P_rest = Points.from_coordinates(dict(cols_rest)) if cols_rest else Points.empty()
    P_full = Points.from_coordinates(dict(cols_full))
    return call, P_rest, P_full, rows


def _query(env, sh, m, tag="q"):
    """m symbolic query points -> (factory of fresh Points objects over the same symbols, rows of coordinates)"""
    cols, els = {}, []
    for name, dim in sh.space_vars:
        t = env.tensor("%s_%s" % (tag, name), (m, dim))
        cols[name] = t
        els.append((SH.elems(env, t), dim))
    prow = []
    for i in range(m):
        r = []
        for el, dim in els:
            r += el[i * dim:(i + 1) * dim]
        prow.append(r)

    def make():
        return Points.from_coordinates({n: t.clone() for n, t in cols.items()})

    return make, prow


def _positive(env, sh, rows, prow=None):
    L = env.L
    for i, prm in enumerate(rows):
        if prow is not None and hasattr(sh.oset, "positive_at"):
            env.assume(sh.oset.positive_at(prow[i], prm, L))
        else:
            env.assume(sh.oset.positive(prm, L))


class _TieList(list):
    """rand_calls of the path.  The random kernels name their fresh symbols after the index of the call
    (`len(rand_calls)`); while `base` is set the list reports the index of the corresponding call of the FIRST
    execution, so the second execution receives the very same symbols (identical terms, not merely equal values).
    The duplicate entries are kept: the replay feeds one recorded call per real call, both executions get the
    model's values of the same symbols."""

    base = None
    pos = 0
    ref = ()
    mismatch = False

    def __len__(self):
        if self.base is not None:
            return self.base + self.pos
        return list.__len__(self)

    def append(self, item):
        list.append(self, item)
        if self.base is None:
            return
        if self.pos >= len(self.ref):
            self.mismatch = True
        else:
            # same kind and the same number of draws (rand((1,n,1)) and rand((n,1,1)) name their symbols alike)
            kind, vs = self.ref[self.pos][0], self.ref[self.pos][2]
            if kind != item[0] or len(vs) != len(item[2]):
                self.mismatch = True
        self.pos += 1


def same_draws(env, f1, f2):
    """run f1 then f2 under the same random draws -> (r1, r2, draws_matched)"""
    if not env.symbolic:
        r1 = f1()
        return r1, f2(), True
    ctx = env.ctx
    if not isinstance(ctx.rand_calls, _TieList):
        ctx.rand_calls = _TieList(ctx.rand_calls)
    tl = ctx.rand_calls
    n0 = list.__len__(tl)
    r1 = f1()
    n1 = list.__len__(tl)
    tl.ref, tl.pos, tl.mismatch, tl.base = [tl[i] for i in range(n0, n1)], 0, False, n0
    try:
        r2 = f2()
        ok = (not tl.mismatch) and tl.pos == n1 - n0
    finally:
        tl.base = None
    return r1, r2, ok


def _flat(x):
    if isinstance(x, (list, tuple)):
        out = []
        for y in x:
            out += _flat(y)
        return out
    return [x]


def _eq_cells(L, a, b, name):
    fa, fb = _flat(a), _flat(b)
    yield name + "_count", len(fa) == len(fb)
    if len(fa) != len(fb):
        return
    for i, (x, y) in enumerate(zip(fa, fb)):
        if isinstance(x, bool) or isinstance(y, bool) or (hasattr(x, "sort") and str(x.sort()) == "Bool"):
            yield "%s[%d]" % (name, i), L.Iff(x, y)
        else:
            yield "%s[%d]" % (name, i), req(L, x, y)


def _target(sh, dom, which):
    """which: 'domain' | 'boundary' | 'boundary_left' | 'boundary_right'"""
    if which == "domain":
        return dom
    return getattr(dom, which)


# --------------------------------------------------------------------------
# D(**v) against D at params=v
# --------------------------------------------------------------------------


def agree_case(name, mk, info, fix, what, k, form="0d", which="domain", order="call_then_part", n=2):
    """what: contains | volume | bbox | random | grid
    which/order: the object compared with D (resp. D.boundary) at params=v:
        domain                      D(**v)
        boundary, call_then_part    D(**v).boundary
        boundary, part_then_call    D.boundary(**v)"""
    fx = "".join(sorted(fix))
    cname = "%s/%s/fix_%s/%s%s/k%d%s" % (what, name, fx, which, "" if which == "domain" else ":" + order, k,
                                          "" if form == "0d" else "/" + form)
    composite = info.get("fam") in ("bool", "nested")

    def body(env):
        sh = mk(env)
        L = env.L
        call, P_rest, P_full, rows = _setup(env, sh, fix, k, form)
        D = sh.dom
        ref = _target(sh, D, which)
        if which == "domain" or order == "call_then_part":
            D2 = _target(sh, D(**call), which)
        else:
            D2 = _target(sh, D, which)(**call)
        out = dict(k=k)
        if what == "contains":
            make, prow = _query(env, sh, k)
            _positive(env, sh, rows, prow)
            if which != "domain" and composite:
                SH.bound_all_inputs(env, 16, rows)
            out["a"] = D2._contains(make(), P_rest)
            out["b"] = ref._contains(make(), P_full)
        elif what == "volume":
            _positive(env, sh, rows)
            out["a"] = D2.volume(P_rest)
            out["b"] = ref.volume(P_full)
        elif what == "bbox":
            _positive(env, sh, rows)
            with minmax_mode(env, "ite"):
                out["a"] = D2.bounding_box(P_rest)
                out["b"] = ref.bounding_box(P_full)
        else:
            _positive(env, sh, rows)
            meth = "sample_random_uniform" if what == "random" else "sample_grid"
            if composite:
                # rejection loops: the samples of D(**v) must lie in the set D denotes at the fixed values
                pts = getattr(D2, meth)(n=n, params=P_rest)
                out["pts"] = pts.as_tensor
                out["names"] = list(pts.space.keys())
                out["sh"], out["rows"] = sh, rows
                out["a"] = out["b"] = None
            else:
                a, b, ok = same_draws(env, lambda: getattr(D2, meth)(n=n, params=P_rest),
                                      lambda: getattr(ref, meth)(n=n, params=P_full))
                out["a"], out["b"], out["draws"] = a.as_tensor, b.as_tensor, ok
                out["spaces"] = (list(a.space.keys()), list(b.space.keys()))
        for key in ("a", "b"):
            if out.get(key) is not None:
                out[key + "_shape"] = list(out[key].shape)
        return out

    def goals(o, L, env):
        if "pts" in o:
            sh, rows = o["sh"], o["rows"]
            yield "space", o["names"] == [v for v, _ in sh.space_vars]
            yield "row_count", len(o["pts"]) == n * k
            if o["names"] != [v for v, _ in sh.space_vars]:
                return
            for i, p in enumerate(o["pts"]):
                prm = rows[min(i // n, len(rows) - 1)]
                if which == "domain":
                    yield "sample_in_set_at_fixed_values[row%d]" % i, sh.oset.closure(p, prm, L, 0)
                else:
                    yield "sample_on_boundary_at_fixed_values[row%d]" % i, sh.oset.boundary_band(p, prm, L, 2e-4)
            return
        sa, sb = o["a_shape"], o["b_shape"]
        if what == "volume":
            # a domain that no longer depends on parameters may return one (broadcastable) value
            ok = sa == sb or (sa == [1, 1] and sb == [k, 1])
            yield "shape", ok
            if not ok:
                return
            fa, fb = _flat(o["a"]), _flat(o["b"])
            for i in range(len(fb)):
                yield "volume_eq[row%d]" % i, req(L, fa[min(i, len(fa) - 1)], fb[i])
            return
        if what in ("random", "grid"):
            yield "same_random_calls", bool(o["draws"])
            yield "same_space", o["spaces"][0] == o["spaces"][1]
        yield "shape", sa == sb
        if sa != sb:
            return
        yield from _eq_cells(L, o["a"], o["b"], {"contains": "member_iff", "bbox": "box_eq", "random": "sample_eq", "grid": "sample_eq"}[what])

    return Case(cname, body, goals, family="%s/%s" % (what, name),
                params=dict(shape=name, fix=sorted(fix), what=what, k=k, form=form, which=which, order=order, **info), **_BOUNDS)


# --------------------------------------------------------------------------
# repeated / nested partial evaluation
# --------------------------------------------------------------------------


def repeated_case(name, mk, info, what, k=2):
    """D(t=v)(s=w), D(s=w)(t=v), D(t=v, s=w) and D at params (t=v, s=w) agree"""
    cname = "repeated/%s/%s" % (what, name)

    def body(env):
        sh = mk(env)
        L = env.L
        call, P_rest, P_full, rows = _setup(env, sh, {"t", "s"}, k)
        D = sh.dom
        variants = dict(ts=D(t=call["t"])(s=call["s"]), st=D(s=call["s"])(t=call["t"]), both=D(**call), tt=D(t=call["t"])(t=call["t"], s=call["s"]))
        out = dict(names=list(variants))
        if what == "contains":
            make, prow = _query(env, sh, k)
            _positive(env, sh, rows, prow)
            out["ref"] = D._contains(make(), P_full)
            out["res"] = [d._contains(make()) for d in variants.values()]
        elif what == "volume":
            _positive(env, sh, rows)
            out["ref"] = D.volume(P_full)[:1]
            out["res"] = [d.volume() for d in variants.values()]
        else:
            _positive(env, sh, rows)
            with minmax_mode(env, "ite"):
                out["ref"] = D.bounding_box(P_full[:1, ])
                out["res"] = [d.bounding_box() for d in variants.values()]
        out["nv"] = [set(d.necessary_variables) for d in variants.values()]
        out["shapes"] = [list(out["ref"].shape)] + [list(r.shape) for r in out["res"]]
        return out

    def goals(o, L, env):
        for nm, nv in zip(o["names"], o["nv"]):
            yield "no_free_variables_left[%s]" % nm, nv == set()
        ref = o["shapes"][0]
        for nm, r, shp in zip(o["names"], o["res"], o["shapes"][1:]):
            okshape = (_numel(shp) == _numel(ref)) if what != "contains" else shp == ref
            yield "shape[%s]" % nm, okshape
            if okshape:
                yield from _eq_cells(L, r, o["ref"], "agree[%s]" % nm)

    return Case(cname, body, goals, family="repeated/" + name, params=dict(shape=name, what=what, **info), **_BOUNDS)


def _numel(shape):
    n = 1
    for s in shape:
        n *= s
    return n


# --------------------------------------------------------------------------
# the original is unchanged
# --------------------------------------------------------------------------


def _snapshot(obj, depth=0, seen=None):
    """identity/value structure of a domain expression: attribute identities, the wrapped functions with their argument
    lists and default tables, flags, recursively through operand domains"""
    seen = seen if seen is not None else set()
    if id(obj) in seen or depth > 6:
        return ("seen", id(obj))
    seen.add(id(obj))
    if isinstance(obj, UserFunction):
        return ("uf", id(obj), id(obj.fun), tuple(obj.args) if not isinstance(obj.args, dict) else tuple(obj.args.items()),
                tuple(sorted((k, id(v)) for k, v in obj.defaults.items())))
    if isinstance(obj, Domain):
        items = []
        for k in sorted(obj.__dict__):
            items.append((k, _snapshot(obj.__dict__[k], depth + 1, seen)))
        return ("dom", id(obj), type(obj).__name__, tuple(items))
    if isinstance(obj, (set, frozenset)):
        return ("set", tuple(sorted(obj)))
    if isinstance(obj, (bool, int, float, str, type(None))):
        return ("val", obj)
    return ("id", id(obj))


def unchanged_case(name, mk, info, fix, k=1):
    fx = "".join(sorted(fix))
    cname = "unchanged/%s/fix_%s" % (name, fx)

    def body(env):
        sh = mk(env)
        L = env.L
        call, P_rest, P_full, rows = _setup(env, sh, fix, k)
        make, prow = _query(env, sh, k)
        _positive(env, sh, rows, prow)
        D = sh.dom
        nv0 = set(D.necessary_variables)
        snap0 = _snapshot(D)
        before = D._contains(make(), P_full)
        D2 = D(**call)
        # use the evaluated domain (lazy caches, in-place updates of shared tensors would show up below)
        D2._contains(make(), P_rest)
        if not info.get("dependent"):
            D2.volume(P_rest)
        snap1 = _snapshot(D)
        after = D._contains(make(), P_full)
        return dict(before=before, after=after, same=snap0 == snap1, nv=(nv0, set(D.necessary_variables)), distinct=D2 is not D)

    def goals(o, L, env):
        yield "attributes_identical", o["same"]
        yield "necessary_variables_identical", o["nv"][0] == o["nv"][1]
        yield "new_object", o["distinct"]
        yield from _eq_cells(L, o["after"], o["before"], "same_membership")

    return Case(cname, body, goals, family="unchanged/" + name, params=dict(shape=name, fix=sorted(fix), **info), **_BOUNDS)


def construction_case(op):
    """building a combination (and partially evaluating it) leaves the OPERAND objects as they were: a constant operand
    still declares no free variable after it was combined with a t-dependent partner, the partner still declares {t}"""
    cname = "operands_untouched/%s" % op

    def body(env):
        a = SH.circle(env, tag="A")
        b = SH.parallelogram(env, tag="B", dep="t")
        s0a, s0b = _snapshot(a.dom), _snapshot(b.dom)
        if op == "union":
            d = a.dom + b.dom
        elif op == "cut":
            d = a.dom - b.dom
        elif op == "intersection":
            d = a.dom & b.dom
        elif op == "intersection_dep_first":
            d = b.dom & a.dom
        elif op == "product":
            d = b.dom * SH.interval(env, tag="I", var="t").dom
        elif op == "translate":
            d = SH.translate(env, a, dep="t").dom
        elif op == "rotate":
            d = SH.rotate(env, a, dep="t").dom
        else:
            raise ValueError(op)
        nv_d = set(d.necessary_variables)
        d.boundary
        obj, el, t0 = _value(env, "t", "0d")
        d2 = d(t=obj)
        nv_d2 = set(d2.necessary_variables)
        return dict(same_a=_snapshot(a.dom) == s0a, same_b=_snapshot(b.dom) == s0b, nv_a=set(a.dom.necessary_variables),
                    nv_b=set(b.dom.necessary_variables), nv_d=nv_d, nv_d2=nv_d2)

    def goals(o, L, env):
        yield "constant_operand_unchanged", o["same_a"]
        yield "dependent_operand_unchanged", o["same_b"]
        yield "constant_operand_declares_no_variable", o["nv_a"] == set()
        yield "dependent_operand_declares_t", o["nv_b"] == {"t"}
        yield "combination_declares_its_free_variables", o["nv_d"] == (set() if op == "product" else {"t"})
        yield "evaluated_combination_declares_none", o["nv_d2"] == set()

    return Case(cname, body, goals, family="operands_untouched", params=dict(op=op), **_BOUNDS)


# --------------------------------------------------------------------------
# necessary_variables = free variables
# --------------------------------------------------------------------------


def necessary_case(name, mk, info, fix, mode):
    """mode: 'set' (declared set before/after), 'exact' (evaluating with exactly the declared set succeeds and an unrelated
    extra variable does not change the result), 'missing:<var>' (removing one declared variable raises)"""
    fx = "".join(sorted(fix)) or "none"
    cname = "necessary/%s/fix_%s/%s" % (name, fx, mode)
    expect = AssertionError if mode.startswith("missing") else None

    def body(env):
        sh = mk(env)
        L = env.L
        k = 1
        call, P_rest, P_full, rows = _setup(env, sh, fix, k)
        D = sh.dom
        free = set(n for n, _ in sh.pvars)
        D2 = D(**call) if fix else D
        nv = set(D2.necessary_variables)
        want = free - set(fix)
        if mode == "set":
            extra = {}
            if fix:
                # fixing a variable the expression does not depend on changes nothing
                z = env.tensor("v_z", ())
                extra = dict(nv_z=set(D(z=z).necessary_variables))
            bd = None
            try:
                bd = set(D2.boundary.necessary_variables)
            except NotImplementedError:
                pass
            return dict(nv=nv, want=want, nv_orig=set(D.necessary_variables), free=free, bd=bd, **extra)
        make, prow = _query(env, sh, k)
        _positive(env, sh, rows, prow)
        if mode == "exact":
            res = D2._contains(make(), P_rest)
            zc = {n: P_rest[:, [n]].as_tensor for n in P_rest.space} if len(P_rest.space) else {}
            zc["z"] = env.tensor("prm_z", (k, 1))
            res_z = D2._contains(make(), Points.from_coordinates(zc))
            keys = set(P_rest.space.keys()) if len(P_rest.space) else set()
            return dict(res=res, res_z=res_z, keys=keys, nv=nv)
        drop = mode.split(":")[1]
        cols = {n: P_rest[:, [n]].as_tensor for n in P_rest.space if n != drop}
        P_less = Points.from_coordinates(cols) if cols else Points.empty()
        return dict(res=D2._contains(make(), P_less))

    def goals(o, L, env):
        if mode == "set":
            yield "original_declares_free_variables", o["nv_orig"] == o["free"]
            yield "declares_exactly_remaining_free_variables", o["nv"] == o["want"]
            if o["bd"] is not None:
                yield "boundary_declares_same", o["bd"] == o["want"]
            if "nv_z" in o:
                yield "unrelated_variable_ignored", o["nv_z"] == o["free"]
            return
        if mode == "exact":
            yield "supplied_exactly_declared_set", o["keys"] == o["nv"]
            yield from _eq_cells(L, o["res_z"], o["res"], "invariant_under_unrelated_variable")

    return Case(cname, body, goals, family="necessary/" + name, params=dict(shape=name, fix=sorted(fix), mode=mode, **info),
                expect_exc=expect, **_BOUNDS)


# --------------------------------------------------------------------------
# flags of Boolean combinations, single boundary points, products that fix their own variable
# --------------------------------------------------------------------------


def flag_case(op, what):
    """CutDomain(contained=True) / UnionDomain(disjoint=True): D(t=v) against D at params"""
    cname = "flags/%s/%s" % (op, what)

    def body(env):
        a = SH.circle(env, tag="A", dep="t")
        b = SH.circle(env, tag="B", dep="t")
        L = env.L
        if op == "cut_contained":
            D = CutDomain(a.dom, b.dom, contained=True)
            flag = "contained"
        else:
            D = UnionDomain(a.dom, b.dom, disjoint=True)
            flag = "disjoint"
        sh = SH.Sh(op, D, None, [("t", 1)], [("x", 2)])
        call, P_rest, P_full, rows = _setup(env, sh, {"t"}, 1)
        for prm in rows:
            env.assume(L.And(a.oset.positive(prm, L), b.oset.positive(prm, L)))
        D2 = D(**call)
        tgt2, tgt = (D2.boundary, D.boundary) if what == "boundary_volume" else (D2, D)
        return dict(a=tgt2.volume(), b=tgt.volume(P_full), flag=(getattr(D2, flag, None), getattr(D, flag)))

    def goals(o, L, env):
        yield "flag_preserved", o["flag"][0] == o["flag"][1]
        yield from _eq_cells(L, o["a"], o["b"], "volume_eq")

    return Case(cname, body, goals, family="flags/" + op, params=dict(op=op, what=what), **_BOUNDS)


def single_boundary_case(side, what, order):
    """Interval.boundary_left / boundary_right of an interval whose bounds depend on s"""
    cname = "single_boundary/%s/%s/%s" % (side, what, order)

    def body(env):
        sh = SH.interval(env, tag="I", dep="s")
        L = env.L
        k = 1
        call, P_rest, P_full, rows = _setup(env, sh, {"s"}, k)
        _positive(env, sh, rows)
        D = sh.dom
        ref = getattr(D, "boundary_" + side)
        D2 = getattr(D(**call), "boundary_" + side) if order == "call_then_part" else ref(**call)
        out = dict(nv=set(D2.necessary_variables))
        if what == "contains":
            make, prow = _query(env, sh, k)
            out["a"], out["b"] = D2._contains(make()), ref._contains(make(), P_full)
        elif what == "sample":
            out["a"], out["b"] = D2.sample_grid(n=1).as_tensor, ref.sample_grid(n=1, params=P_full).as_tensor
        else:
            make, prow = _query(env, sh, k)
            out["a"], out["b"] = D2.normal(make()), ref.normal(make(), P_full)
        return out

    def goals(o, L, env):
        yield "no_free_variables_left", o["nv"] == set()
        yield from _eq_cells(L, o["a"], o["b"], "agree")

    return Case(cname, body, goals, family="single_boundary/" + side, params=dict(side=side, what=what, order=order), **_BOUNDS)


def product_own_variable_case(dependent, what):
    """fixing the variable of the second factor of a product: (A x I_t)(t=v) denotes A(v) x {v}"""
    cname = "product_fix_own_variable/%s/%s" % ("dependent" if dependent else "independent", what)

    def body(env):
        L = env.L
        a = SH.circle(env, tag="A", dep="t" if dependent else None)
        b = SH.interval(env, tag="B", var="t")
        sh = SH.product(a, b)
        obj, el, t0 = _value(env, "t", "0d")
        env.assume(a.oset.positive({"t": [el]}, L))
        env.assume(b.oset.positive({}, L))
        D2 = sh.dom(t=obj)
        out = dict(space=list(D2.space.keys()), dims=[D2.space[v] for v in D2.space], nv=set(D2.necessary_variables))
        if what == "contains":
            q = env.tensor("q_x", (1, 2))
            pts = Points.from_coordinates({"x": q, "t": t0.reshape(1, 1).clone()})
            out["res"] = D2._contains(pts)
            out["want"] = a.oset.closure(SH.elems(env, q), {"t": [el]}, L, 0)
        elif what == "sample":
            pts = D2.sample_random_uniform(n=1)
            out["names"] = list(pts.space.keys())
            out["pts"] = pts.as_tensor
            out["el"], out["a"] = el, a
        return out

    def goals(o, L, env):
        yield "space_is_product_space", o["space"] == ["x", "t"] and o["dims"] == [2, 1]
        yield "no_free_variables_left", o["nv"] == set()
        if what == "contains":
            yield "member_iff_first_factor_member", L.Iff(o["res"][0][0], o["want"])
        elif what == "sample":
            yield "sample_space", o["names"] == ["x", "t"]
            if o["names"] == ["x", "t"]:
                p = o["pts"][0]
                yield "sample_t_is_fixed_value", req(L, p[2], o["el"])
                yield "sample_x_in_first_factor", o["a"].oset.closure(p[:2], {"t": [o["el"]]}, L, 0)

    return Case(cname, body, goals, family="product_fix_own_variable", params=dict(dependent=dependent, what=what), **_BOUNDS)


def product_two_variable_factor_case(order, what):
    """(A[t,s] x (I_t x I_s))(t=vt, s=vs) with the keyword arguments in either order denotes A(vt,vs) x {(vt,vs)}:
    the Point replacing the fixed factor must be laid out in the factor's SPACE order, not in keyword order"""
    cname = "product_fix_two_variable_factor/kwargs_%s/%s" % (order, what)

    def body(env):
        L = env.L
        a = circle_ts(env, tag="A")
        b = SH.product(SH.interval(env, tag="B", var="t"), SH.interval(env, tag="Bs", var="s"))
        sh = SH.product(a, b)
        ot, et, t0 = _value(env, "t", "0d")
        os_, es, s0 = _value(env, "s", "0d")
        prm = {"t": [et], "s": [es]}
        env.assume(a.oset.positive(prm, L))
        env.assume(b.oset.positive({}, L))
        D2 = sh.dom(**({"t": ot, "s": os_} if order == "ts" else {"s": os_, "t": ot}))
        out = dict(space=list(D2.space.keys()), nv=set(D2.necessary_variables), et=et, es=es, a=a, prm=prm)
        if what == "contains":
            q = env.tensor("q_x", (1, 2))
            pts = Points.from_coordinates({"x": q, "t": t0.reshape(1, 1).clone(), "s": s0.reshape(1, 1).clone()})
            out["res"] = D2._contains(pts)
            out["want"] = a.oset.closure(SH.elems(env, q), prm, L, 0)
        else:
            pts = D2.sample_random_uniform(n=1)
            out["names"] = list(pts.space.keys())
            out["pts"] = pts.as_tensor
        return out

    def goals(o, L, env):
        yield "space_is_product_space", o["space"] == ["x", "t", "s"]
        yield "no_free_variables_left", o["nv"] == set()
        if what == "contains":
            yield "member_iff_first_factor_member", L.Iff(o["res"][0][0], o["want"])
        else:
            yield "sample_space", o["names"] == ["x", "t", "s"]
            if o["names"] == ["x", "t", "s"]:
                p = o["pts"][0]
                yield "sample_t_is_fixed_value", req(L, p[2], o["et"])
                yield "sample_s_is_fixed_value", req(L, p[3], o["es"])
                yield "sample_x_in_first_factor", o["a"].oset.closure(p[:2], o["prm"], L, 0)

    return Case(cname, body, goals, family="product_fix_two_variable_factor", params=dict(order=order, what=what), **_BOUNDS)


# --------------------------------------------------------------------------


def _subsets(pvars):
    names = [n for n, _ in pvars]
    if len(names) == 1:
        return [set(names)]
    return [{"t"}, {"s"}, {"t", "s"}]


def cases(tier):
    quick = tier == "quick"
    cs = []
    cat = shapes_catalog(tier)
    # pvars of every builder (needed to enumerate subsets without running the builder)
    two = lambda info, name: info.get("fam") in ("prim2", "bool", "product", "transform", "nested")
    for name, mk, info in cat:
        pv = TS if two(info, name) else [("t", 1)]
        if info.get("dependent"):
            pv = [("s", 1)]
        subsets = _subsets(pv)
        for fix in subsets:
            k = 2 if len(fix) < len(pv) else (1 if quick else 2)
            cs.append(agree_case(name, mk, info, fix, "contains", k))
            if info.get("dependent"):
                continue
            cs.append(agree_case(name, mk, info, fix, "volume", k))
            if not info.get("point") or True:
                cs.append(agree_case(name, mk, info, fix, "bbox", k))
            if info.get("fam") in ("bool", "nested"):
                # rejection loops (oracle route, see agree_case): one subset, one row; membership of samples of
                # Boolean combinations as such is C01's business
                if info.get("sample") and fix == subsets[0]:
                    c = agree_case(name, mk, info, fix, "random", 1, n=2)
                    c.budget_s, c.timeout_ms, c.max_paths, c.max_forks_per_site = 150, 20000, 24, 4
                    cs.append(c)
                continue
            if info.get("sample") and (not quick or fix == subsets[0]):
                # all variables fixed: D(**v) takes no parameter rows any more, so one row on the other side
                ks = 1 if (quick or len(fix) == len(pv)) else k
                cs.append(agree_case(name, mk, info, fix, "random", ks, n=2))
                poly = any(p in name for p in ("Parallelogram", "Triangle"))  # grid of polygons: int(sqrt(side ratio)) forks
                if info.get("fam") in ("prim1", "prim2", "transform") and not poly:
                    cs.append(agree_case(name, mk, info, fix, "grid", 1, n=2))
        # value forms: (1,)-tensor and python scalar
        if info.get("fam") in ("prim1", "prim2") and (not quick or name in ("Circle[t]", "Interval[lb(s),ub(t)]")):
            for form in ("1d", "scalar"):
                cs.append(agree_case(name, mk, info, subsets[0], "contains", 1, form=form))
                cs.append(agree_case(name, mk, info, subsets[0], "volume", 1, form=form))
                cs.append(agree_case(name, mk, info, subsets[0], "bbox", 1, form=form))
        # boundaries
        if info.get("boundary"):
            for fix in (subsets if not quick else subsets[:1]):
                k = 2 if len(fix) < len(pv) else 1
                for order in ("call_then_part", "part_then_call"):
                    cs.append(agree_case(name, mk, info, fix, "contains", k, which="boundary", order=order))
                    cs.append(agree_case(name, mk, info, fix, "volume", k, which="boundary", order=order))
                    if (not quick or order == "part_then_call") and info.get("fam") != "bool":
                        cs.append(agree_case(name, mk, info, fix, "random", 1, which="boundary", order=order, n=2))
        # repeated partial evaluation
        if len(pv) == 2:
            for what in ("contains", "volume", "bbox"):
                if info.get("dependent") and what != "contains":
                    continue
                cs.append(repeated_case(name, mk, info, what))
        # original unchanged, necessary variables
        for fix in (subsets if not quick else ([subsets[0], subsets[-1]] if len(subsets) > 1 else subsets)):
            cs.append(unchanged_case(name, mk, info, fix))
        cs.append(necessary_case(name, mk, info, set(), "set"))
        cs.append(necessary_case(name, mk, info, set(), "exact"))
        for v, _ in pv:
            cs.append(necessary_case(name, mk, info, set(), "missing:" + v))
        for fix in subsets:
            cs.append(necessary_case(name, mk, info, fix, "set"))
            if len(fix) < len(pv):
                cs.append(necessary_case(name, mk, info, fix, "exact"))
                rest = [v for v, _ in pv if v not in fix]
                cs.append(necessary_case(name, mk, info, fix, "missing:" + rest[0]))
    # a variable that is only OPTIONAL for the user's function (declared default): fixing it alone, before or after t
    optional = [("Circle[r(t,s=1)]", circle_optional_s, dict(fam="prim2"))]
    for opn, op in (("+", SH.union), ("-", SH.cut), ("&", SH.inter)):
        optional.append(("(Circle[r(t,s=1)]%sParallelogram)" % opn,
                         (lambda env, op=op: op(circle_optional_s(env, tag="A"), SH.parallelogram(env, tag="B"))), dict(fam="bool", kind=opn)))
    # (fixing t alone is not claimed: all NECESSARY arguments are then known, the function is evaluated with its declared
    # default for s, and a later s has nothing left to bind to -- the semantics of a default, not a defect)
    for name, mk, info in optional:
        for fix in ({"s"}, {"t", "s"}):
            cs.append(agree_case(name, mk, info, fix, "contains", 2 if len(fix) < 2 else 1))
            cs.append(agree_case(name, mk, info, fix, "volume", 2 if len(fix) < 2 else 1))
    for op in ("cut_contained", "union_disjoint"):
        cs.append(flag_case(op, "volume"))
        cs.append(flag_case(op, "boundary_volume"))
    for side in ("left", "right"):
        for order in ("call_then_part", "part_then_call"):
            for what in ("contains", "sample") + (() if quick else ("normal",)):
                cs.append(single_boundary_case(side, what, order))
    for dependent in (False, True):
        for what in ("structure", "contains", "sample"):
            cs.append(product_own_variable_case(dependent, what))
    for order in ("ts", "st"):
        for what in ("contains", "sample"):
            cs.append(product_two_variable_factor_case(order, what))
    for op in ("union", "cut", "intersection", "intersection_dep_first", "product", "translate", "rotate"):
        cs.append(construction_case(op))
    if quick:
        for c in cs:
            c.budget_s = 60
    return cs
