"""Catalogue of domain expressions: each entry builds the real torchphysics
object and its oracle denotation from the same symbolic shape parameters."""
from __future__ import annotations

import torch
import torchphysics as tp
from torchphysics.problem.spaces.points import Points

from oracle import sets as O


class Sh:
    def __init__(self, name, dom, oset, pvars=(), space_vars=None, closed_form=True, bd_volume=None):
        self.name = name
        self.dom = dom
        self.oset = oset
        self.pvars = list(pvars)  # [(name, dim)] parameter variables the shape depends on
        self.space_vars = space_vars  # [(name, dim)] own coordinates
        self.closed_form = closed_form
        self.bd_volume = bd_volume  # prm, L -> measure of the boundary (or None)


def elems(env, t):
    """flat list of formula-level elements of an input tensor"""
    if env.symbolic:
        from symtorch.harness import _zr

        return [_zr(x) for x in t.flat()]
    return [float(x) for x in t.detach().reshape(-1).tolist()]


# ---- parameter-dependent shape parameters --------------------------------
# value(t) = base + slope * t   (t the first coordinate of parameter variable 't')


class Aff:
    """affine function of parameter variable `var` (dim 1): base + slope*var, per component"""

    def __init__(self, env, name, dim, var=None):
        self.env, self.dim, self.var = env, dim, var
        if not hasattr(env, "_affs"):
            env._affs = []
        env._affs.append(self)
        self.base = env.tensor(name + "0", (dim,) if dim > 1 else ())
        self.b = elems(env, self.base)
        if var is not None:
            self.slope = env.tensor(name + "1", (dim,) if dim > 1 else ())
            self.s = elems(env, self.slope)

    def tp(self):
        """what is handed to the torchphysics constructor"""
        if self.var is None:
            return self.base
        base, slope, dim = self.base, self.slope, self.dim

        if self.var == "t":
            def f(t):
                return base + slope * t if dim > 1 else base + slope * t
        elif self.var == "s":
            def f(s):
                return base + slope * s
        else:
            raise ValueError(self.var)
        return f

    def oracle(self):
        if self.var is None:
            b = self.b
            return lambda prm: b
        b, s, var = self.b, self.s, self.var
        return lambda prm: [b[i] + s[i] * prm[var][0] for i in range(len(b))]


def interval(env, tag="I", var="x", dep=None):
    X = tp.spaces.R1(var)
    lb, ub = Aff(env, tag + "lb", 1, dep), Aff(env, tag + "ub", 1, dep)
    dom = tp.domains.Interval(X, lb.tp(), ub.tp())
    return Sh("Interval", dom, O.OInterval(lb.oracle(), ub.oracle()), [(dep, 1)] if dep else [], [(var, 1)],
              bd_volume=lambda prm, L: 2)


def circle(env, tag="C", var="x", dep=None, dep_center=False):
    X = tp.spaces.R2(var)
    c = Aff(env, tag + "c", 2, dep if dep_center else None)
    r = Aff(env, tag + "r", 1, dep)
    dom = tp.domains.Circle(X, c.tp(), r.tp())
    o = O.OBall(c.oracle(), r.oracle(), 2)
    return Sh("Circle", dom, o, [(dep, 1)] if dep else [], [(var, 2)], bd_volume=o.surface)


def sphere(env, tag="S", var="x", dep=None):
    X = tp.spaces.R3(var)
    c = Aff(env, tag + "c", 3, None)
    r = Aff(env, tag + "r", 1, dep)
    dom = tp.domains.Sphere(X, c.tp(), r.tp())
    o = O.OBall(c.oracle(), r.oracle(), 3)
    return Sh("Sphere", dom, o, [(dep, 1)] if dep else [], [(var, 3)], bd_volume=o.surface)


def parallelogram(env, tag="P", var="x", dep=None):
    X = tp.spaces.R2(var)
    o_, c1, c2 = Aff(env, tag + "o", 2, None), Aff(env, tag + "a", 2, dep), Aff(env, tag + "b", 2, None)
    dom = tp.domains.Parallelogram(X, o_.tp(), c1.tp(), c2.tp())
    os_ = O.OParallelogram(o_.oracle(), c1.oracle(), c2.oracle())

    def perim(prm, L):
        _, d1, d2, _ = os_._frame(prm)
        return 2 * (L.sqrt(d1[0] * d1[0] + d1[1] * d1[1]) + L.sqrt(d2[0] * d2[0] + d2[1] * d2[1]))

    return Sh("Parallelogram", dom, os_, [(dep, 1)] if dep else [], [(var, 2)], bd_volume=perim)


def triangle(env, tag="T", var="x", dep=None):
    X = tp.spaces.R2(var)
    o_, c1, c2 = Aff(env, tag + "o", 2, None), Aff(env, tag + "a", 2, dep), Aff(env, tag + "b", 2, None)
    dom = tp.domains.Triangle(X, o_.tp(), c1.tp(), c2.tp())
    os_ = O.OTriangle(o_.oracle(), c1.oracle(), c2.oracle())

    def perim(prm, L):
        cs = os_.corners(prm)
        tot = 0
        for i in range(3):
            a, b = cs[i], cs[(i + 1) % 3]
            tot = tot + L.sqrt((a[0] - b[0]) * (a[0] - b[0]) + (a[1] - b[1]) * (a[1] - b[1]))
        return tot

    return Sh("Triangle", dom, os_, [(dep, 1)] if dep else [], [(var, 2)], bd_volume=perim)


def point(env, tag="Q", var="x", dim=1, dep=None):
    X = tp.spaces.Rn(var, dim)
    c = Aff(env, tag + "p", dim, dep)
    cc = c.tp()
    if dep is None and dim == 1:
        pass
    dom = tp.domains.Point(X, cc)
    return Sh("Point", dom, O.OPoint(c.oracle(), dim), [(dep, 1)] if dep else [], [(var, dim)])


PRIMS = {"Interval": interval, "Circle": circle, "Parallelogram": parallelogram, "Triangle": triangle,
         "Sphere": sphere}


def _merge_pvars(a, b):
    out = list(a)
    for v in b:
        if v not in out:
            out.append(v)
    return out


def union(a, b):
    return Sh("(%s+%s)" % (a.name, b.name), a.dom + b.dom, O.OUnion(a.oset, b.oset), _merge_pvars(a.pvars, b.pvars),
              a.space_vars, closed_form=False)


def cut(a, b):
    return Sh("(%s-%s)" % (a.name, b.name), a.dom - b.dom, O.OCut(a.oset, b.oset), _merge_pvars(a.pvars, b.pvars),
              a.space_vars, closed_form=False)


def inter(a, b):
    return Sh("(%s&%s)" % (a.name, b.name), a.dom & b.dom, O.OInter(a.oset, b.oset), _merge_pvars(a.pvars, b.pvars),
              a.space_vars, closed_form=False)


def product(a, b):
    """a may depend on b's variables"""
    bnames = [n for n, _ in b.space_vars]
    pv = [v for v in _merge_pvars(a.pvars, b.pvars) if v[0] not in bnames]
    return Sh("(%s*%s)" % (a.name, b.name), a.dom * b.dom, O.OProduct(a.oset, b.oset, a.space_vars, b.space_vars), pv,
              a.space_vars + b.space_vars, closed_form=False)


def translate(env, a, tag="tr", dep=None):
    d = sum(k for _, k in a.space_vars)
    v = Aff(env, tag, d, dep)
    dom = tp.domains.Translate(a.dom, v.tp())
    pv = _merge_pvars(a.pvars, [(dep, 1)] if dep else [])
    return Sh("Translate(%s)" % a.name, dom, O.OTranslate(a.oset, v.oracle()), pv, a.space_vars, closed_form=a.closed_form)


def rotate(env, a, tag="rot", dep=None, around=True, around_dep=None):
    """2-D rotation by a (possibly parameter-dependent) angle about a symbolic (possibly parameter-dependent) point"""
    ang = Aff(env, tag + "w", 1, dep)
    ar = Aff(env, tag + "p", 2, around_dep) if around else None
    dom = tp.domains.Rotate.from_angles(a.dom, ang.tp(), rotate_around=(ar.tp() if around else None))
    angle = ang.oracle()
    L_ = env.L

    def cs(prm):
        return L_.cossin(angle(prm)[0])

    around_o = ar.oracle() if around else (lambda prm: [0, 0])
    pv = _merge_pvars(a.pvars, [(dep, 1)] if dep else [])
    pv = _merge_pvars(pv, [(around_dep, 1)] if (around and around_dep) else [])
    return Sh("Rotate(%s)" % a.name, dom, O.ORotate2D(a.oset, cs, around_o), pv, a.space_vars, closed_form=a.closed_form)


# ---- parameter rows --------------------------------------------------------


def params(env, pvars, k, tag="prm"):
    """k parameter rows over the variables pvars -> (Points, [prm dict per row])"""
    if k == 0:
        return Points.empty(), [{}]
    if not pvars:
        pvars = [("q", 1)]  # an unrelated parameter variable: rows must simply be carried along
    coords = {}
    rows = [dict() for _ in range(k)]
    for name, dim in pvars:
        t = env.tensor("%s_%s" % (tag, name), (k, dim))
        coords[name] = t
        el = elems(env, t)
        for i in range(k):
            rows[i][name] = el[i * dim:(i + 1) * dim]
    if not coords:
        return Points.empty(), [{} for _ in range(max(k, 1))]
    return Points.from_coordinates(coords), rows


def assume_positive(env, sh, rows):
    for prm in rows:
        env.assume(sh.oset.positive(prm, env.L))


def rows_of(o, width):
    """nested list (n, width) -> list of rows"""
    return [list(r) for r in o]


# ---- catalogue --------------------------------------------------------------


def catalog(tier, families=("prim", "dep", "bool", "product", "transform", "nested")):
    """list of (name, builder(env) -> Sh, info dict)"""
    out = []
    T2 = ("Circle", "Parallelogram", "Triangle")
    if "prim" in families:
        for kind in ("Interval",) + T2 + ("Sphere",):
            out.append((kind, (lambda env, kind=kind: PRIMS[kind](env)), dict(kind=kind, fam="prim")))
    if "dep" in families:
        for kind in ("Interval", "Circle") + (("Parallelogram", "Triangle", "Sphere") if tier == "thorough" else ()):
            out.append((kind + "[t]", (lambda env, kind=kind: PRIMS[kind](env, dep="t")), dict(kind=kind, fam="dep")))
    if "bool" in families:
        pairs = [("Circle", "Parallelogram"), ("Interval", "Interval")]
        if tier == "thorough":
            pairs += [("Parallelogram", "Circle"), ("Triangle", "Circle"), ("Circle", "Circle")]
        for a, b in pairs:
            for opn, op in (("+", union), ("-", cut), ("&", inter)):
                out.append(("(%s%s%s)" % (a, opn, b),
                            (lambda env, a=a, b=b, op=op: op(PRIMS[a](env, tag="A"), PRIMS[b](env, tag="B"))),
                            dict(kind=opn, fam="bool")))
        # a parameter-dependent operand: rows of a parameter batch see different combinations
        for a, b, da, db, opn, op in (("Interval", "Interval", "t", None, "-", cut), ("Interval", "Interval", None, "t", "+", union)) + (
                (("Interval", "Interval", "t", None, "&", inter), ("Circle", "Parallelogram", "t", None, "-", cut)) if tier == "thorough" else ()):
            out.append(("(%s%s%s%s%s)" % (a, "[t]" if da else "", opn, b, "[t]" if db else ""),
                        (lambda env, a=a, b=b, op=op, da=da, db=db: op(PRIMS[a](env, tag="A", dep=da), PRIMS[b](env, tag="B", dep=db))),
                        dict(kind=opn, fam="bool", dep=True)))
    if "product" in families:
        out.append(("(Circle*Interval)", lambda env: product(circle(env, tag="A"), interval(env, tag="B", var="t")),
                    dict(fam="product")))
        out.append(("(Circle[t]*Interval)", lambda env: product(circle(env, tag="A", dep="t"), interval(env, tag="B", var="t")),
                    dict(fam="product", dependent=True)))
        if tier == "thorough":
            out.append(("(Interval[t]*Interval)", lambda env: product(interval(env, tag="A", dep="t"), interval(env, tag="B", var="t")),
                        dict(fam="product", dependent=True)))
            out.append(("(Parallelogram*Interval)", lambda env: product(parallelogram(env, tag="A"), interval(env, tag="B", var="t")),
                        dict(fam="product")))
    if "transform" in families:
        for kind in ("Circle", "Parallelogram") + (("Triangle",) if tier == "thorough" else ()):
            out.append(("Translate(%s)" % kind, (lambda env, kind=kind: translate(env, PRIMS[kind](env, tag="A"))),
                        dict(fam="transform")))
            out.append(("Rotate(%s)" % kind, (lambda env, kind=kind: rotate(env, PRIMS[kind](env, tag="A"))),
                        dict(fam="transform")))
        out.append(("Translate[t](Circle)", lambda env: translate(env, circle(env, tag="A"), dep="t"), dict(fam="transform", dep=True)))
        out.append(("Translate[t](Parallelogram)", lambda env: translate(env, parallelogram(env, tag="A"), dep="t"), dict(fam="transform", dep=True)))
        out.append(("Rotate[t](Parallelogram)", lambda env: rotate(env, parallelogram(env, tag="A"), dep="t"), dict(fam="transform", dep=True)))
    if "nested" in families and tier == "thorough":
        out.append(("((Circle-Parallelogram)+Triangle)",
                    lambda env: union(cut(circle(env, tag="A"), parallelogram(env, tag="B")), triangle(env, tag="C")),
                    dict(fam="nested")))
        out.append(("((Circle+Circle)&Parallelogram)",
                    lambda env: inter(union(circle(env, tag="A"), circle(env, tag="B")), parallelogram(env, tag="C")),
                    dict(fam="nested")))
        out.append(("Translate((Circle-Parallelogram))",
                    lambda env: translate(env, cut(circle(env, tag="A"), parallelogram(env, tag="B"))), dict(fam="nested")))
        out.append(("Rotate((Circle&Parallelogram))",
                    lambda env: rotate(env, inter(circle(env, tag="A"), parallelogram(env, tag="B"))), dict(fam="nested")))
    return out


def bound_all_inputs(env, bound=16, rows=({},)):
    """normalisation assumption |v| <= bound on every real input symbol declared so far and on
    every (parameter-dependent) shape parameter evaluated at the given parameter rows"""
    if not env.symbolic:
        return
    for aff in getattr(env, "_affs", []):
        f = aff.oracle()
        for prm in rows:
            if aff.var is not None and aff.var not in prm:
                continue
            bounded(env, f(prm), bound)
    import numpy as np
    import z3

    for name, (shape, kind) in env.inputs.items():
        if kind != "real":
            continue
        names = [name] if shape == () else [name + "".join("_%d" % i for i in idx) for idx in np.ndindex(*shape)]
        for nm in names:
            v = z3.Real(nm)
            env.assume(z3.And(v <= bound, v >= -bound))


def bounded(env, values, bound=16):
    """normalisation assumption: |v| <= bound for the given formula-level values"""
    L = env.L
    for v in values:
        env.assume(L.And(L.le(v, bound), L.ge(v, -bound)))


# ---- abstract operands (assume-guarantee checks of the composition layer) ----

from torchphysics.problem.domains.domain import Domain as _Domain, BoundaryDomain as _BoundaryDomain


class StubDomain(_Domain):
    """An arbitrary domain: membership answers are free symbolic booleans (one per row), the
    points it is asked about are recorded.  Used to check what a composition does with ANY operand."""

    def __init__(self, space, env, tag, n):
        super().__init__(space, dim=space.dim)
        self.necessary_variables = set()
        self.env, self.tag, self.n = env, tag, n
        self.t_in = env.tensor(tag + "_in", (n, 1))
        self.t_on = env.tensor(tag + "_on", (n, 1))
        self.asked = []
        self.asked_bd = []
        L = env.L
        self.f_in = [L.gt(v, 0) for v in elems(env, self.t_in)]
        self.f_on = [L.gt(v, 0) for v in elems(env, self.t_on)]
        for a, b in zip(self.f_on, self.f_in):
            env.assume(L.Implies(a, b))  # boundary points belong to the (closed) set

    def _contains(self, points, params=Points.empty()):
        self.asked.append((points, params))
        return self.t_in > 0

    def __call__(self, **data):
        return self

    def bounding_box(self, params=Points.empty(), device="cpu"):
        raise NotImplementedError

    @property
    def boundary(self):
        return StubBoundary(self)


class StubBoundary(_BoundaryDomain):
    def __init__(self, domain):
        super().__init__(domain)
        self.t_nrm = None

    def _contains(self, points, params=Points.empty()):
        self.domain.asked_bd.append((points, params))
        return self.domain.t_on > 0

    def normal(self, points, params=Points.empty(), device="cpu"):
        d = self.domain
        if getattr(d, "t_normal", None) is None:
            d.t_normal = d.env.tensor(d.tag + "_nu", (d.n, d.space.dim))
        return d.t_normal


# ---- concrete shape parameters (for properties that do not depend on the geometry) ----


class ConcShapeEnv:
    """env proxy: tensors requested by the shape builders (shape parameters) are CONCRETE
    non-axis-aligned values, everything else (parameter rows, filters, ...) stays symbolic.
    Random draws and accept/reject outcomes remain symbolic in any case."""

    TABLE = {
        "c0": [0.25, 0.5, -0.25], "c1": [0.5, -0.25, 0.125], "r0": [1.0], "r1": [0.25],
        "lb0": [-0.5], "ub0": [1.5], "lb1": [0.125], "ub1": [0.25],
        "o0": [-0.75, -0.5], "a0": [1.25, -0.25], "a1": [0.25, 0.125], "b0": [-0.25, 1.0],
        "p0": [0.5, -0.25, 0.75],
    }
    SHIFT = {"A": 0.0, "B": 0.375, "C": -0.25, "I": 0.0, "P": 0.0, "T": 0.0, "S": 0.0, "Q": 0.0}

    def __init__(self, env):
        self.env = env
        self.symbolic = env.symbolic
        self.L = env.L
        self.inputs = env.inputs

    def __getattr__(self, k):
        return getattr(self.env, k)

    def _values(self, name, n):
        import re
        m = re.match(r"^([A-Z])(c|r|lb|ub|o|a|b|p)([01])$", name)
        if m:
            tag, kind, idx = m.groups()
            vals = list(self.TABLE[kind + idx])[:n]
            if idx == "0" and kind in ("c", "lb", "ub", "o", "a", "b", "p"):
                vals = [v + self.SHIFT.get(tag, 0.0) for v in vals]
            return vals
        if name.startswith("tr"):  # translation vector / slope
            return [0.5, -0.75, 0.25][:n] if name.endswith("0") else [0.25, 0.5, 0.125][:n]
        if name.startswith("rotw"):
            return [0.5] if name.endswith("0") else [0.25]
        if name.startswith("rotp"):
            return [0.25, -0.5][:n]
        return None

    def tensor(self, name, shape, dtype=None, requires_grad=False):
        shape_t = (shape,) if isinstance(shape, int) else tuple(shape)
        n = 1
        for s in shape_t:
            n *= s
        vals = self._values(name, n)
        if vals is None:
            return self.env.tensor(name, shape, dtype, requires_grad)
        import numpy as np
        from fractions import Fraction
        if self.symbolic:
            from symtorch import symt as S
            arr = np.empty(shape_t, dtype=object)
            if shape_t == ():
                arr[()] = Fraction(vals[0])
            else:
                arr.reshape(-1)[:] = [Fraction(v) for v in vals]
            return S.from_array(arr, dtype or torch.get_default_dtype())
        return torch.tensor(vals, dtype=torch.float64).reshape(shape_t)


# ---- polygons parametrised by origin + two edge vectors (C06) ---------------------------------
# The same constructors and the same set of shapes as parallelogram()/triangle() (a bijective change of
# variables: corner_1 = origin + d1, corner_2 = origin + d2, computed with tensor operations), but the
# polynomials the solver sees are in the 4 edge-vector components instead of differences of 6 corner
# coordinates.  dep='t': d1 depends affinely on the parameter t (as corner_1 does in the catalogue builders).


class _Sum:
    """Aff-like: value = a + b (both Aff), for the oracle and for the harness"""

    def __init__(self, a, b):
        self.a, self.b = a, b
        self.var = a.var or b.var
        self.dim = a.dim

    def tp(self):
        fa, fb = self.a.tp(), self.b.tp()
        if self.var is None:
            return fa + fb
        ca, cb = callable(fa), callable(fb)

        def f(t):
            return (fa(t) if ca else fa) + (fb(t) if cb else fb)
        return f

    def oracle(self):
        oa, ob = self.a.oracle(), self.b.oracle()
        return lambda prm: [x + y for x, y in zip(oa(prm), ob(prm))]


def _polygon_d(env, kind, tag, var, dep, base=0):
    """base (triangles): index of the vertex the two edge vectors start from -- vertex[base] = q,
    vertex[base+1] = q + d1, vertex[base+2] = q + d2 (cyclically); every choice covers all triangles."""
    X = tp.spaces.R2(var)
    q, d1, d2 = Aff(env, tag + "o", 2, None), Aff(env, tag + "d", 2, dep), Aff(env, tag + "e", 2, None)
    v = [None, None, None]
    v[base % 3], v[(base + 1) % 3], v[(base + 2) % 3] = q, _Sum(q, d1), _Sum(q, d2)
    if kind == "Parallelogram":
        assert base == 0
    dom = getattr(tp.domains, kind)(X, v[0].tp(), v[1].tp(), v[2].tp())
    os_ = (O.OParallelogram if kind == "Parallelogram" else O.OTriangle)(v[0].oracle(), v[1].oracle(), v[2].oracle())
    sh = Sh(kind, dom, os_, [(dep, 1)] if dep else [], [(var, 2)])
    sh.corner_affs = v  # harness access to the corner values (Aff-like: .tp(), .oracle(), .var)
    return sh


def parallelogram_d(env, tag="P", var="x", dep=None):
    return _polygon_d(env, "Parallelogram", tag, var, dep)


def triangle_d(env, tag="T", var="x", dep=None, base=0):
    return _polygon_d(env, "Triangle", tag, var, dep, base)
