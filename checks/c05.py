"""C05  Membership tests agree with the set the domain expression denotes."""
from __future__ import annotations

import torch
import torchphysics as tp
from torchphysics.problem.spaces.points import Points

from symtorch.harness import Case
from . import shapes as SH

TAU_OUT = 2e-4     # "farther than the tolerance": absolute units (coordinates bounded by 16), barycentric for polygons
POINT_ATOL = 1e-3

META = dict(
    level="model_checking",
    bounds="every catalogue shape (primitives, parameter-dependent primitives affine in t, one Boolean operation of two primitives, "
           "products incl. dependent first factor, translated/rotated primitives; thorough: Sphere, nesting depth 2) with all shape "
           "parameters symbolic; m<=2 query rows / k<=2 parameter rows, every query point symbolic",
    outside=["the band between 'on the boundary' and 'farther than tau_out=2e-4' for isclose-based boundary tests",
             "points within tau_out of the boundaries of BOTH operands of a Boolean combination (crossing points; measure zero)",
             "shapely/trimesh primitives", "more than 2 rows, nesting depth > 2"],
    assumptions=["shapes have positive measure", "for reject-claims of isclose-based boundary tests: |shape parameters| <= 16"],
)


_SNAP = {}


def _unchanged(env, pts):
    """cells of the caller's query points / parameter rows before and after the membership test"""
    snap = _SNAP.pop(id(pts), None)
    if snap is None:
        return []
    _, before, P, pbefore = snap
    after = SH.elems(env, pts.as_tensor)
    pafter = SH.elems(env, P.as_tensor) if len(P) else []
    return list(zip(before, after)) + list(zip(pbefore, pafter))


def _query(env, sh, k, m):
    """query points (m rows if k==0 else k rows) + params"""
    P, rows = SH.params(env, sh.pvars, k)
    n = k if k else m
    coords = {}
    cols = []
    for name, dim in sh.space_vars:
        t = env.tensor("q_" + name, (n, dim))
        coords[name] = t
        cols.append((SH.elems(env, t), dim))
    pts = Points.from_coordinates(coords)
    _SNAP[id(pts)] = (pts, SH.elems(env, pts.as_tensor), P, SH.elems(env, P.as_tensor) if len(P) else [])
    prow = []
    for i in range(n):
        r = []
        for el, dim in cols:
            r += el[i * dim:(i + 1) * dim]
        prow.append(r)
    prms = rows if k else [{} for _ in range(n)]
    return pts, P, prow, prms


def interior_case(name, mk, info, k, m=2):
    cname = "contains/%s/k%d" % (name, k)
    exact = info.get("fam") in ("prim", "dep")

    def body(env):
        sh = mk(env)
        pts, P, prow, prms = _query(env, sh, k, m)
        for p, prm in zip(prow, prms):
            env.assume(sh.oset.positive_at(p, prm, env.L))
        res = sh.dom._contains(pts, P)
        res2 = sh.dom._contains(pts, P)  # asking again must give the same answers
        same = _unchanged(env, pts)
        L = env.L
        if exact:
            want = [(sh.oset.closure(p, prm, L, 0), None) for p, prm in zip(prow, prms)]
        else:
            want = [(sh.oset.interior(p, prm, L, 0), sh.oset.closure(p, prm, L, 0)) for p, prm in zip(prow, prms)]
        return dict(res=res, res2=res2, same=same, want=want, shape=list(res.shape), n=len(prow))

    def goals(o, L, env):
        yield "one_truth_value_per_row", o["shape"] == [o["n"], 1]
        for j, (x, y) in enumerate(o["same"]):
            yield "query_points_and_parameters_unchanged[%d]" % j, L.eq(x, y)
        if o["shape"] != [o["n"], 1]:
            return
        for i, (r1, r2) in enumerate(zip(o["res"], o["res2"])):
            yield "same_answer_when_asked_again[row%d]" % i, L.Iff(r1[0], r2[0])
        for i, (r, (a, b)) in enumerate(zip(o["res"], o["want"])):
            got = r[0]
            if b is None:
                yield "contains_iff_member[row%d]" % i, L.Iff(got, a)
            else:
                yield "interior_accepted[row%d]" % i, L.Implies(a, got)
                yield "exterior_rejected[row%d]" % i, L.Implies(L.Not(b), L.Not(got))

    return Case(cname, body, goals, family="contains/" + name, params=dict(shape=name, k=k, **info))


def _both_bands(sh, p, prm, L, tol):
    """point within tol of the boundaries of both operands of the top-level Boolean op"""
    o = sh.oset
    while hasattr(o, "to_inner"):  # translated / rotated Boolean combination: look at the inner expression
        p = o.to_inner(p, prm, L)
        o = o.inner
    a, b = getattr(o, "a", None), getattr(o, "b", None)
    if a is None or b is None or not hasattr(a, "boundary_band"):
        return False
    if o.__class__.__name__ == "OProduct":
        return False
    return L.And(a.boundary_band(p, prm, L, tol), b.boundary_band(p, prm, L, tol))


def boundary_case(name, mk, info, k, m=1):
    cname = "bcontains/%s/k%d" % (name, k)

    def body(env):
        sh = mk(env)
        pts, P, prow, prms = _query(env, sh, k, m)
        L = env.L
        for p, prm in zip(prow, prms):
            env.assume(sh.oset.positive_at(p, prm, L))
        # normalisation for the reject claim (isclose has a relative tolerance)
        SH.bound_all_inputs(env, 16, [sh.oset.bind(p, prm)[2] if hasattr(sh.oset, 'bind') else prm for p, prm in zip(prow, prms)])
        bd = sh.dom.boundary
        res = bd._contains(pts, P)
        same = _unchanged(env, pts)
        on = [sh.oset.boundary_band(p, prm, L, 0) for p, prm in zip(prow, prms)]
        far = [L.Not(sh.oset.boundary_band(p, prm, L, TAU_OUT)) for p, prm in zip(prow, prms)]
        corner = [_both_bands(sh, p, prm, L, TAU_OUT) for p, prm in zip(prow, prms)]
        return dict(res=res, on=on, far=far, corner=corner, same=same, shape=list(res.shape), n=len(prow))

    def goals(o, L, env):
        shp = o["shape"]
        yield "one_truth_value_per_row", shp == [o["n"], 1]
        for j, (x, y) in enumerate(o["same"]):
            yield "query_points_and_parameters_unchanged[%d]" % j, L.eq(x, y)
        res = o["res"]
        flat = [r[0] if isinstance(r, list) else r for r in res]
        if len(flat) != o["n"]:
            return
        for i, got in enumerate(flat):
            if isinstance(got, list):
                got = got[0]
            yield "on_boundary_accepted[row%d]" % i, L.Implies(L.And(o["on"][i], L.Not(o["corner"][i])), got)
            yield "far_from_boundary_rejected[row%d]" % i, L.Implies(o["far"][i], L.Not(got))

    return Case(cname, body, goals, family="bcontains/" + name, params=dict(shape=name, k=k, **info))


def own_sample_case(name, mk, info, n, grid=False, after_other=False):
    """after_other: ANOTHER object of the same kind (other symbolic parameters) was sampled with the same method and count
    just before, and this object once already -- the boundary still accepts what its own sampler returns now"""
    cname = "own_boundary_sample/%s/%s/n%d%s" % (name, "grid" if grid else "random", n, "/after_other_object" if after_other else "")

    def body(env):
        sh = mk(env)
        L = env.L
        env.assume(sh.oset.positive({}, L))
        bd = sh.dom.boundary
        if after_other:
            other = SH.PRIMS[info["kind"]](env, tag="Z")
            env.assume(other.oset.positive({}, L))
            for b_ in (bd, other.dom.boundary):
                (b_.sample_grid if grid else b_.sample_random_uniform)(n=n)
        pts = (bd.sample_grid if grid else bd.sample_random_uniform)(n=n)
        res = bd._contains(pts)
        return dict(res=res, n=len(pts))

    def goals(o, L, env):
        flat = [r[0] if isinstance(r, list) else r for r in o["res"]]
        yield "one_truth_value_per_row", len(flat) == o["n"]
        for i, got in enumerate(flat):
            yield "own_sample_accepted[row%d]" % i, got

    poly = name in ("Parallelogram", "Triangle")
    return Case(cname, body, goals, family="own_boundary_sample/" + name, params=dict(shape=name, n=n, grid=grid, **info),
                max_paths=48)


def own_sample_rows_case(name, mk, info, n=2, k=2):
    """parameter-dependent shapes: the boundary accepts what its own sampler returns for k parameter rows, every point
    asked with the parameter row it was drawn for"""
    cname = "own_boundary_sample/%s/random/n%d/k%d" % (name, n, k)

    def body(env):
        sh = mk(env)
        L = env.L
        P, rows = SH.params(env, sh.pvars, k)
        for prm in rows:
            env.assume(sh.oset.positive(prm, L))
        SH.bound_all_inputs(env, 16, rows)
        bd = sh.dom.boundary
        pts = bd.sample_random_uniform(n=n, params=P)
        Prep = Points(P.as_tensor.repeat_interleave(n, dim=0), P.space)
        res = bd._contains(pts, Prep)
        return dict(res=res, n=len(pts))

    def goals(o, L, env):
        flat = [r[0] if isinstance(r, list) else r for r in o["res"]]
        yield "one_truth_value_per_row", len(flat) == o["n"] == n * k
        for i, got in enumerate(flat):
            yield "own_sample_accepted[row%d]" % i, got

    return Case(cname, body, goals, family="own_boundary_sample/" + name, params=dict(shape=name, n=n, k=k, **info), max_paths=64)


def abstract_bool_case(op, boundary, n=2):
    """the composition layer on ARBITRARY operands: result == set-theoretic rule of the operands' answers"""
    cname = "abstract/%s/%s" % (op, "boundary" if boundary else "interior")

    def body(env):
        X = tp.spaces.R2("x")
        a = SH.StubDomain(X, env, "sa", n)
        b = SH.StubDomain(X, env, "sb", n)
        d = {"+": a + b, "-": a - b, "&": a & b}[op]
        pts = Points(env.tensor("q", (n, 2)), X)
        res = (d.boundary if boundary else d)._contains(pts)
        asked = [x[0] for x in a.asked + b.asked + a.asked_bd + b.asked_bd]
        return dict(res=res, ia=a.f_in, ib=b.f_in, oa=a.f_on, ob=b.f_on, asked=asked, q=pts, shape=list(res.shape), n=n)

    def goals(o, L, env):
        yield "one_truth_value_per_row", o["shape"] == [o["n"], 1]
        # every operand is asked about exactly the query points, row by row
        for j, t in enumerate(o["asked"]):
            for i in range(o["n"]):
                for c in range(2):
                    yield "operand_sees_query_point[call%d,row%d,%d]" % (j, i, c), L.eq(t[i][c], o["q"][i][c])
        for i in range(o["n"]):
            ia, ib, oa, ob = o["ia"][i], o["ib"][i], o["oa"][i], o["ob"][i]
            inta, intb = L.And(ia, L.Not(oa)), L.And(ib, L.Not(ob))
            got = o["res"][i][0]
            if not boundary:
                want = {"+": L.Or(ia, ib), "&": L.And(ia, ib), "-": L.And(ia, L.Not(ib))}[op]
                yield "boolean_rule[row%d]" % i, L.Iff(got, want)
            else:
                if op == "+":
                    want = L.Or(L.And(oa, L.Not(intb)), L.And(ob, L.Not(inta)))
                    yield "boundary_rule[row%d]" % i, L.Iff(got, want)
                elif op == "&":
                    want = L.Or(L.And(oa, ib), L.And(ob, ia))
                    yield "boundary_rule[row%d]" % i, L.Iff(got, want)
                else:
                    want = L.Or(L.And(oa, L.Not(intb)), L.And(ob, inta))
                    # crossing points of the two boundaries are outside the claim
                    yield "boundary_rule[row%d]" % i, L.Implies(L.Not(L.And(oa, ob)), L.Iff(got, want))

    return Case(cname, body, goals, family=cname, params=dict(op=op, boundary=boundary, n=n))


def abstract_transform_case(kind, k):
    """Translate/Rotate of an ARBITRARY domain: the inner domain is asked about the inverse image, its answer is returned"""
    cname = "abstract/%s/k%d" % (kind, k)
    n = max(k, 2)

    def body(env):
        X = tp.spaces.R2("x")
        inner = SH.StubDomain(X, env, "s", n)
        sh0 = SH.Sh("Stub", inner, None, [], [("x", 2)])
        dep = "t" if k else None
        if kind == "Translate":
            v = SH.Aff(env, "tr", 2, dep)
            d = tp.domains.Translate(inner, v.tp())
            vo = v.oracle()
            inv = lambda p, prm: [p[0] - vo(prm)[0], p[1] - vo(prm)[1]]
        else:
            ang = SH.Aff(env, "w", 1, dep)
            ar = SH.Aff(env, "ar", 2, None)
            d = tp.domains.Rotate.from_angles(inner, ang.tp(), rotate_around=ar.tp())
            ao, aro = ang.oracle(), ar.oracle()
            L_ = env.L

            def inv(p, prm):
                c, s = L_.cossin(ao(prm)[0])
                a = aro(prm)
                x, y = p[0] - a[0], p[1] - a[1]
                return [c * x + s * y + a[0], -s * x + c * y + a[1]]
        P, rows = SH.params(env, [("t", 1)] if k else [], k)
        qt = env.tensor("q", (n, 2))
        q = SH.elems(env, qt)
        res = d._contains(Points(qt, X), P)
        want = [inv(q[2 * i:2 * i + 2], rows[i] if k else {}) for i in range(n)]
        return dict(res=res, asked=[x[0] for x in inner.asked], want=want, ans=inner.f_in, shape=list(res.shape), n=n)

    def goals(o, L, env):
        yield "one_truth_value_per_row", o["shape"] == [o["n"], 1]
        yield "inner_asked_once", len(o["asked"]) == 1
        for t in o["asked"]:
            for i in range(o["n"]):
                for c in range(2):
                    yield "inverse_image[row%d,%d]" % (i, c), L.eq(t[i][c], o["want"][i][c])
        for i in range(o["n"]):
            yield "answer_passed_through[row%d]" % i, L.Iff(o["res"][i][0], o["ans"][i])

    return Case(cname, body, goals, family="abstract/" + kind, params=dict(kind=kind, k=k))


def named_axes_case(k):
    """a disc over two separately named axes R1('x')*R1('y'); the query Points carry the variables in the OTHER order
    (y, x): membership is by name, not by column position"""
    cname = "contains/Circle(x*y)/query_order_yx/k%d" % k

    def body(env):
        L = env.L
        X = tp.spaces.R1("x") * tp.spaces.R1("y")
        c = SH.Aff(env, "Cc", 2, None)
        r = SH.Aff(env, "Cr", 1, "t" if k else None)
        dom = tp.domains.Circle(X, c.tp(), r.tp())
        from oracle import sets as O
        oset = O.OBall(c.oracle(), r.oracle(), 2)
        n = k if k else 2
        P, rows = SH.params(env, [("t", 1)] if k else [], k)
        qx, qy = env.tensor("q_x", (n, 1)), env.tensor("q_y", (n, 1))
        pts = Points.from_coordinates({"y": qy, "x": qx})
        ex, ey = SH.elems(env, qx), SH.elems(env, qy)
        prms = rows if k else [{} for _ in range(n)]
        for prm in prms:
            env.assume(oset.positive(prm, L))
        res = dom._contains(pts, P)
        want = [oset.closure([ex[i], ey[i]], prms[i], L, 0) for i in range(n)]
        return dict(res=res, want=want, shape=list(res.shape), n=n)

    def goals(o, L, env):
        yield "one_truth_value_per_row", o["shape"] == [o["n"], 1]
        if o["shape"] == [o["n"], 1]:
            for i, (r, w) in enumerate(zip(o["res"], o["want"])):
                yield "contains_iff_member[row%d]" % i, L.Iff(r[0], w)

    return Case(cname, body, goals, family="contains/Circle(x*y)", params=dict(k=k))


def optional_angle_case():
    """Rotate (of an ARBITRARY domain) by a rotation-matrix function whose only parameter is OPTIONAL (has a default):
    the same object is asked with two different parameter batches; the inner domain must be asked about the inverse
    image at each row's own parameter value, and its answer is returned"""
    cname = "abstract/Rotate[optional t]/two_queries"

    def body(env):
        L = env.L
        X = tp.spaces.R2("x")
        w = env.const(0.5)
        wv = 0.5 if not env.symbolic else L.num(0.5)

        # rotation matrix as a RATIONAL function of tau = w*t (c = (1-tau^2)/(1+tau^2), s = 2 tau/(1+tau^2)):
        # exact in the solver and replayable with floats
        def rot(t=env.const([[0.0]])):
            tau = w * t
            den = 1 + tau * tau
            c, s_ = (1 - tau * tau) / den, 2 * tau / den
            return torch.stack((torch.cat((c, -s_), dim=1), torch.cat((s_, c), dim=1)), dim=1)

        out = []
        dom = None
        for qi in range(2):
            n = 1 + qi
            inner = SH.StubDomain(X, env, "s%d" % qi, n)
            if dom is None:
                dom = tp.domains.Rotate(inner, rot)
            else:
                dom.domain = inner  # same Rotate object, another (arbitrary) inner answer table of the right size
            P, rows = SH.params(env, [("t", 1)], n, tag="prm%d" % qi)
            qt = env.tensor("q%d" % qi, (n, 2))
            q = SH.elems(env, qt)
            res = dom._contains(Points(qt, X), P)
            want = []
            for i in range(n):
                tau = wv * rows[i]["t"][0]
                c, s_ = L.div(1 - tau * tau, 1 + tau * tau), L.div(2 * tau, 1 + tau * tau)
                x, y = q[2 * i], q[2 * i + 1]
                want.append([c * x + s_ * y, -s_ * x + c * y])
            out.append(dict(res=res, want=want, n=n, shape=list(res.shape), asked=[a_[0] for a_ in inner.asked], ans=inner.f_in))
        return dict(q=out)

    def goals(o, L, env):
        for qi, q in enumerate(o["q"]):
            yield "one_truth_value_per_row[query%d]" % qi, q["shape"] == [q["n"], 1]
            yield "inner_asked_once[query%d]" % qi, len(q["asked"]) == 1
            for t in q["asked"]:
                for i in range(q["n"]):
                    for c in range(2):
                        yield "inverse_image[query%d,row%d,%d]" % (qi, i, c), L.eq(t[i][c], q["want"][i][c])
            if q["shape"] == [q["n"], 1]:
                for i in range(q["n"]):
                    yield "answer_passed_through[query%d,row%d]" % (qi, i), L.Iff(q["res"][i][0], q["ans"][i])

    return Case(cname, body, goals, family="abstract/Rotate[optional t]", timeout_ms=60000)


def point_case(k):
    cname = "contains/Point/k%d" % k

    def body(env):
        sh = SH.point(env, dim=2, dep="t" if k else None)
        pts, P, prow, prms = _query(env, sh, k, 2)
        L = env.L
        allv = [v for p in prow for v in p]
        SH.bounded(env, allv)
        for prm in prms:
            SH.bounded(env, sh.oset.c(prm) if callable(sh.oset.c) else sh.oset.c)
        res = sh.dom._contains(pts, P)
        near = [sh.oset.mem(p, prm, L, POINT_ATOL, False) for p, prm in zip(prow, prms)]
        far = [L.Not(sh.oset.mem(p, prm, L, POINT_ATOL + 16 * 1e-5 + 1e-6, False)) for p, prm in zip(prow, prms)]
        return dict(res=res, near=near, far=far, shape=list(res.shape), n=len(prow))

    def goals(o, L, env):
        yield "one_truth_value_per_row", o["shape"] == [o["n"], 1]
        for i, r in enumerate(o["res"]):
            yield "near_accepted[row%d]" % i, L.Implies(o["near"][i], r[0])
            yield "far_rejected[row%d]" % i, L.Implies(o["far"][i], L.Not(r[0]))

    return Case(cname, body, goals, family="contains/Point", params=dict(k=k))


def cases(tier):
    cs = []
    cat = SH.catalog(tier)
    for name, mk, info in cat:
        dep = bool(SH_dep(info, name))
        ks = (1, 2) if dep else ((0, 2) if tier == "thorough" else (0,))
        if dep and tier == "quick":
            ks = (2,)
        for k in ks:
            cs.append(interior_case(name, mk, info, k))
    for name, mk, info in cat:
        if info.get("fam") == "product":
            continue  # boundary of a product is a union of products of lower-dimensional sets: covered via its parts
        if name.startswith("Rotate") or name.startswith("Translate"):
            if tier == "quick" and "[t]" in name:
                continue
        dep = bool(SH_dep(info, name))
        k = 2 if dep else 0
        heavy = (info.get("fam") in ("bool", "nested") and "Interval" not in name) or name.startswith("Rotate")
        if heavy and tier == "quick":
            continue  # quick tier: composition layer is decided on abstract operands (abstract/*) + primitives
        cs.append(boundary_case(name, mk, info, k))
    for name, mk, info in cat:
        if info.get("fam") in ("prim",):
            for n in ((1, 2) if tier == "quick" else (1, 2, 3)):
                cs.append(own_sample_case(name, mk, info, n))
            cs.append(own_sample_case(name, mk, info, 3, grid=True))
            if "kind" in info and info["kind"] in SH.PRIMS:
                cs.append(own_sample_case(name, mk, info, 2, grid=True, after_other=True))
    for name, mk, info in cat:
        if info.get("dep") and info.get("fam") == "bool" and "Interval" in name and (tier == "thorough" or info.get("kind") == "-"):
            cs.append(own_sample_rows_case(name, mk, info))
    cs.append(point_case(0))
    cs.append(point_case(2))
    cs.append(named_axes_case(0))
    cs.append(named_axes_case(2))
    cs.append(optional_angle_case())
    for op in "+-&":
        cs.append(abstract_bool_case(op, False))
        cs.append(abstract_bool_case(op, True))
    for kind in ("Translate", "Rotate"):
        for k in (0, 2):
            cs.append(abstract_transform_case(kind, k))
    return cs


def SH_dep(info, name):
    return info.get("fam") == "dep" or info.get("dep") or "[t]" in name
