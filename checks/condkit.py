"""Shared building blocks of the condition checks (C04, C14).

Everything here is built from `env` inputs only, so the same source runs symbolically and in
replay:

* `sym_fcn`      real `tp.models.FCN` (one hidden layer, activation z -> z*z) whose parameters are
                 overwritten by symbolic tensors + an independent oracle (value and derivative,
                 routed BY NAME through the model's input/output spaces)
* `FixedSampler` a PointSampler returning fixed (symbolic) Points, recording every call
* `record`       wraps `sample_points` of a real sampler instance by a recorder
* `LinFn`        data function f(vars) = sum coef*var + c0 with symbolic coefficients, generated
                 with an explicit signature order
* `make_fn`      generate a user function with a given positional signature
"""
from __future__ import annotations

import torch
import torchphysics as tp
from torchphysics.problem.spaces import Space
from torchphysics.problem.spaces.points import Points
from torchphysics.problem.samplers.sampler_base import PointSampler

import symtorch.ops_c04  # noqa: F401  (index_put(accumulate) with full-slice indices)

from . import shapes as SH


class Sq(torch.nn.Module):
    """polynomial activation: derivatives of the model are non-trivial polynomials"""

    def forward(self, x):
        return x * x


def space_of(order, dims):
    sp = Space({})
    for v in order:
        sp = sp * Space({v: dims[v]})
    return sp


def make_fn(sig, impl, name="_f", defaults=None):
    """a plain function `def name(<sig>)` forwarding its arguments by keyword to impl; `defaults` (name -> value) gives
    trailing parameters of sig a declared default"""
    defaults = defaults or {}
    params = ["%s=_d_%s" % (a, a) if a in defaults else a for a in sig]
    src = "def %s(%s):\n    return _impl(%s)\n" % (name, ", ".join(params), ", ".join("%s=%s" % (a, a) for a in sig))
    ns = {"_impl": impl}
    ns.update({"_d_" + k: v for k, v in defaults.items()})
    exec(src, ns)
    return ns[name]


def grid(vals, r, c):
    """flat list -> r x c nested list"""
    return [[vals[i * c + j] for j in range(c)] for i in range(r)]


# --------------------------------------------------------------------------
# model with symbolic weights + oracle
# --------------------------------------------------------------------------


class FcnOracle:
    def __init__(self, in_space, out_space, W1, b1, W2, b2):
        self.in_vars = [(v, in_space[v]) for v in in_space]
        self.out_vars = [(v, out_space[v]) for v in out_space]
        self.W1, self.b1, self.W2, self.b2 = W1, b1, W2, b2
        self.H = len(b1)

    def _z(self, coords):
        z = []
        for v, d in self.in_vars:
            assert len(coords[v]) == d
            z += list(coords[v])
        return z

    def _h(self, coords):
        z = self._z(coords)
        return [sum(self.W1[k][j] * z[j] for j in range(len(z))) + self.b1[k] for k in range(self.H)]

    def value(self, coords):
        """coords: name -> list of components.  -> name -> list of components"""
        h = self._h(coords)
        y = [sum(self.W2[o][k] * h[k] * h[k] for k in range(self.H)) + self.b2[o] for o in range(len(self.b2))]
        out, pos = {}, 0
        for v, d in self.out_vars:
            out[v] = y[pos:pos + d]
            pos += d
        return out

    def deriv(self, coords, out_name, out_comp, var):
        """d out_name[out_comp] / d var[j] for every component j of var"""
        h = self._h(coords)
        o, pos = None, 0
        for v, d in self.out_vars:
            if v == out_name:
                o = pos + out_comp
            pos += d
        col, res = 0, None
        for v, d in self.in_vars:
            if v == var:
                res = [sum(self.W2[o][k] * 2 * h[k] * self.W1[k][col + j] for k in range(self.H)) for j in range(d)]
            col += d
        return res


def sym_fcn(env, tag, in_space, out_space, hidden=2):
    model = tp.models.FCN(in_space, out_space, hidden=(hidden,), activations=Sq())
    lin1, lin2 = model.sequential[0], model.sequential[2]
    ws = {}
    for nm, p in (("W1", lin1.weight), ("b1", lin1.bias), ("W2", lin2.weight), ("b2", lin2.bias)):
        w = env.tensor("%s_%s" % (tag, nm), tuple(p.shape))
        with torch.no_grad():
            p.copy_(w)
        ws[nm] = SH.elems(env, w)
    din, dout = in_space.dim, out_space.dim
    orc = FcnOracle(in_space, out_space, grid(ws["W1"], hidden, din), ws["b1"], grid(ws["W2"], dout, hidden), ws["b2"])
    return model, orc


def sym_parameter(env, tag, space):
    """real learnable tp.models.Parameter with symbolic value -> (Parameter, name -> components)"""
    prm = tp.models.Parameter([0.0] * space.dim, space)
    val = env.tensor(tag, (1, space.dim))
    with torch.no_grad():
        prm.as_tensor.copy_(val)
    el = SH.elems(env, val)
    out, pos = {}, 0
    for v in space:
        out[v] = el[pos:pos + space[v]]
        pos += space[v]
    return prm, out


# --------------------------------------------------------------------------
# samplers
# --------------------------------------------------------------------------


class FixedSampler(PointSampler):
    """'the sampler' of a case: returns fixed Points (symbolic coordinates); every call is recorded.
    With parameters it forms the product like every torchphysics sampler (points repeated blockwise,
    each parameter row repeated len(points) times)."""

    def __init__(self, points):
        super().__init__(n_points=len(points.as_tensor))
        self.points = points
        self.produced = []

    def sample_points(self, params=Points.empty(), device="cpu"):
        if params.isempty:
            out = self.points
        else:
            out = self.points.repeat(len(params)).join(self._repeat_params(params, len(self)))
        self.produced.append(out)
        return out


def fixed_points(env, tag, order, dims, n):
    sp = space_of(order, dims)
    return Points(env.tensor(tag, (n, sp.dim)), sp)


def record(sampler):
    """record what a real sampler instance produces (instance-level wrapper, class untouched)"""
    produced = []
    orig = sampler.sample_points

    def sample_points(*a, **k):
        p = orig(*a, **k)
        produced.append(p)
        return p

    sampler.sample_points = sample_points
    sampler.produced = produced
    return sampler


def rows_by_name(rows, space):
    """nested-list rows of a Points tensor -> list of {name: components}"""
    out = []
    for r in rows:
        d, pos = {}, 0
        for v in space:
            d[v] = list(r[pos:pos + space[v]])
            pos += space[v]
        out.append(d)
    return out


# --------------------------------------------------------------------------
# data functions
# --------------------------------------------------------------------------


class LinFn:
    """f(vars) = c0 + sum_v sum_c coef[v][c] * v[c]   (one output column), symbolic coefficients.
    `fn` has the positional signature `sig` (a permutation of the variables)."""

    def __init__(self, env, tag, sig, dims, defaults=None):
        self.sig = list(sig)
        self.coef_t = {v: env.tensor("%s_%s" % (tag, v), (dims[v],)) for v in sig}
        self.c0_t = env.tensor(tag + "_0", ())
        self.coef = {v: SH.elems(env, self.coef_t[v]) for v in sig}
        self.c0 = SH.elems(env, self.c0_t)[0]
        self.calls = []

        def impl(**kw):
            self.calls.append(kw)
            out = None
            for v in self.sig:
                term = (kw[v] * self.coef_t[v]).sum(dim=-1, keepdim=True)
                out = term if out is None else out + term
            return out + self.c0_t

        self.fn = make_fn(self.sig, impl, name=tag, defaults=defaults)

    def value(self, coords):
        return self.c0 + sum(self.coef[v][c] * coords[v][c] for v in self.sig for c in range(len(self.coef[v])))


# --------------------------------------------------------------------------
# goal helpers
# --------------------------------------------------------------------------


def shape_of(x):
    s = []
    while isinstance(x, list):
        s.append(len(x))
        x = x[0] if x else None
    return s


def _bcast_ok(sg, sw):
    """numpy/torch broadcasting of shape sg to exactly shape sw"""
    if len(sg) > len(sw):
        return False
    pad = [1] * (len(sw) - len(sg)) + list(sg)
    return all(a == b or a == 1 for a, b in zip(pad, sw))


def _at(x, idx, shape):
    """element of nested list x (of shape `shape`) at the broadcast index idx (aligned at the trailing axes)"""
    idx = idx[len(idx) - len(shape):]
    for i, n in zip(idx, shape):
        x = x[0 if n == 1 else i]
    return x


def cells_eq(L, name, got, want):
    """per-cell equalities between a received tensor and the expected rows.  The received tensor must have the expected
    shape or broadcast to exactly that shape (a value that is constant along an axis may be handed over with extent 1
    there: every row-wise use sees the same numbers); anything else is a shape violation."""
    sg, sw = shape_of(got), shape_of(want)
    ok = _bcast_ok(sg, sw)
    yield "%s_shape_fits_rows" % name, ok
    if not ok:
        return

    def walk(w, idx):
        if isinstance(w, list):
            for i, b in enumerate(w):
                yield from walk(b, idx + (i,))
        else:
            yield "%s[%s]" % (name, ",".join(map(str, idx))), L.eq(_at(got, idx, sg), w)

    yield from walk(want, ())


def mean(vals):
    vals = list(vals)
    return sum(vals) / len(vals)


# --------------------------------------------------------------------------
# generic symbolic weights / one-hidden-layer oracle (DeepONet nets)
# --------------------------------------------------------------------------


def symbolize(env, tag, module):
    """overwrite every parameter of a real module by fresh symbols -> {param name: nested list of elements}"""

    def nest(el, shape):
        if len(shape) == 1:
            return list(el)
        step = len(el) // shape[0]
        return [nest(el[i * step:(i + 1) * step], shape[1:]) for i in range(shape[0])]

    out = {}
    for i, (nm, p) in enumerate(module.named_parameters()):
        w = env.tensor("%s%d" % (tag, i), tuple(p.shape))
        with torch.no_grad():
            p.copy_(w)
        out[nm] = nest(SH.elems(env, w), tuple(p.shape))
    return out


def mlp_sq(W, z, prefix="sequential"):
    """Linear -> z*z -> Linear with the weights W (from symbolize) applied to the list z
    -> (outputs, d outputs / d z)"""
    W1, b1 = W[prefix + ".0.weight"], W[prefix + ".0.bias"]
    W2, b2 = W[prefix + ".2.weight"], W[prefix + ".2.bias"]
    h = [sum(W1[k][j] * z[j] for j in range(len(z))) + b1[k] for k in range(len(b1))]
    y = [sum(W2[o][k] * h[k] * h[k] for k in range(len(h))) + b2[o] for o in range(len(b2))]
    dy = [[sum(W2[o][k] * 2 * h[k] * W1[k][j] for k in range(len(h))) for j in range(len(z))] for o in range(len(b2))]
    return y, dy
