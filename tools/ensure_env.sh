#!/bin/sh
# Idempotent, offline: z3-solver into /verif/.deps for /venv/bin/python.
set -e
HERE="$(cd "$(dirname "$0")/.." && pwd)"
DEPS="$HERE/.deps"
if [ ! -d "$DEPS/z3" ]; then
  mkdir -p "$DEPS"
  PIP_NO_INDEX=1 /venv/bin/python -m pip install --quiet --no-index \
     --find-links /opt/veriftools/wheels --target "$DEPS" z3-solver jsonschema >/dev/null 2>&1 || \
  PIP_NO_INDEX=1 /venv/bin/python -m pip install --no-index \
     --find-links /opt/veriftools/wheels --target "$DEPS" z3-solver
fi
exit 0
