#!/usr/bin/env python3
"""Writes /verif/MANIFEST.json from the table below (kept in one place so it stays valid)."""
import json, os

HERE = os.path.dirname(os.path.dirname(os.path.abspath(__file__)))

TECH = "symbolic execution of the real torchphysics code on z3-term tensors (SymTorch dispatch mode, real autograd) + z3 SMT verdict per path; counterexamples replayed on the real code"

CLAIMED = {
    # id: (design_ref, text, note)
    "C10": ("DESIGN.md §2 C10",
            "Bounded symbolic model checking: volume()/boundary volume of every primitive with all shape parameters and parameter rows symbolic is proved equal to the analytic measure (z3, unsat) on every path; composition algebra and density row counts likewise; within the stated bounds this covers all real inputs, which sampling cannot.",
            "floats as reals; kernel table symtorch/ops.py; pi as a bounded symbol; shapes of positive measure; k<=2 parameter rows; shapely/trimesh excluded"),
    "C05": ("DESIGN.md §2 C05",
            "Bounded symbolic model checking: _contains of every catalogue shape is executed on symbolic query points, shape parameters and parameter rows and proved (z3) equivalent to an independent set-theoretic oracle (exactly for primitives, outside a tolerance band for boundaries); the composition layer (union/cut/intersection interiors and boundaries, translate, rotate) is additionally proved on ARBITRARY operands (stub domains answering free symbolic booleans), which gives an inductive step for any nesting depth.",
            "floats as reals; |parameters|<=16 for reject-claims of isclose tests; crossing points of operand boundaries and the band (0, 2e-4) outside the claim; shapely/trimesh excluded"),
    "C12": ("DESIGN.md §2 C12",
            "Bounded symbolic model checking: Points/Space operations run on tensors whose cells are distinct symbols and on symbolic slice bounds/masks/dims (forked); every resulting cell is proved equal (z3) to the cell an independent table model routes there, for all layouts of <=3 variables.",
            "layouts of <=3 variables with dims in {1,2} (Space dims symbolic in [1,3]), batch shapes (3,) and (2,2), op sequences <=3; index tensors with distinct entries for assignment"),
    "C13": ("DESIGN.md §2 C13",
            "Bounded symbolic model checking: UserFunction/DomainUserFunction are executed with symbolic tokens as argument values and symbolic presence bits for every name (forked); routing by name, defaults, rejection, partial evaluation and non-interference are proved per path (z3) for every signature shape within the bound.",
            "signatures of <=4 positional-or-keyword parameters, sequences of <=3 operations; *args/**kwargs/keyword-only rejected by the class and outside the claim"),
    "C20": ("DESIGN.md §2 C20",
            "Bounded symbolic model checking: the real _FourierLayer/FNO run on symbolic input fields, kernels and channel maps with an exact DFT over Q(sqrt2,sqrt3); shift-equivariance for every axis and shift, nodal agreement across resolutions for band-limited inputs and input-immutability are polynomial identities proved by z3.",
            "grid sizes dividing 24, <=4-D, channels<=2; tanh uninterpreted; band limit K<N/2; space_res batch-norm variant outside; FFT kernels validated against torch.fft on every run"),
}

NOT_APPLICABLE = {
    "C19": "checkpoint/restore fidelity lives behind torch.save/torch.load (pickle + C++ serialisation) and Lightning's Trainer/checkpoint connector, none of which can be encoded symbolically; replacing them by stubs would verify the stubs (DESIGN.md §3)",
}

PENDING = "check not built yet in this round (planned, see DESIGN.md §2); not claimed until its check exists"


def main():
    props = [json.loads(l)["id"] for l in open(os.path.join(HERE, "properties.jsonl"))]
    checks = []
    for pid in props:
        if pid in CLAIMED:
            ref, text, note = CLAIMED[pid]
            checks.append(dict(
                property_id=pid,
                quick_cmd="./check %s --tier quick" % pid,
                thorough_cmd="./check %s --tier thorough" % pid,
                evidence_file="evidence/%s.json" % pid,
                replay_cmd_template="./check %s --replay {path}" % pid,
                engine="symtorch",
                level_claimed=dict(category="model_checking", text=text, design_ref=ref),
                level_note=note,
                technique=TECH,
            ))
    na = []
    for pid in props:
        if pid in CLAIMED:
            continue
        na.append(dict(property_id=pid, reason=NOT_APPLICABLE.get(pid, PENDING)))
    m = dict(
        version=1,
        setup_cmd="./tools/ensure_env.sh",
        hooks=dict(guard="TORCHPHYSICS_VERIF", enable="no source hooks: checks import /repo's working tree (editable install) and observe it from outside (dispatch mode, subclass overrides, temporary patches of torch.tensor and RNG kernels)",
                   baseline_off_cmd="cd /repo && /venv/bin/python -m pytest -ra -q -p no:cacheprovider --timeout=900 --continue-on-collection-errors",
                   source_commits=[], add_only=True),
        engines=[dict(name="symtorch", path="symtorch/", serves_properties=sorted(CLAIMED),
                      kind_free_text="symbolic executor for PyTorch programs: TorchDispatchMode + tensor wrapper subclass with z3-term payloads, decision-replay path exploration, z3 queries, replay of counterexamples on the real code")],
        checks=checks,
        not_applicable=na,
        notes="fix: commits in /repo are listed in known_findings.json (status fixed). Exit codes: 0 held, 1 VIOLATION, 2 harness/engine problem.",
    )
    with open(os.path.join(HERE, "MANIFEST.json"), "w") as f:
        json.dump(m, f, indent=1)
    print("claimed:", sorted(CLAIMED), "not claimed:", [x["property_id"] for x in na])


if __name__ == "__main__":
    main()
