#!/usr/bin/env python3
"""Writes /verif/MANIFEST.json from the table below (kept in one place so it stays valid)."""
import json, os

HERE = os.path.dirname(os.path.dirname(os.path.abspath(__file__)))

TECH = "symbolic execution of the real torchphysics code on z3-term tensors (SymTorch dispatch mode, real autograd) + z3 SMT verdict per path (proof ladder incl. cube splitting); counterexamples and concrete path witnesses replayed on the real code in a clean process"

CLAIMED = {
    # id: (design_ref, text, note)
    "C10": ("DESIGN.md §2 C10",
            "Bounded symbolic model checking: volume()/boundary volume of every primitive with all shape parameters and parameter rows symbolic is proved equal to the analytic measure (z3, unsat) on every path; composition algebra and density row counts likewise; within the stated bounds this covers all real inputs, which sampling cannot.",
            "floats as reals; kernel table symtorch/ops.py; pi as a bounded symbol; shapes of positive measure; k<=2 parameter rows; shapely/trimesh excluded"),
    "C05": ("DESIGN.md §2 C05",
            "Bounded symbolic model checking: _contains of every catalogue shape is executed on symbolic query points, shape parameters and parameter rows and proved (z3) equivalent to an independent set-theoretic oracle (exactly for primitives, outside a tolerance band for boundaries); the composition layer (union/cut/intersection interiors and boundaries, translate, rotate) is additionally proved on ARBITRARY operands (stub domains answering free symbolic booleans), which gives an inductive step for any nesting depth.",
            "floats as reals; |parameters|<=16 for reject-claims of isclose tests; crossing points of operand boundaries and the band (0, 2e-4) outside the claim; shapely/trimesh excluded"),
    "C06": ("DESIGN.md §2 C06",
            "Bounded symbolic model checking: boundary.normal is executed (a) end to end at the points the real boundary samplers return with every draw symbolic (Interval incl. single sides, Circle, thorough: Sphere, parameter-dependent shapes) and (b) at the generic point of every polygon edge (symbolic edge parameter in [0,1] incl. corner zones and corners, all shape parameters symbolic, both vertex orientations of Parallelogram); z3 proves unit length, orthogonality to the edge, that a step against the normal enters the domain, membership in the normal cone at corners; (c) the real polygon boundary samplers are proved to return only points on edges; (d) union/cut/intersection normals are proved on ARBITRARY operands (selection rule, sign flip of the removed part, unit length preserved) which is the inductive step for any nesting.",
            "floats as reals; Triangle corners counter-clockwise (documented precondition); crossing points of operand boundaries and intervals shorter than 2e-4 outside the claim; k<=2 parameter rows; concrete 2-D Boolean arcs beyond the solver budget (covered by (d) + primitives); shapely/trimesh excluded"),
    "C12": ("DESIGN.md §2 C12",
            "Bounded symbolic model checking: Points/Space operations run on tensors whose cells are distinct symbols and on symbolic slice bounds/masks/dims (forked); every resulting cell is proved equal (z3) to the cell an independent table model routes there, for all layouts of <=3 variables.",
            "layouts of <=3 variables with dims in {1,2} (Space dims symbolic in [1,3]), batch shapes (3,) and (2,2), op sequences <=3; index tensors with distinct entries for assignment"),
    "C13": ("DESIGN.md §2 C13",
            "Bounded symbolic model checking: UserFunction/DomainUserFunction are executed with symbolic tokens as argument values and symbolic presence bits for every name (forked); routing by name, defaults, rejection, partial evaluation and non-interference are proved per path (z3) for every signature shape within the bound.",
            "signatures of <=4 positional-or-keyword parameters, sequences of <=3 operations; *args/**kwargs/keyword-only rejected by the class and outside the claim"),
    "C20": ("DESIGN.md §2 C20",
            "Bounded symbolic model checking: the real _FourierLayer/FNO run on symbolic input fields, kernels and channel maps with an exact DFT over Q(sqrt2,sqrt3); shift-equivariance for every axis and shift, nodal agreement across resolutions for band-limited inputs and input-immutability are polynomial identities proved by z3.",
            "grid sizes dividing 24, <=4-D, channels<=2; tanh uninterpreted; band limit K<N/2; space_res batch-norm variant outside; FFT kernels validated against torch.fft on every run"),
    "C03": ("DESIGN.md §2 C03",
            "Bounded symbolic model checking with the REAL autograd engine: for every subset of the monomial basis (degree bound), with symbolic coefficients and symbolic evaluation points, each operator's result is proved (z3) equal, cell by cell, to the closed-form derivative computed by an independent polynomial algebra; structural-zero cases must not raise; row independence by free-variable analysis.",
            "templates: polynomials of degree<=2 (quick)/3 (thorough) in <=3 variables, sin/exp/tanh of linear forms (thorough); batch (2,),(3,),(2,2); float precision only as result dtype; a second batch axis with >=2 variables for grad/normal_derivative is reported"),
    "C04": ("DESIGN.md §2 C04",
            "Bounded symbolic model checking: real conditions with a real FCN (symbolic weights, polynomial activation), symbolic sampled points, parameters and data functions; every argument the residual receives and the returned loss are proved (z3) equal to an independent recomputation from the sampled points.",
            "models: FCN hidden (2,) with z*z activation; n<=3 points; all orderings of <=3 variables (thorough); weight applied by the Solver is checked in C07"),
    "C08": ("DESIGN.md §2 C08",
            "Bounded symbolic model checking: real models with every weight and every input cell symbolic; permutation invariance, rejection of missing variables, row independence, batch-axis arrangement, Sequential=composition, Parallel=join are proved cell by cell (z3; tanh uninterpreted).",
            "hidden (2,)/(2,2), <=3 input variables of dim<=2, batch 2/(2,2)/3; initialisers stubbed (weights overwritten by symbols); for disequalities z3 cannot decide, a concrete instance of the symbolic claim is proved instead and replayed"),
    "C09": ("DESIGN.md §2 C09",
            "Bounded symbolic model checking through the real custom autograd.Function: DeepONet output = branch-trunk inner product for separately evaluated features; all ways of supplying the branch input agree; fast trunk path vs plain nn.Linear twin: outputs, grad, laplacian and all parameter gradients (incl. double backward) proved identical (z3).",
            "trunk in-dim 2, hidden (2,)/(2,2), 2-3 neurons, out-dim<=2, 2 functions x 2-3 locations; x^2/x^3 activations (quick), tanh/sin (thorough)"),
    "C14": ("DESIGN.md §2 C14",
            "Bounded symbolic model checking: sets of 2-3 real conditions sharing user objects are constructed/evaluated in every interleaving; each loss term is proved (z3) identical to that of an identically built condition alone; user containers compared by identity; static-sampler repeatability; periodic left/right data by free-variable and renaming queries.",
            "2-3 conditions out of pinn/mean/periodic/integro/hpm, n<=3 points, all interleavings (90 for three conditions, thorough)"),
    "C15": ("DESIGN.md §2 C15",
            "Bounded symbolic model checking of the sampler state machines: resample interval and history positions are symbolic integers (forked), the tag returned by every call is proved to follow the documented machine, plus an inductive step from an arbitrary state (any history length); adaptive samplers: loss vector/ratio symbolic, every keep-set forked, kept rows/fresh rows/row count proved.",
            "interval<=4 & 9 calls (quick), <=8 & 20 calls (thorough) + inductive step with counters up to 1e6; adaptive n<=3/4"),
    "C16": ("DESIGN.md §2 C16",
            "Bounded symbolic model checking of the index arithmetic: the real dataset classes run on symbolic sizes/batch sizes/indices (16-bit bit-vectors with proved no-overflow obligations) with index-recording stand-ins; pairing/in-range/batch-size per path and coverage with the bounded forall expanded into one query; plus real loaders on symbolic data cells with every permutation forked; full-dataset aggregation of DataCondition.",
            "all sizes and batch sizes <=6 (quick)/<=10 (thorough); DataLoader(batch_size=None) modelled as for idx in range(len(ds)) in route A (route B iterates the real DataLoader)"),
    "C01": ("DESIGN.md §2 C01",
            "Bounded symbolic model checking: every sampling method of every catalogue shape (and the point samplers on top) is executed with symbolic shape parameters, parameter rows and random draws; accept/reject outcomes, grid sizes and loop iterations fork paths; on every path each returned row is proved (z3) to lie in the independently defined set (closure resp. boundary band) of its parameter row, and no feasible path may raise; histories (A, B, A again; shared inner objects; adaptive samplers called again with other rows) are part of the cases. Termination twin: one path beyond the unwinding bound is replayed on the real code (inputs on the grid Z/16, non-empty set) with a 30 s limit.",
            "n<=2 (quick)/<=4 (thorough), k<=2; rejection loops unwound to the stated fork bounds (unwound paths are reported, not counted as success); termination is only tested on the replayed path, almost-sure termination in general is not claimed; 2-D Boolean boundaries in the thorough tier only; the thorough tier is sized by wall time (cases not started are listed as not run)"),
    "C02": ("DESIGN.md §2 C02",
            "Bounded symbolic model checking: samplers and the sampler algebra run with symbolic parameter rows, filters and random draws (accept/reject forked); row counts are checked on every path and every parameter column of every returned row is proved (z3) equal to the input parameter row it must carry; products/concat/append are compared with recorded sub-samples.",
            "shape parameters concrete (row counts and pairing do not depend on the geometry), n<=2/4, k<=2/3, algebra depth 1/2; 2-D Boolean combinations in the thorough tier only"),
    "C07": ("DESIGN.md §2 C07",
            "Bounded symbolic model checking: the real Solver hooks and the real torch.optim SGD/Adam/schedulers run on symbolic weights, parameters, adaptive weights and condition weights; after every step all learnable and optimizer-state tensors are proved (z3) equal to those of an independent reference loop on a twin; inductive-step cases start from an arbitrary optimizer state.",
            "pl.Trainer replaced by a 25-line stub of Lightning's documented automatic-optimisation order (validated bit-identically against the real Trainer outside the check); optimizer hyper-parameters concrete; FCN hidden<=2, 2-4 conditions, <=3 steps + inductive step; LBFGS-style closure optimizers outside"),
    "C11": ("DESIGN.md §2 C11",
            "Bounded symbolic model checking via the change-of-variables formula: the sampling maps are executed symbolically, differentiated w.r.t. the random draws through the definitions of sqrt/cos/sin/quotients, and z3 proves |det J| = measure (interiors), speed = perimeter (boundaries), the 1/2-1/2 two-point law, row-local order-preserving rejection, the union mixture threshold, acceptance proportional to fibre measure for dependent products, equal-area / lattice structure of grids, the requested normal law and the LHS one-point-per-slab property for every permutation.",
            "probabilistic lemmas L1-L4 assumed (listed in checks/c11.py); a.e. claims (interior draws, away from kinks); 1 point per call; golden-angle equidistribution outside; LHS n<=3, grids n<=4"),
    "C17": ("DESIGN.md §2 C17",
            "Bounded symbolic model checking: parameter-dependent catalogue shapes (one and two parameter variables) are partially evaluated with symbolic values; membership, volume, bounding box and samples (same draw symbols) of D(**v) are proved (z3) equal to those of D at params=v, also for boundaries, nested operations and repeated evaluation; the original is compared before/after; necessary_variables against the free variables.",
            "k<=2 rows of the remaining variables, n<=2 samples, nesting depth<=2; polygon grids and dependent-product volume/bbox not compared"),
    "C18": ("DESIGN.md §2 C18",
            "Bounded symbolic model checking: bounding_box runs with symbolic shape parameters and parameter rows (Python min/max either forked or as if-then-else terms); every oracle member point is proved (z3) to lie in the box per row and axis, tightness for primitives, the composition layer on arbitrary operands with symbolic enclosing boxes; NormalizationLayer maps members into [-1,1]^d; LHS slabs cover the box.",
            "k<=2 rows; rotated polygons with concrete inner polygon (general composition via abstract operands); dependent products only via set_bounding_box"),
}

NOT_APPLICABLE = {
    "C19": "checkpoint/restore fidelity lives behind torch.save/torch.load (pickle + C++ serialisation) and Lightning's Trainer/checkpoint connector, none of which can be encoded symbolically; replacing them by stubs would verify the stubs (DESIGN.md §3)",
}

PENDING = "check not built yet in this round (planned, see DESIGN.md §2); not claimed until its check exists"


def main():
    props = [json.loads(l)["id"] for l in open(os.path.join(HERE, "properties.jsonl"))]
    checks = []
    for pid in props:
        if pid in CLAIMED:
            ref, text, note = CLAIMED[pid]
            checks.append(dict(
                property_id=pid,
                quick_cmd="./check %s --tier quick" % pid,
                thorough_cmd="./check %s --tier thorough" % pid,
                evidence_file="evidence/%s.json" % pid,
                replay_cmd_template="./check %s --replay {path}" % pid,
                engine="symtorch",
                level_claimed=dict(category="model_checking", text=text, design_ref=ref),
                level_note=note,
                technique=TECH,
            ))
    na = []
    for pid in props:
        if pid in CLAIMED:
            continue
        na.append(dict(property_id=pid, reason=NOT_APPLICABLE.get(pid, PENDING)))
    m = dict(
        version=1,
        setup_cmd="./tools/ensure_env.sh",
        hooks=dict(guard="TORCHPHYSICS_VERIF", enable="no source hooks: checks import /repo's working tree (editable install) and observe it from outside (dispatch mode, subclass overrides, temporary patches of torch.tensor and RNG kernels)",
                   baseline_off_cmd="cd /repo && /venv/bin/python -m pytest -ra -q -p no:cacheprovider --timeout=900 --continue-on-collection-errors",
                   source_commits=[], add_only=True),
        engines=[dict(name="symtorch", path="symtorch/", serves_properties=sorted(CLAIMED),
                      kind_free_text="symbolic executor for PyTorch programs: TorchDispatchMode + tensor wrapper subclass with z3-term payloads, decision-replay path exploration, z3 queries, replay of counterexamples on the real code")],
        checks=checks,
        not_applicable=na,
        notes="fix: commits in /repo are listed in known_findings.json (status fixed). Exit codes: 0 held, 1 VIOLATION, 2 harness/engine problem.",
    )
    with open(os.path.join(HERE, "MANIFEST.json"), "w") as f:
        json.dump(m, f, indent=1)
    print("claimed:", sorted(CLAIMED), "not claimed:", [x["property_id"] for x in na])


if __name__ == "__main__":
    main()
