#!/bin/sh
# tools/seed_verify.sh <PROP> <dir with patch.diff demo.py notes.md> <name> [checks to run, default PROP]
# Verifies a seeded change in a scratch worktree (tests pass, demo fails with / passes without), then runs the
# quick check(s) against a patched scratch worktree (VERIF_REPO) and stores everything under /verif/seeded/<PROP>/<name>/.
set -u
PROP="$1"; SRC="$2"; NAME="$3"; shift 3
CHECKS="${*:-$PROP}"
WT=${SEED_ROOT:-/tmp/seed}/$PROP   # the demos pin this path
OUT=/verif/seeded/$PROP/$NAME
mkdir -p "$OUT"
if [ ! -d "$WT" ]; then git -C /repo worktree add -q "$WT" HEAD || exit 2; fi
(cd "$WT" && git checkout -q -- src tests 2>/dev/null; git checkout -q --detach $(git -C /repo rev-parse HEAD) 2>/dev/null)
cp "$SRC/patch.diff" "$OUT/patch.diff"; cp "$SRC/demo.py" "$OUT/demo.py"; [ -f "$SRC/notes.md" ] && cp "$SRC/notes.md" "$OUT/notes.md"
cd "$WT"
PYTHONPATH=$WT/src /venv/bin/python -W ignore "$OUT/demo.py" >/tmp/sv_demo0_$$.txt 2>&1; D0=$?
git apply "$OUT/patch.diff" || { echo "PATCH DOES NOT APPLY"; exit 2; }
PYTHONPATH=$WT/src /venv/bin/python -W ignore "$OUT/demo.py" >/tmp/sv_demo1_$$.txt 2>&1; D1=$?
PYTHONPATH=$WT/src /venv/bin/python -m pytest -q -p no:cacheprovider tests --ignore=tests/tests_plots -q -x 2>&1 | tail -1 > /tmp/sv_tests_$$.txt
TESTS=$(cat /tmp/sv_tests_$$.txt)
RES=""
for C in $CHECKS; do
  (cd /verif && VERIF_OUT=/tmp/seedout_$$ VERIF_REPO=$WT ./check $C --tier quick --jobs ${SEED_JOBS:-8} > /tmp/sv_check_$$.txt 2>&1; echo $? > /tmp/sv_rc_$$.txt)
  RC=$(cat /tmp/sv_rc_$$.txt)
  VL=$(grep -c '^VIOLATION' /tmp/sv_check_$$.txt)
  FIRST=$(grep -A1 '^VIOLATION' /tmp/sv_check_$$.txt | grep 'case=' | head -3 | tr '\n' ';' | cut -c1-600)
  LAST=$(tail -1 /tmp/sv_check_$$.txt)
  RES="$RES{\"check\":\"$C\",\"exit\":$RC,\"violation_lines\":$VL,\"first\":\"$(echo $FIRST | sed 's/"/\\"/g')\",\"summary\":\"$(echo $LAST | sed 's/"/\\"/g')\"},"
  cp /tmp/sv_check_$$.txt "$OUT/check_$C.log"
done
(cd "$WT" && git checkout -q -- src tests)
cd /
# evidence/replays written by these experimental runs do not belong to the unchanged tree
cat > "$OUT/meta.json" <<EOM
{"property":"$PROP","name":"$NAME","demo_exit_pristine":$D0,"demo_exit_patched":$D1,"test_suite_with_patch":"$TESTS",
 "checks":[${RES%,}],
 "how":"tools/seed_verify.sh: scratch worktree /tmp/seed/<id> of /repo HEAD; demo.py on pristine tree, git apply patch.diff, demo.py again, full pytest (tests_plots excluded), then ./check <id> --tier quick with VERIF_REPO pointing at the patched worktree; worktree restored (and removed at the end of the session)"}
EOM
cat "$OUT/meta.json"
rm -f /tmp/sv_*_$$.txt; rm -rf /tmp/seedout_$$
