#!/usr/bin/env python3
"""seeded/MATRIX.md from seeded/*/*/meta.json"""
import glob, json, os
HERE = os.path.dirname(os.path.dirname(os.path.abspath(__file__)))
rows = []
for f in sorted(glob.glob(os.path.join(HERE, "seeded", "*", "*", "meta.json"))):
    try:
        m = json.load(open(f))
    except Exception as e:
        rows.append((f, "?", "unreadable meta: %s" % e, "", ""))
        continue
    valid = m.get("demo_exit_pristine") == 0 and m.get("demo_exit_patched") == 1 and "passed" in m.get("test_suite_with_patch", "") \
        and "failed" not in m.get("test_suite_with_patch", "")
    for c in m.get("checks", []):
        caught = c.get("exit") == 1 and c.get("violation_lines", 0) > 0
        rows.append((m["property"], m["name"], "valid" if valid else "NOT VALID (%s/%s/%s)" % (m.get("demo_exit_pristine"), m.get("demo_exit_patched"), m.get("test_suite_with_patch")),
                     c["check"] + (" CAUGHT" if caught else " missed (exit %s)" % c.get("exit")), (c.get("first") or "")[:160]))
notes = {}
np_ = os.path.join(HERE, "seeded", "NOTES.json")
if os.path.exists(np_):
    notes = json.load(open(np_))
with open(os.path.join(HERE, "seeded", "MATRIX.md"), "w") as out:
    out.write("# Seeded changes: which check catches which\n\n| property | change | demonstration | quick check | first violation reported | strengthened |\n|---|---|---|---|---|---|\n")
    for r in rows:
        out.write("| %s | %s | %s | %s | %s | %s |\n" % (r[0], r[1], r[2], r[3], r[4].replace("|", "/"), notes.get("%s/%s" % (r[0], r[1]), "")))
print(open(os.path.join(HERE, "seeded", "MATRIX.md")).read())
