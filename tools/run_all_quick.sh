#!/bin/sh
# regenerates every evidence file on the unchanged tree (quick tier), prints one summary line per check
cd "$(dirname "$0")/.."
for p in $(python3 -c "import json;print(' '.join(c['property_id'] for c in json.load(open('MANIFEST.json'))['checks']))"); do
  ./check $p --tier quick --jobs ${VERIF_JOBS:-12} 2>&1 | grep -v "^KNOWN-FINDING\|took\|^ [0-9]" | tail -3
done
