"""Independent model of `Points` / `Space`: a table with named column groups.

Written from the documented meaning (a set of points arranged along batch axes; every
variable owns a block of columns; the variables are ordered), not from the code:
`Table.blocks[name]` is an object ndarray of shape `batch + (dim,)` whose cells are z3
terms or floats, `Table.vars` the ordered `[(name, dim)]`.  No tensor library is involved;
row selection uses numpy's indexing on the batch axes of every block separately, so a
column can never change its owner inside the model.
"""
from __future__ import annotations

import numpy as np


def arr(nested, shape=None):
    """nested python list -> object ndarray (cells stay opaque objects)"""
    def shp(x):
        return (len(x),) + (shp(x[0]) if len(x) else ()) if isinstance(x, (list, tuple)) else ()

    s = tuple(shape) if shape is not None else shp(nested)
    out = np.empty(s, dtype=object)
    for idx in np.ndindex(*s):
        v = nested
        for i in idx:
            v = v[i]
        out[idx] = v
    return out


class Table:
    def __init__(self, vars, blocks):
        self.vars = [(n, int(d)) for n, d in vars]
        self.blocks = dict(blocks)

    # ---- construction / views --------------------------------------------
    @classmethod
    def from_coords(cls, coords, order=None):
        names = list(order if order is not None else coords.keys())
        blocks = {n: arr(coords[n]) for n in names}
        return cls([(n, blocks[n].shape[-1]) for n in names], blocks)

    @classmethod
    def from_flat(cls, vars, nested):
        a = arr(nested)
        blocks, c = {}, 0
        for n, d in vars:
            blocks[n] = a[..., c:c + d]
            c += d
        return cls(vars, blocks)

    @classmethod
    def empty(cls):
        return cls([], {})

    @property
    def isempty(self):
        return not self.vars

    @property
    def names(self):
        return [n for n, _ in self.vars]

    @property
    def batch(self):
        return tuple(self.blocks[self.vars[0][0]].shape[:-1]) if self.vars else (0,)

    @property
    def dim(self):
        return sum(d for _, d in self.vars)

    def copy(self):
        return Table(self.vars, {n: b.copy() for n, b in self.blocks.items()})

    def flat(self):
        """batch + (dim,) nested list: the blocks side by side in variable order"""
        if not self.vars:
            return []
        return np.concatenate([self.blocks[n] for n in self.names], axis=-1).tolist()

    # ---- columns ------------------------------------------------------------
    def select(self, cols):
        """cols: name | list/tuple of names (requested order) | slice of names | None"""
        if cols is None:
            return self
        if isinstance(cols, str):
            cols = [cols]
        elif isinstance(cols, slice):
            ks = self.names
            a = ks.index(cols.start) if cols.start is not None else None
            b = ks.index(cols.stop) if cols.stop is not None else None
            cols = ks[a:b:cols.step]
        d = dict(self.vars)
        return Table([(n, d[n]) for n in cols], {n: self.blocks[n] for n in cols})

    # ---- rows ---------------------------------------------------------------
    @staticmethod
    def _key(rows):
        rows = tuple(rows)
        if not any(r is Ellipsis for r in rows):
            rows = rows + (Ellipsis,)
        return rows + (slice(None),)

    def rows(self, rows):
        """rows: indexers for the batch axes (int, slice, Ellipsis, bool ndarray, int ndarray).
        A single point is still a table with one row."""
        key = self._key(rows)
        out = {}
        for n, b in self.blocks.items():
            r = b[key]
            out[n] = r[None, :] if r.ndim == 1 else r
        return Table(self.vars, out)

    def assign(self, rows, cols, other):
        """table with the selected cells replaced by `other` (same variables as the selection)"""
        new = self.copy()
        sel = self.select(cols)
        key = self._key(rows)
        for n in sel.names:
            v, tgt = other.blocks[n], new.blocks[n][key]
            if v.ndim > tgt.ndim:  # a single point is given as a table with one row
                v = v.reshape(v.shape[v.ndim - tgt.ndim:])
            new.blocks[n][key] = v
        return new

    # ---- combination --------------------------------------------------------
    def join(self, other):
        if self.isempty:
            return other
        if other.isempty:
            return self
        assert not set(self.names) & set(other.names)
        blocks = dict(self.blocks)
        blocks.update(other.blocks)
        return Table(self.vars + other.vars, blocks)

    def vcat(self, other):
        if self.isempty:
            return other
        if other.isempty:
            return self
        return Table(self.vars, {n: np.concatenate([self.blocks[n], other.blocks[n]], axis=0) for n in self.names})

    def repeat(self, *reps):
        """the whole batch is laid out `reps[k]` times along batch axis k"""
        out = {}
        for n, b in self.blocks.items():
            r = tuple(reps) + (1,) * (b.ndim - len(reps))
            out[n] = np.tile(b, r)
        return Table(self.vars, out)

    def unsqueeze(self, dim):
        """new batch axis of length 1 at batch position dim (negative: counted from the end of the batch axes)"""
        nb = len(self.batch)
        p = dim if dim >= 0 else nb + 1 + dim
        assert 0 <= p <= nb
        return Table(self.vars, {n: np.expand_dims(b, p) for n, b in self.blocks.items()})

    def arith(self, op, other):
        """cell by cell, variables matched BY NAME"""
        f = np.frompyfunc(op, 2, 1)
        return Table(self.vars, {n: f(self.blocks[n], other.blocks[n]) for n in self.names})

    def equal(self, other, L):
        """formula: same variables in the same order, same batch, same cells"""
        if self.vars != other.vars or self.batch != other.batch:
            return False
        fs = []
        for n in self.names:
            for a, b in zip(self.blocks[n].reshape(-1), other.blocks[n].reshape(-1)):
                fs.append(L.eq(a, b))
        return L.And(fs)


# --------------------------------------------------------------------------
# spaces: ordered multisets of variable names (dimension = multiplicity)
# --------------------------------------------------------------------------


class MSpace:
    def __init__(self, items):
        self.items = list(items)  # [(name, dim)], dims may be formula-level integers

    def get(self, n):
        for k, d in self.items:
            if k == n:
                return d
        return None

    @property
    def names(self):
        return [k for k, _ in self.items]

    def product(self, other):
        """dimensions are added in order; a name that occurs in both keeps its first position and
        owns the dimensions of both factors"""
        out = []
        for k, d in self.items:
            e = other.get(k)
            out.append((k, d if e is None else d + e))
        for k, d in other.items:
            if self.get(k) is None:
                out.append((k, d))
        return MSpace(out)

    def dim(self):
        tot = 0
        for _, d in self.items:
            tot = tot + d
        return tot

    def contains(self, other, L):
        """every variable of `other` is here with at least its dimension (order is irrelevant)"""
        fs = []
        for k, d in other.items:
            mine = self.get(k)
            if mine is None:
                return False
            fs.append(L.le(d, mine))
        return L.And(fs)

    def select(self, cols):
        if isinstance(cols, slice):
            ks = self.names
            a = ks.index(cols.start) if cols.start is not None else None
            b = ks.index(cols.stop) if cols.stop is not None else None
            cols = ks[a:b:cols.step]
        return MSpace([(k, self.get(k)) for k in cols])

    def equal(self, other, L):
        if self.names != other.names:
            return False
        return L.And([L.eq(a, b) for (_, a), (_, b) in zip(self.items, other.items)])
