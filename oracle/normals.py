"""Independent oracle for outward unit normals of domain boundaries.

Written from the mathematics, not from the code: no barycentric divisions, no square
roots, no normalisations.  Everything is polymorphic in the logic module L (z3 terms or
floats), so the same oracle judges symbolic runs and float64 replays.

claims(oset, p, nu, prm, L, tau) -> list of (name, formula): what must hold for the vector
`nu` returned as the normal at boundary point `p` of the set `oset` (an oracle/sets.py
denotation) under the parameter row `prm`.  The length condition nu.nu == 1 is stated
separately (unit()).

* Interval [lb, ub]          : nu == -1 at lb, nu == +1 at ub.
* Disc / ball (c, r), r > 0  : nu * r == p - c   (the radial unit vector, stated without
                               division or square root).
* Convex polygon with corners v_0..v_{m-1} (any orientation), centroid g, edge i from
  a=v_i to b=v_{i+1}, e=b-a, unnormalised outward normal n_i = +(e_y,-e_x) if the corners run
  counter-clockwise (cross(v_1-v_0, v_{m-1}-v_0) > 0), -(e_y,-e_x) if clockwise:
    - p in the open interior of edge i, farther than `tau` (edge parameter) from both ends:
      nu is THE unit vector perpendicular to the edge pointing away from the polygon:
      nu.e == 0  and  nu.(g - p) < 0        (together with nu.nu == 1);
    - p anywhere on edge i (ends included): a step against nu enters the half-plane of
      that edge:  nu.n_i > 0  (at a vertex this is demanded for both adjacent edges, which is
      exactly "a small step along nu leaves, a small step against it enters" at a convex corner);
      in the corner zones this is stated as two lemmas that together imply it (see polygon_claims);
    - p in the corner zone of vertex v (within `tau` of it on either adjacent edge): nu lies in
      the closed normal cone of the two adjacent edges, nu = a*n_i + b*n_j with a, b >= 0,
      written with 2x2 determinants (Cramer) instead of a linear solve.
* Boolean combinations (set-theoretic rule, recursive, hence arbitrary nesting):
    union A+B        : on dA outside B: the claims of A;   on dB outside A: the claims of B
    cut A-B          : on dA outside B: the claims of A;   on dB inside A: the claims of B for -nu
    intersection A&B : on dA inside B:  the claims of A;   on dB inside A: the claims of B
  "outside"/"inside" are taken with the margin `tau` (absolute units for intervals/balls,
  barycentric for polygons), so points within tau of BOTH boundaries (crossing points, a set of
  measure zero on the boundary) are outside the claim.
"""
from __future__ import annotations

from . import sets as O


def dot(u, v):
    t = 0
    for a, b in zip(u, v):
        t = t + a * b
    return t


def cross2(u, v):
    return u[0] * v[1] - u[1] * v[0]


def unit(nu, L, tol=1e-6):
    """nu . nu == 1"""
    return L.eq(dot(nu, nu), 1, tol)


def neg(nu):
    return [-x for x in nu]


# ---- primitives --------------------------------------------------------------


# every claim is (name, side conditions, premise, conclusion); claims() states conditions & premise => conclusion


def interval_claims(lb, ub, p, nu, L):
    return [("left_end_minus_one", [], L.eq(p[0], lb), L.eq(nu[0], -1)),
            ("right_end_plus_one", [], L.eq(p[0], ub), L.eq(nu[0], 1))]


def ball_claims(c, r, p, nu, L, tol=1e-6):
    return [("radial(%d)" % i, [], True, L.eq(nu[i] * r, p[i] - c[i], tol)) for i in range(len(c))]


def polygon_frame(corners):
    """-> (m*centroid, orientation, [(a, e, r)] per edge a->b: e = b-a, r = (e_y, -e_x) the right-hand
    perpendicular).  orientation = cross(v_1 - v_0, v_{m-1} - v_0): > 0 iff the corners run counter-clockwise
    (the polygon is convex, so every corner turns the same way); the outward normal of edge i is then +r_i, else -r_i."""
    m = len(corners)
    g = [dot([c[0] for c in corners], [1] * m), dot([c[1] for c in corners], [1] * m)]  # m * centroid (no division)
    out = []
    for i in range(m):
        a, b = corners[i], corners[(i + 1) % m]
        e = [b[0] - a[0], b[1] - a[1]]
        out.append((a, e, [e[1], -e[0]]))
    last = [corners[m - 1][0] - corners[0][0], corners[m - 1][1] - corners[0][1]]
    return g, cross2(out[0][1], last), out


def polygon_claims(corners, p, nu, L, tau=2e-4, tol=1e-6):
    g, orient, fr = polygon_frame(corners)
    m = len(fr)
    tau = L.num(tau)
    on, inner, near_start, near_end = [], [], [], []
    for a, e, r in fr:
        w = [p[0] - a[0], p[1] - a[1]]
        ee, s = dot(e, e), dot(w, e)
        line = L.eq(cross2(e, w), 0)
        on.append(L.And(line, L.le(0, s), L.le(s, ee)))
        inner.append(L.And(line, L.lt(tau * ee, s), L.lt(s, (1 - tau) * ee)))
        near_start.append(L.And(line, L.le(0, s), L.le(s, tau * ee)))
        near_end.append(L.And(line, L.le((1 - tau) * ee, s), L.le(s, ee)))
    gp = [g[0] - m * p[0], g[1] - m * p[1]]  # m * (centroid - p)
    ccw, cw = L.gt(orient, 0), L.lt(orient, 0)
    out = []
    for i, (a, e, r) in enumerate(fr):  # one claim per edge / corner: small queries
        # open edge interior: THE outward unit normal of the edge (with nu.nu == 1 claimed separately)
        out.append(("edge_interior_is_outward_edge_normal(e%d)" % i, [], inner[i],
                    L.And(L.eq(dot(nu, e), 0, tol), L.lt(dot(nu, gp), 0))))
        # anywhere on the closed edge: a step against nu enters the open half-plane of this edge, y := nu.n_i > 0
        # (n_i = +r_i iff counter-clockwise: one claim per orientation).  Stated per zone of the edge; in the two
        # corner zones as two lemmas with x := nu.n_k, k the other edge of that corner:
        #   (a) x > 0 or y > 0          (b) x*|e_i| == y*|e_k| or y > 0
        # which together give y > 0 (if not y > 0: x > 0 by (a), y = x*|e_i|/|e_k| > 0 by (b); see
        # vertex_lemma_closure()).  Neither lemma demands more than y > 0; (b) merely offers the solver the
        # equality that holds when nu bisects the corner, which it decides far more easily than the strict
        # Cauchy-Schwarz inequality hidden in y > 0.
        for oname, ocond, sgn in (("ccw", ccw, 1), ("cw", cw, -1)):
            y = sgn * dot(nu, r)
            out.append(("step_against_normal_enters(e%d,interior)@%s" % (i, oname), [ocond], inner[i], L.gt(y, 0)))
            for zname, zprem, k in (("start_zone", near_start[i], (i - 1) % m), ("end_zone", near_end[i], (i + 1) % m)):
                ek, rk = fr[k][1], fr[k][2]
                x = sgn * dot(nu, rk)
                li, lk = L.sqrt(dot(e, e)), L.sqrt(dot(ek, ek))
                nm = "step_against_normal_enters(e%d,%s)@%s" % (i, zname, oname)
                if L.symbolic:
                    out.append((nm + ":an_adjacent_edge_is_entered", [ocond], zprem, L.Or(L.gt(x, 0), L.gt(y, 0))))
                    out.append((nm + ":bisects_or_enters", [ocond], zprem, L.Or(L.eq(x * li, y * lk, tol), L.gt(y, 0))))
                else:  # float replay: a counterexample to either lemma is a counterexample to y > 0 itself
                    out.append((nm + ":an_adjacent_edge_is_entered", [ocond], zprem, L.gt(y, 0)))
                    out.append((nm + ":bisects_or_enters", [ocond], zprem, L.gt(y, 0)))
        # corner zone of the vertex v where edge i ends and edge j starts: nu in the normal cone
        # N(v) = {nu : nu.(x - v) <= 0 for all x in the polygon} = {nu.(-e_i) <= 0, nu.e_j <= 0} (convexity)
        j = (i + 1) % m
        ej = fr[j][1]
        out.append(("corner_zone_in_normal_cone(v%d)" % j, [], L.Or(near_end[i], near_start[j]),
                    L.And(L.ge(dot(nu, e), 0), L.le(dot(nu, ej), 0))))
    return out


def vertex_lemma_closure(L):
    """the elementary step that turns lemmas (a), (b) of the corner zones into y > 0, over arbitrary reals"""
    if not L.symbolic:
        return True
    import z3
    x, y, li, lk = z3.Reals("lemma_x lemma_y lemma_li lemma_lk")
    return z3.Implies(z3.And(z3.Or(x > 0, y > 0), z3.Or(x * li == y * lk, y > 0), li > 0, lk > 0), y > 0)


def edge_point_premises(m, i, t, L, tau=2e-4):
    """normal form of the premises of polygon_claims for the point p = a_i + t*(b_i - a_i), 0 <= t <= 1, of a
    non-degenerate convex m-gon, as conditions on the edge parameter t (False = never).  They are NOT taken
    on trust: the check proves premise <=> normal form for every claim (pure polynomial queries)."""
    tau = L.num(tau)
    nxt, prv = (i + 1) % m, (i - 1) % m
    out = {}
    for j in range(m):
        out["edge_interior_is_outward_edge_normal(e%d)" % j] = L.And(L.lt(tau, t), L.lt(t, 1 - tau)) if j == i else False
        out["step_against_normal_enters(e%d,interior)" % j] = out["edge_interior_is_outward_edge_normal(e%d)" % j]
        out["step_against_normal_enters(e%d,start_zone)" % j] = L.le(t, tau) if j == i else (L.eq(t, 1) if j == nxt else False)
        out["step_against_normal_enters(e%d,end_zone)" % j] = L.ge(t, 1 - tau) if j == i else (L.eq(t, 0) if j == prv else False)
        # vertex j = start of edge j = end of edge j-1
        out["corner_zone_in_normal_cone(v%d)" % j] = L.ge(t, 1 - tau) if j == nxt else (L.le(t, tau) if j == i else False)
    return out


def polygon_on_edges(corners, p, L):
    """per edge: p lies on the closed segment"""
    out = []
    for a, e, r in polygon_frame(corners)[2]:
        w = [p[0] - a[0], p[1] - a[1]]
        ee, s = dot(e, e), dot(w, e)
        out.append(L.And(L.eq(cross2(e, w), 0), L.le(0, s), L.le(s, ee)))
    return out


def on_some_piece(oset, p, prm, L):
    """p lies EXACTLY on the boundary of one of the primitives the expression is built from: the
    link between 'what the boundary samplers return' and 'the generic boundary point'"""
    ev = O._ev
    if isinstance(oset, O.OInterval):
        return L.Or(L.eq(p[0], ev(oset.lb, prm)[0]), L.eq(p[0], ev(oset.ub, prm)[0]))
    if isinstance(oset, O.OBall):
        c, r = ev(oset.c, prm), ev(oset.r, prm)[0]
        return L.eq(dot([p[i] - c[i] for i in range(len(c))], [p[i] - c[i] for i in range(len(c))]), r * r)
    if isinstance(oset, (O.OParallelogram, O.OTriangle)):
        return L.Or(*polygon_on_edges(oset.corners(prm), p, L))
    if isinstance(oset, (O.OUnion, O.OCut, O.OInter)):
        return L.Or(on_some_piece(oset.a, p, prm, L), on_some_piece(oset.b, p, prm, L))
    raise NotImplementedError(type(oset).__name__)


# ---- dispatch on the oracle set ------------------------------------------------


def claims3(oset, p, nu, prm, L, tau=2e-4, tol=1e-6):
    """-> list of (name, leaf, conds, premise, conclusion): `leaf` the primitive oracle set the claim is about,
    `conds` the operand-selection conditions of the Boolean combinations above it"""
    ev = O._ev
    if isinstance(oset, O.OInterval):
        cl = interval_claims(ev(oset.lb, prm)[0], ev(oset.ub, prm)[0], p, nu, L)
    elif isinstance(oset, O.OBall):
        cl = ball_claims(ev(oset.c, prm), ev(oset.r, prm)[0], p, nu, L, tol)
    elif isinstance(oset, (O.OParallelogram, O.OTriangle)):
        cl = polygon_claims(oset.corners(prm), p, nu, L, tau, tol)
    elif isinstance(oset, (O.OUnion, O.OCut, O.OInter)):
        a, b = oset.a, oset.b
        on_a, on_b = on_some_piece(a, p, prm, L), on_some_piece(b, p, prm, L)  # equalities: robust in float replays
        if isinstance(oset, O.OUnion):
            cond_a = L.And(on_a, L.Not(b.closure(p, prm, L, tau)))
            cond_b = L.And(on_b, L.Not(a.closure(p, prm, L, tau)))
            nu_b = nu
        elif isinstance(oset, O.OCut):
            cond_a = L.And(on_a, L.Not(b.closure(p, prm, L, tau)))
            cond_b = L.And(on_b, a.interior(p, prm, L, tau))
            nu_b = neg(nu)  # the removed part's normals point into it
        else:
            cond_a = L.And(on_a, b.interior(p, prm, L, tau))
            cond_b = L.And(on_b, a.interior(p, prm, L, tau))
            nu_b = nu
        out = [("A." + n, lf, [cond_a] + cs, pr, co) for n, lf, cs, pr, co in claims3(a, p, nu, prm, L, tau, tol)]
        out += [("B." + n, lf, [cond_b] + cs, pr, co) for n, lf, cs, pr, co in claims3(b, p, nu_b, prm, L, tau, tol)]
        return out
    else:
        raise NotImplementedError("no normal oracle for %s" % type(oset).__name__)
    return [(n, oset, list(cs), pr, co) for n, cs, pr, co in cl]


def claims(oset, p, nu, prm, L, tau=2e-4, tol=1e-6):
    """-> list of (name, formula)"""
    return [(n, L.Implies(L.And(*(cs + [pr])), co)) for n, lf, cs, pr, co in claims3(oset, p, nu, prm, L, tau, tol)]


def selected(oset, p, prm, L, tau=2e-4):
    """the point lies on a boundary part the claims speak about (vacuity guard for composites)"""
    if isinstance(oset, (O.OUnion, O.OCut, O.OInter)):
        a, b = oset.a, oset.b
        on_a, on_b = on_some_piece(a, p, prm, L), on_some_piece(b, p, prm, L)  # equalities: robust in float replays
        if isinstance(oset, O.OUnion):
            return L.Or(L.And(on_a, L.Not(b.closure(p, prm, L, tau)), selected(a, p, prm, L, tau)),
                        L.And(on_b, L.Not(a.closure(p, prm, L, tau)), selected(b, p, prm, L, tau)))
        if isinstance(oset, O.OCut):
            return L.Or(L.And(on_a, L.Not(b.closure(p, prm, L, tau)), selected(a, p, prm, L, tau)),
                        L.And(on_b, a.interior(p, prm, L, tau), selected(b, p, prm, L, tau)))
        return L.Or(L.And(on_a, b.interior(p, prm, L, tau), selected(a, p, prm, L, tau)),
                    L.And(on_b, a.interior(p, prm, L, tau), selected(b, p, prm, L, tau)))
    return on_some_piece(oset, p, prm, L)


# ---- composition layer on arbitrary operands -----------------------------------


def boolean_rule(op, in_a, on_a, in_b, on_b, nu, nu_a, nu_b, L):
    """assume-guarantee step: given the operands' normals nu_a, nu_b (outward for A resp. B), the
    normal of the combination at a point of its boundary.  Points on both boundaries are outside
    the claim.  -> list of (name, formula)"""
    def same(u, v):
        return L.And(*[L.eq(x, y) for x, y in zip(u, v)])

    only_a = L.And(on_a, L.Not(on_b))
    only_b = L.And(on_b, L.Not(on_a))
    if op == "+":
        return [("on_dA_outside_B_is_nuA", L.Implies(L.And(only_a, L.Not(in_b)), same(nu, nu_a))),
                ("on_dB_outside_A_is_nuB", L.Implies(L.And(only_b, L.Not(in_a)), same(nu, nu_b)))]
    if op == "-":
        return [("on_dA_outside_B_is_nuA", L.Implies(L.And(only_a, L.Not(in_b)), same(nu, nu_a))),
                ("on_dB_inside_A_is_minus_nuB", L.Implies(L.And(only_b, in_a), same(nu, neg(nu_b))))]
    if op == "&":
        return [("on_dA_inside_B_is_nuA", L.Implies(L.And(only_a, in_b), same(nu, nu_a))),
                ("on_dB_inside_A_is_nuB", L.Implies(L.And(only_b, in_a), same(nu, nu_b)))]
    raise ValueError(op)
