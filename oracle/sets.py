"""Independent denotation of domain expressions as predicates.

Written from the mathematics, not from the code: no barycentric divisions, no
square roots, no linear solves.  Everything is polymorphic in the logic module
L (z3 terms or floats), so the same oracle judges symbolic runs and replays.

mem(p, prm, L, tol, strict):
    tol  > 0 : the set enlarged by tol   (absolute units for interval/disc/ball/point,
    tol  < 0 : the set shrunk by |tol|    barycentric units for parallelogram/triangle)
    strict   : strict inequalities (open set) instead of closed
closure test  = mem(tol>=0, strict=False);  interior test = mem(-tol, strict=True);
boundary band = closure(tol) and not interior(tol).
`prm` maps parameter-variable names to lists of coordinates of *this row*.
Shape parameters are constants (lists of elements) or callables prm -> list.
"""
from __future__ import annotations


def _ev(x, prm):
    return x(prm) if callable(x) else x


def _cmp_le(L, a, b, strict):
    return L.lt(a, b) if strict else L.le(a, b)


class OSet:
    dim = None
    space = None  # list of (varname, dim) this set lives in, in order

    def mem(self, p, prm, L, tol=0, strict=False):
        raise NotImplementedError

    def closure(self, p, prm, L, tol=0):
        return self.mem(p, prm, L, tol, False)

    def interior(self, p, prm, L, tol=0):
        return self.mem(p, prm, L, -tol if tol else 0, True)

    def boundary_band(self, p, prm, L, tol):
        return L.And(self.closure(p, prm, L, tol), L.Not(self.interior(p, prm, L, tol)))

    def volume(self, prm, L):
        return None

    def bbox(self, prm, L):
        """list of (min, max) per axis, exact for primitives, else None"""
        return None

    def positive(self, prm, L):
        """shape has positive measure (assumption the harness makes)"""
        return True

    def positive_at(self, p, prm, L):
        """positivity of the fibre through point p (differs from positive() only for dependent products)"""
        return self.positive(prm, L)


class OInterval(OSet):
    dim = 1

    def __init__(self, lb, ub):
        self.lb, self.ub = lb, ub

    def mem(self, p, prm, L, tol=0, strict=False):
        lb, ub = _ev(self.lb, prm)[0], _ev(self.ub, prm)[0]
        tol = L.num(tol) if tol else 0
        return L.And(_cmp_le(L, lb - tol, p[0], strict), _cmp_le(L, p[0], ub + tol, strict))

    def volume(self, prm, L):
        return _ev(self.ub, prm)[0] - _ev(self.lb, prm)[0]

    def bbox(self, prm, L):
        return [(_ev(self.lb, prm)[0], _ev(self.ub, prm)[0])]

    def positive(self, prm, L):
        return L.lt(_ev(self.lb, prm)[0], _ev(self.ub, prm)[0])


class OBall(OSet):
    """disc (dim 2) / ball (dim 3)"""

    def __init__(self, center, radius, dim):
        self.c, self.r, self.dim = center, radius, dim

    def mem(self, p, prm, L, tol=0, strict=False):
        c, r = _ev(self.c, prm), _ev(self.r, prm)[0]
        d2 = sum((p[i] - c[i]) * (p[i] - c[i]) for i in range(self.dim))
        neg = tol < 0
        rr = r + (L.num(tol) if tol else 0)
        inside = _cmp_le(L, d2, rr * rr, strict)
        if neg:
            return L.And(L.ge(rr, 0), inside)
        return inside

    def volume(self, prm, L):
        r = _ev(self.r, prm)[0]
        if self.dim == 2:
            return L.PI * r * r
        return L.PI * r * r * r * 4 / 3

    def surface(self, prm, L):
        r = _ev(self.r, prm)[0]
        if self.dim == 2:
            return L.PI * r * 2
        return L.PI * r * r * 4

    def bbox(self, prm, L):
        c, r = _ev(self.c, prm), _ev(self.r, prm)[0]
        return [(c[i] - r, c[i] + r) for i in range(self.dim)]

    def positive(self, prm, L):
        return L.gt(_ev(self.r, prm)[0], 0)


def _cross(u, v):
    return u[0] * v[1] - u[1] * v[0]


class OParallelogram(OSet):
    dim = 2

    def __init__(self, o, c1, c2):
        self.o, self.c1, self.c2 = o, c1, c2

    def _frame(self, prm):
        o, c1, c2 = _ev(self.o, prm), _ev(self.c1, prm), _ev(self.c2, prm)
        d1 = [c1[0] - o[0], c1[1] - o[1]]
        d2 = [c2[0] - o[0], c2[1] - o[1]]
        return o, d1, d2, _cross(d1, d2)

    def mem(self, p, prm, L, tol=0, strict=False):
        o, d1, d2, D = self._frame(prm)
        q = [p[0] - o[0], p[1] - o[1]]
        a = _cross(q, d2) * D  # = bary_1 * D^2
        b = _cross(d1, q) * D  # = bary_2 * D^2
        D2 = D * D
        tol = L.num(tol) if tol else 0
        lo, hi = -tol * D2, (1 + tol) * D2
        return L.And(_cmp_le(L, lo, a, strict), _cmp_le(L, a, hi, strict), _cmp_le(L, lo, b, strict), _cmp_le(L, b, hi, strict))

    def volume(self, prm, L):
        return L.abs(self._frame(prm)[3])

    def corners(self, prm):
        o, c1, c2 = _ev(self.o, prm), _ev(self.c1, prm), _ev(self.c2, prm)
        c3 = [c1[0] + c2[0] - o[0], c1[1] + c2[1] - o[1]]
        return [o, c1, c3, c2]

    def bbox(self, prm, L):
        cs = self.corners(prm)
        out = []
        for i in range(2):
            lo = hi = cs[0][i]
            for c in cs[1:]:
                lo, hi = L.min(lo, c[i]), L.max(hi, c[i])
            out.append((lo, hi))
        return out

    def positive(self, prm, L):
        return L.ne(self._frame(prm)[3], 0)


class OTriangle(OSet):
    dim = 2

    def __init__(self, o, c1, c2):
        self.o, self.c1, self.c2 = o, c1, c2

    def _frame(self, prm):
        o, c1, c2 = _ev(self.o, prm), _ev(self.c1, prm), _ev(self.c2, prm)
        d1 = [c1[0] - o[0], c1[1] - o[1]]
        e = [c2[0] - o[0], c2[1] - o[1]]
        return o, d1, e, _cross(d1, e)

    def mem(self, p, prm, L, tol=0, strict=False):
        o, d1, e, D = self._frame(prm)
        q = [p[0] - o[0], p[1] - o[1]]
        a = _cross(q, e) * D
        b = _cross(d1, q) * D
        D2 = D * D
        tol = L.num(tol) if tol else 0
        return L.And(_cmp_le(L, -tol * D2, a, strict), _cmp_le(L, -tol * D2, b, strict), _cmp_le(L, a + b, (1 + tol) * D2, strict))

    def volume(self, prm, L):
        return L.abs(self._frame(prm)[3]) / 2

    def corners(self, prm):
        return [_ev(self.o, prm), _ev(self.c1, prm), _ev(self.c2, prm)]

    def bbox(self, prm, L):
        cs = self.corners(prm)
        out = []
        for i in range(2):
            lo = hi = cs[0][i]
            for c in cs[1:]:
                lo, hi = L.min(lo, c[i]), L.max(hi, c[i])
            out.append((lo, hi))
        return out

    def positive(self, prm, L):
        return L.ne(self._frame(prm)[3], 0)


class OPoint(OSet):
    def __init__(self, c, dim):
        self.c, self.dim = c, dim

    def mem(self, p, prm, L, tol=0, strict=False):
        c = _ev(self.c, prm)
        tol = L.num(tol) if tol else 0
        return L.And(*[L.And(_cmp_le(L, c[i] - tol, p[i], strict), _cmp_le(L, p[i], c[i] + tol, strict)) for i in range(self.dim)])

    def volume(self, prm, L):
        return 1


class OUnion(OSet):
    def __init__(self, a, b):
        self.a, self.b, self.dim = a, b, a.dim

    def mem(self, p, prm, L, tol=0, strict=False):
        return L.Or(self.a.mem(p, prm, L, tol, strict), self.b.mem(p, prm, L, tol, strict))

    def positive(self, prm, L):
        return L.And(self.a.positive(prm, L), self.b.positive(prm, L))


class OInter(OSet):
    def __init__(self, a, b):
        self.a, self.b, self.dim = a, b, a.dim

    def mem(self, p, prm, L, tol=0, strict=False):
        return L.And(self.a.mem(p, prm, L, tol, strict), self.b.mem(p, prm, L, tol, strict))

    def positive(self, prm, L):
        return L.And(self.a.positive(prm, L), self.b.positive(prm, L))


class OCut(OSet):
    def __init__(self, a, b):
        self.a, self.b, self.dim = a, b, a.dim

    def mem(self, p, prm, L, tol=0, strict=False):
        return L.And(self.a.mem(p, prm, L, tol, strict), L.Not(self.b.mem(p, prm, L, -tol if tol else 0, not strict)))

    def positive(self, prm, L):
        return L.And(self.a.positive(prm, L), self.b.positive(prm, L))


class OProduct(OSet):
    """a x b ; `a` may depend on b's variables: they are bound to b's coordinates of the same row"""

    def __init__(self, a, b, a_vars, b_vars):
        # a_vars / b_vars: list of (name, dim) giving the coordinate layout of p = (a coords, b coords)
        self.a, self.b, self.a_vars, self.b_vars = a, b, a_vars, b_vars
        self.dim = a.dim + b.dim

    def split(self, p):
        na = sum(d for _, d in self.a_vars)
        return p[:na], p[na:]

    def bind(self, p, prm):
        pa, pb = self.split(p)
        prm2 = dict(prm)
        k = 0
        for name, d in self.b_vars:
            prm2[name] = pb[k:k + d]
            k += d
        return pa, pb, prm2

    def mem(self, p, prm, L, tol=0, strict=False):
        pa, pb, prm2 = self.bind(p, prm)
        return L.And(self.a.mem(pa, prm2, L, tol, strict), self.b.mem(pb, prm, L, tol, strict))

    def positive_at(self, p, prm, L):
        pa, pb, prm2 = self.bind(p, prm)
        return L.And(self.a.positive_at(pa, prm2, L), self.b.positive_at(pb, prm, L))

    def positive(self, prm, L):
        """every fibre has positive measure: checked at the corners of b's bounding box, which
        suffices for shape parameters that are affine in b's coordinates"""
        conj = [self.b.positive(prm, L)]
        bb = self.b.bbox(prm, L)
        if bb is None:
            conj.append(self.a.positive(prm, L))
            return L.And(*conj)
        import itertools
        for corner in itertools.product(*bb):
            prm2 = dict(prm)
            k = 0
            for name, d in self.b_vars:
                prm2[name] = list(corner[k:k + d])
                k += d
            conj.append(self.a.positive(prm2, L))
        return L.And(*conj)


class OTranslate(OSet):
    def __init__(self, inner, vec):
        self.inner, self.vec, self.dim = inner, vec, inner.dim

    def to_inner(self, p, prm, L):
        v = _ev(self.vec, prm)
        return [p[i] - v[i] for i in range(len(p))]

    def mem(self, p, prm, L, tol=0, strict=False):
        return self.inner.mem(self.to_inner(p, prm, L), prm, L, tol, strict)

    def volume(self, prm, L):
        return self.inner.volume(prm, L)

    def positive(self, prm, L):
        return self.inner.positive(prm, L)


class ORotate2D(OSet):
    """rotation by the matrix [[c,-s],[s,c]] about `around`; cs: prm -> (c, s) with c^2+s^2=1"""

    dim = 2

    def __init__(self, inner, cs, around):
        self.inner, self.cs, self.around = inner, cs, around

    def to_inner(self, p, prm, L):
        c, s = self.cs(prm)
        a = _ev(self.around, prm)
        x, y = p[0] - a[0], p[1] - a[1]
        # inverse rotation R^T (x, y)
        return [c * x + s * y + a[0], -s * x + c * y + a[1]]

    def mem(self, p, prm, L, tol=0, strict=False):
        return self.inner.mem(self.to_inner(p, prm, L), prm, L, tol, strict)

    def volume(self, prm, L):
        return self.inner.volume(prm, L)

    def positive(self, prm, L):
        return self.inner.positive(prm, L)


class OBoundary(OSet):
    """the boundary of `inner` as a set: the band closure(tol) minus interior(tol)"""

    def __init__(self, inner):
        self.inner, self.dim = inner, inner.dim - 1

    def mem(self, p, prm, L, tol=0, strict=False):
        return self.inner.boundary_band(p, prm, L, tol)
