"""Symbolic Python ints, index-recording tensor stand-ins and function summaries
(DESIGN 1.5) -- used by C16 (data-loader index arithmetic).

* `SInt`      : Python-level bounded integer over a z3 bit-vector term of width W (`+ - * // %`,
                comparisons give a `SymScalar` over a z3 Bool whose `bool()` forks through the active
                path context).  The index arithmetic of the data sets is non-linear (`(idx*bs) % N`,
                lcm) -- over z3 Ints that was measured to time out; over bit-vectors it is
                bit-blasted and decided by SAT.  *Exactness*: every operation records an obligation
                that its operands are in a range where W-bit arithmetic cannot overflow (and
                divisors are positive, dividends non-negative); the obligations are goals of the
                case, so a proved case is a statement about mathematical integers.
                `a / b` gives an exact `SRatio` (numerator, denominator) on which `int()`, `np.ceil`,
                `math.ceil` are evaluated by their mathematical definition.
* `IdxT`      : stand-in for a tensor of symbolic shape.  It carries no data, only *which source
                indices* each of its axes holds: per axis a list of half-open source ranges
                `[lo, hi)` (concatenated in order) and the permutations applied to the axis.
                `x[a:b]`, `x[:, a:b]`, `x[perm]`, `x[0]`, `torch.cat` are recorded with Python's
                slice semantics (clamping) as z3 `If` terms.
* `shadow_globals(module, ...)`: for the duration of a `with` block the module globals `len`, `min`,
                `int`, `math`, `np`, `torch`, `Points` of a torchphysics module are replaced by
                symbolic-aware versions (module globals are looked up before builtins; the
                functions' source is untouched).  Restored in a `finally`.
* `summarize` : run a function on every feasible decision sequence (inner exploration, same
                `PathCtx` machinery) and return its piecewise summary, so that a bounded inner
                forall can be expanded into one z3 query.
"""
from __future__ import annotations

import builtins
import contextlib
import hashlib
import math as _math

import numpy as _np
import torch as _torch
import z3

from . import term as T
from .explore import EngineGap, PathCtx
from .symt import SymScalar

W = 16  # bit width; products of operands < 2^7 and sums of operands of magnitude < 2^14 cannot overflow
MUL_LIM = 1 << ((W - 2) // 2)
ADD_LIM = 1 << (W - 2)


def is_bv(x):
    return isinstance(x, z3.BitVecRef)


def zi(x):
    """-> z3 bit-vector term or python int"""
    if isinstance(x, SInt):
        return x.t
    if isinstance(x, bool):
        return int(x)
    if isinstance(x, (int, _np.integer)):
        return int(x)
    if is_bv(x):
        return x
    raise EngineGap("not a (symbolic bit-vector) int: %r" % (x,))


def zB(x):
    """-> z3 bit-vector term"""
    x = zi(x)
    return x if is_bv(x) else z3.BitVecVal(x, W)


def _is_intlike(x):
    return isinstance(x, (SInt, int, _np.integer))


def _wrap(t):
    if is_bv(t):
        s = z3.simplify(t)
        if z3.is_bv_value(s):
            return s.as_signed_long()
        return SInt(s)
    return t


def _bool(t):
    """comparison result: python bool if decided syntactically, else forking SymScalar"""
    if isinstance(t, bool):
        return t
    s = z3.simplify(t)
    if z3.is_true(s):
        return True
    if z3.is_false(s):
        return False
    return SymScalar(s)


def _oblige(cond, msg):
    c = T.ctx()
    s = z3.simplify(cond)
    if z3.is_true(s):
        return
    k = ("ob", s.get_id())
    if k in c.defs:
        return
    c.defs[k] = (s, msg)
    c.oblige(s, msg, T._where())


def _in_add_range(x):
    if is_bv(x):
        _oblige(z3.And(x >= -ADD_LIM, x < ADD_LIM), "operand of + / - outside the overflow-free range of the %d-bit model" % W)
    elif not (-ADD_LIM <= x < ADD_LIM):
        raise EngineGap("constant outside the bit-vector model range")


def _in_mul_range(x):
    if is_bv(x):
        _oblige(z3.And(x >= 0, x < MUL_LIM), "operand of * outside the overflow-free range [0, %d) of the %d-bit model" % (MUL_LIM, W))
    elif not (0 <= x < MUL_LIM):
        raise EngineGap("constant factor outside the bit-vector model range")


def add(a, b):
    if not is_bv(a) and not is_bv(b):
        return a + b
    _in_add_range(a)
    _in_add_range(b)
    return zB(a) + zB(b)


def sub(a, b):
    if not is_bv(a) and not is_bv(b):
        return a - b
    _in_add_range(a)
    _in_add_range(b)
    return zB(a) - zB(b)


def neg(a):
    if not is_bv(a):
        return -a
    _in_add_range(a)
    return -a


def mul(a, b):
    if not is_bv(a) and not is_bv(b):
        return a * b
    _in_mul_range(a)
    _in_mul_range(b)
    return zB(a) * zB(b)


def floordiv(a, b):
    """Python floor division for a >= 0, b > 0 (obligations)"""
    if not is_bv(a) and not is_bv(b):
        return a // b
    az, bz = zB(a), zB(b)
    _oblige(z3.And(az >= 0, bz > 0), "floor division outside the modelled case dividend >= 0, divisor > 0")
    return z3.UDiv(az, bz)


def mod(a, b):
    if not is_bv(a) and not is_bv(b):
        return a % b
    az, bz = zB(a), zB(b)
    _oblige(z3.And(az >= 0, bz > 0), "modulo outside the modelled case dividend >= 0, divisor > 0")
    return z3.URem(az, bz)


def cmp(a, b, op):
    if not is_bv(a) and not is_bv(b):
        return {"lt": a < b, "le": a <= b, "gt": a > b, "ge": a >= b, "eq": a == b, "ne": a != b}[op]
    x, y = zB(a), zB(b)
    if x.eq(y):
        return op in ("le", "ge", "eq")
    return {"lt": x < y, "le": x <= y, "gt": x > y, "ge": x >= y, "eq": x == y, "ne": x != y}[op]  # signed


class SInt:
    __slots__ = ("t",)

    def __init__(self, t):
        self.t = zi(t)

    def _b(self, o, f, rev=False):
        if isinstance(o, SRatio) or not _is_intlike(o):
            return NotImplemented
        a, b = self.t, zi(o)
        if rev:
            a, b = b, a
        return _wrap(f(a, b))

    def __add__(self, o):
        return self._b(o, add)

    def __radd__(self, o):
        return self._b(o, add, True)

    def __sub__(self, o):
        return self._b(o, sub)

    def __rsub__(self, o):
        return self._b(o, sub, True)

    def __mul__(self, o):
        return self._b(o, mul)

    def __rmul__(self, o):
        return self._b(o, mul, True)

    def __neg__(self):
        return _wrap(neg(self.t))

    def __pos__(self):
        return self

    def __floordiv__(self, o):
        return self._b(o, floordiv)

    def __rfloordiv__(self, o):
        return self._b(o, floordiv, True)

    def __mod__(self, o):
        return self._b(o, mod)

    def __rmod__(self, o):
        return self._b(o, mod, True)

    def __truediv__(self, o):
        if not _is_intlike(o):
            return NotImplemented
        return SRatio(self.t, zi(o))

    def __rtruediv__(self, o):
        if not _is_intlike(o):
            return NotImplemented
        return SRatio(zi(o), self.t)

    def _c(self, o, op):
        if isinstance(o, SRatio) or not _is_intlike(o):
            return NotImplemented
        return _bool(cmp(self.t, zi(o), op))

    def __lt__(self, o):
        return self._c(o, "lt")

    def __le__(self, o):
        return self._c(o, "le")

    def __gt__(self, o):
        return self._c(o, "gt")

    def __ge__(self, o):
        return self._c(o, "ge")

    def __eq__(self, o):
        r = self._c(o, "eq")
        return False if r is NotImplemented else r

    def __ne__(self, o):
        r = self._c(o, "ne")
        return True if r is NotImplemented else r

    def __hash__(self):
        return id(self)

    def __int__(self):
        raise EngineGap("builtin int()/index of a symbolic int (would enumerate it)")

    __index__ = __int__

    def __bool__(self):
        return T.ctx().decide(self.t != 0)

    def __repr__(self):
        return "SInt(%s)" % (self.t,)


class SRatio:
    """exact quotient num/den of two (symbolic) ints with num >= 0, den > 0 (obligations)"""

    __slots__ = ("num", "den")

    def __init__(self, num, den):
        self.num, self.den = num, den

    def floor(self):
        return _wrap(floordiv(self.num, self.den))

    trunc = floor  # num >= 0 is an obligation of floordiv

    def ceil(self):
        # ceil(n/d) = (n + d - 1) // d for n >= 0, d > 0
        return _wrap(floordiv(add(self.num, sub(self.den, 1)), self.den))

    def __int__(self):
        raise EngineGap("builtin int() of a symbolic ratio (module global `int` not shadowed)")

    def __ceil__(self):
        raise EngineGap("math.ceil of a symbolic ratio (module global `math` not shadowed)")

    def __repr__(self):
        return "SRatio(%s / %s)" % (self.num, self.den)


def pure_bv(ctx, feas_timeout_ms=4000):
    """The cases built on this module are pure bit-vector problems.  The hypotheses every path context
    carries for the tensor engine (real-valued bounds on the symbol pi) make z3 leave its bit-blasting
    SAT pipeline (measured 3-8x slower); they are dropped from this context's hypotheses and
    feasibility solver.  Dropping hypotheses can only lose proofs, never create one."""
    s = z3.Solver()
    s.set("timeout", feas_timeout_ms)
    for f in ctx.assumptions + ctx.axioms + ctx.pc:
        s.add(f)
    ctx.solver = s
    ctx.hyps = lambda: ctx.assumptions + ctx.axioms + ctx.pc
    return ctx


def take_obligations(ctx):
    """all exactness obligations recorded so far on this path as ONE formula (and forget them), so that
    a case pays one solver query for them instead of one per arithmetic operation"""
    fs = []
    for (t, msg, where, npc) in ctx.obligations:
        pre = ctx.pc[:npc]
        fs.append(z3.Implies(z3.And(*pre), t) if pre else t)
    del ctx.obligations[:]
    if not fs:
        return True
    return z3.And(*fs) if len(fs) > 1 else fs[0]


def bvint(env, name, lo, hi):
    """input: symbolic int in [lo, hi] (bit-vector encoded); replay: the model's value"""
    if not env.symbolic:
        return int(env.values.get(name, lo))
    env.inputs[name] = (W, "bv")
    v = z3.BitVec(name, W)
    env.ctx.assume(z3.And(v >= lo, v <= hi))
    return SInt(v)


def s_len(x):
    f = getattr(x, "__slen__", None)
    if f is not None:
        return f()
    return builtins.len(x)


def _fold(a, kw, pick, builtin):
    if len(a) == 1 and not kw:
        a = tuple(a[0])
    if any(isinstance(x, SInt) for x in a):
        r = zi(a[0])
        for x in a[1:]:
            x = zi(x)
            if not is_bv(r) and not is_bv(x):
                r = builtin(r, x)
            else:
                r = z3.If(pick(zB(r), zB(x)), zB(r), zB(x))
        return _wrap(r)
    return builtin(*a, **kw)


def s_min(*a, **kw):
    return _fold(a, kw, lambda r, x: r <= x, builtins.min)


def s_max(*a, **kw):
    return _fold(a, kw, lambda r, x: r >= x, builtins.max)


class _SIntType(type):
    def __instancecheck__(cls, obj):
        return builtins.isinstance(obj, builtins.int)


class s_int(metaclass=_SIntType):
    """shadow of the builtin `int`: symbolic values stay symbolic (mathematical truncation)"""

    def __new__(cls, x=0, *a):
        if isinstance(x, SInt):
            return x
        if isinstance(x, SRatio):
            return x.trunc()
        return builtins.int(x, *a)


LCM_BOUND = [12]


def _stable_name(prefix, *terms):
    h = hashlib.sha1("|".join(t.sexpr() if is_bv(t) else str(t) for t in terms).encode()).hexdigest()[:10]
    return "%s!%s" % (prefix, h)


def s_lcm(a, b):
    """least common multiple by its definition: a*j for the least j >= 1 with b | a*j
    (j <= b, hence the nested If over j = 1..LCM_BOUND is exact when b <= LCM_BOUND -- obligation)"""
    if not isinstance(a, SInt) and not isinstance(b, SInt):
        return _np.lcm(a, b)
    a, b = zB(a), zB(b)
    K = LCM_BOUND[0]
    c = T.ctx()
    _oblige(z3.And(a > 0, b > 0, b <= K), "np.lcm argument outside the modelled range (0, %d]" % K)
    name = _stable_name("lcm", a, b)
    k = ("lcm", name)
    hit = c.defs.get(k)
    if hit is not None:
        return SInt(hit[0])
    expr = mul(a, b)
    for j in range(K, 0, -1):
        aj = mul(a, j)
        expr = z3.If(mod(aj, b) == 0, aj, expr)
    m = z3.BitVec(name, W)
    c.axiom(m == expr)
    c.defs[k] = (m, (a, b))
    return SInt(m)


def _ceil(x):
    if isinstance(x, SRatio):
        return x.ceil()
    if isinstance(x, SInt):
        return x
    return None


class _NS:
    """namespace shadowing a module: listed attributes replaced, the rest passed through"""

    def __init__(self, real, **over):
        self.__dict__["_real"] = real
        self.__dict__["_over"] = over

    def __getattr__(self, name):
        o = self.__dict__["_over"]
        if name in o:
            return o[name]
        return getattr(self.__dict__["_real"], name)


def _np_ceil(x, *a, **kw):
    r = _ceil(x)
    return _np.ceil(x, *a, **kw) if r is None else r


def _math_ceil(x):
    r = _ceil(x)
    return _math.ceil(x) if r is None else r


def _math_floor(x):
    if isinstance(x, SRatio):
        return x.floor()
    if isinstance(x, SInt):
        return x
    return _math.floor(x)


# --------------------------------------------------------------------------
# index-recording tensor stand-ins
# --------------------------------------------------------------------------


class Perm:
    """result of torch.randperm(n) on a symbolic n: an arbitrary bijection of range(n)"""

    def __init__(self, n, serial):
        self.n = n
        self.id = "perm%d(%s)" % (serial, zi(n))

    def __repr__(self):
        return self.id


class Axis:
    __slots__ = ("n", "segs", "perms")

    def __init__(self, n, segs=None, perms=()):
        self.n = zi(n)  # source length of this axis
        self.segs = [(0, self.n)] if segs is None else list(segs)  # source ranges [lo, hi), hi >= lo
        self.perms = tuple(perms)

    def copy(self):
        return Axis(self.n, self.segs, self.perms)

    def length(self):
        tot = 0
        for lo, hi in self.segs:
            tot = add(tot, sub(hi, lo))
        return tot

    def sliced(self, a, b):
        if len(self.segs) != 1:
            raise EngineGap("slice of an axis that is already a concatenation")
        lo, hi = self.segs[0]
        cur = sub(hi, lo)

        def clamp(v, default):
            if v is None:
                return default
            v = zi(v)
            if not is_bv(v) and not is_bv(cur):
                if v < 0:
                    v += cur
                return builtins.max(0, builtins.min(v, cur))
            if not is_bv(v) and v == 0:
                return 0
            # python: negative bounds count from the end, then clamp to [0, len]
            vz, cz = zB(v), zB(cur)
            _in_add_range(vz)
            w = z3.If(vz < 0, vz + cz, vz)
            return z3.If(w < 0, z3.BitVecVal(0, W), z3.If(w > cz, cz, w))

        a2 = clamp(a, 0)
        b2 = clamp(b, cur)
        if not is_bv(a2) and not is_bv(b2):
            b3 = builtins.max(a2, b2)
        elif is_bv(b2) and is_bv(cur) and b2.eq(cur):
            b3 = b2  # x[a:] : a2 <= cur by clamping
        elif not is_bv(a2) and a2 == 0:
            b3 = b2
        else:
            b3 = z3.If(zB(b2) >= zB(a2), zB(b2), zB(a2))
        return Axis(self.n, [(add(lo, a2), add(lo, b3))], self.perms)

    def member(self, s):
        """source index s (before the permutations) is held by this axis"""
        s = zB(s)
        return z3.Or(*[z3.And(zB(lo) <= s, s < zB(hi)) for lo, hi in self.segs]) if self.segs else z3.BoolVal(False)

    def same_as(self, other):
        """formula: both axes hold the same source indices in the same order"""
        if len(self.segs) != len(other.segs):
            return False
        cs = [zB(self.n) == zB(other.n)]
        if self.perms != other.perms:  # different arbitrary bijections agree only on ranges with at most one element
            cs.append(zB(self.n) <= 1)
        for (a, b), (c, d) in zip(self.segs, other.segs):
            cs += [zB(a) == zB(c), zB(b) == zB(d)]
        r = z3.simplify(z3.And(*cs))
        return True if z3.is_true(r) else (False if z3.is_false(r) else r)

    def in_range(self):
        cs = []
        for lo, hi in self.segs:
            cs += [zB(lo) >= 0, zB(lo) <= zB(hi), zB(hi) <= zB(self.n)]
        return z3.And(*cs)

    def __repr__(self):
        return "Axis(n=%s, segs=%s, perms=%s)" % (self.n, self.segs, self.perms)


SIDE = []  # (name, formula) side conditions of the stand-in model, turned into goals by the check


class IdxT:
    """tensor stand-in: axes[k] tells which source indices axis k holds"""

    def __init__(self, name, axes):
        self.name = name
        self.axes = [a if isinstance(a, Axis) else Axis(a) for a in axes]

    @property
    def shape(self):
        return tuple(_wrap(a.length()) for a in self.axes)

    def __slen__(self):
        return _wrap(self.axes[0].length())

    def __len__(self):
        raise EngineGap("builtin len() of a symbolic-shape stand-in (module global `len` not shadowed)")

    def __getitem__(self, key):
        if not isinstance(key, tuple):
            key = (key,)
        if any(k is Ellipsis for k in key):
            raise EngineGap("Ellipsis index on stand-in")
        axes = [a.copy() for a in self.axes]
        out = []
        for i, ax in enumerate(axes):
            k = key[i] if i < len(key) else slice(None)
            if isinstance(k, slice):
                if k.step not in (None, 1):
                    raise EngineGap("slice step on stand-in")
                out.append(ax if (k.start is None and k.stop is None) else ax.sliced(k.start, k.stop))
            elif isinstance(k, Perm):
                SIDE.append(("perm_length_matches_axis[%s]" % self.name, cmp(zi(k.n), ax.length(), "eq")))
                if len(ax.segs) != 1:
                    raise EngineGap("permutation of a concatenated axis")
                out.append(Axis(ax.n, ax.segs, ax.perms + (k.id,)))
            elif isinstance(k, (int, SInt)):
                continue  # select: the axis disappears (only used for len(x[0]))
            else:
                raise EngineGap("index %r on stand-in" % (k,))
        return IdxT(self.name, out)

    def __repr__(self):
        return "IdxT(%s, %s)" % (self.name, self.axes)


def s_cat(tensors, dim=0):
    tensors = list(tensors)
    if not all(isinstance(t, IdxT) for t in tensors):
        return _torch.cat(tensors, dim)
    first = tensors[0]
    axes = [a.copy() for a in first.axes]
    for t in tensors[1:]:
        for k, (a, b) in enumerate(zip(first.axes, t.axes)):
            if k == dim:
                continue
            SIDE.append(("cat_other_axes_agree[%s]" % first.name, a.same_as(b)))
        if t.axes[dim].perms != first.axes[dim].perms or not _same(t.axes[dim].n, first.axes[dim].n):
            raise EngineGap("cat of different sources")
        axes[dim].segs = axes[dim].segs + t.axes[dim].segs
    return IdxT(first.name, axes)


def _same(a, b):
    if is_bv(a) and is_bv(b):
        return a.eq(b)
    return not is_bv(a) and not is_bv(b) and a == b


class PStandin:
    """stand-in for torchphysics Points: data + space; row selection like Points.__getitem__"""

    def __init__(self, data, space=None, **kw):
        self._t = data
        self.space = space

    @property
    def as_tensor(self):
        return self._t

    def __getitem__(self, key):
        return PStandin(self._t[key], self.space)

    def __slen__(self):
        return s_len(self._t)


_PERMS = [0]


def s_randperm(n, *a, **kw):
    if isinstance(n, SInt):
        _PERMS[0] += 1
        return Perm(n, _PERMS[0])
    return _torch.randperm(n, *a, **kw)


@contextlib.contextmanager
def shadow_globals(*modules):
    """replace len/min/max/int/math/np/torch/Points in the given modules' globals by the
    symbolic-aware versions; restore afterwards"""
    over = dict(len=s_len, min=s_min, max=s_max, int=s_int,
                math=_NS(_math, ceil=_math_ceil, floor=_math_floor),
                np=_NS(_np, ceil=_np_ceil, lcm=s_lcm),
                torch=_NS(_torch, cat=s_cat, randperm=s_randperm),
                Points=PStandin)
    saved = []
    _PERMS[0] = 0
    try:
        for m in modules:
            d = m.__dict__
            for k, v in over.items():
                if k in ("math", "np", "torch", "Points") and k not in d:
                    continue  # module does not use it
                saved.append((d, k, d.get(k, _MISSING)))
                d[k] = v
        yield
    finally:
        for d, k, old in reversed(saved):
            if old is _MISSING:
                d.pop(k, None)
            else:
                d[k] = old


_MISSING = object()


# --------------------------------------------------------------------------
# function summaries (inner exploration)
# --------------------------------------------------------------------------


class Summary:
    """piecewise definition of a function: paths = [(pc: z3 Bool, value)], plus the union of the
    defining axioms and the obligations (each guarded by its path condition) met on the way"""

    def __init__(self):
        self.paths = []
        self.axioms = []
        self.obligations = []  # (formula, msg, where)

    def adopt(self):
        """hand axioms and obligations to the active (outer) path context"""
        c = T.ctx()
        for ax in self.axioms:
            c.axiom(ax)
        for f, msg, where in self.obligations:
            c.oblige(f, msg, where)


def summarize(fn, assumptions=(), local=(), max_paths=64, max_decisions=32, feas_timeout_ms=4000):
    """run fn() on every feasible decision sequence under `assumptions` -> Summary.
    `local`: those assumptions that are not known to the outer context (constraints on the summary's own
    argument); obligations are exported as `local and path-condition-so-far => obligation`"""
    outer = T.CTX
    stack = [[]]
    S = Summary()
    seen_ax, seen_ob = set(), set()
    try:
        while stack:
            if len(S.paths) >= max_paths:
                raise EngineGap("summary has more than %d paths" % max_paths)
            prefix = stack.pop()
            c = PathCtx(prefix, unwind=4, max_decisions=max_decisions, feas_timeout_ms=feas_timeout_ms, max_forks_per_site=16)
            if outer is not None:
                c.stats = outer.stats
            c.solver = z3.Solver()  # pure bit-vector: without the engine's real-valued pi axioms
            c.solver.set("timeout", feas_timeout_ms)
            for a in assumptions:
                c.assume(a)
            T.set_ctx(c)
            v = fn()
            pc = z3.And(*c.pc) if c.pc else z3.BoolVal(True)
            S.paths.append((pc, v))
            for ax in c.axioms:
                if ax.get_id() not in seen_ax:
                    seen_ax.add(ax.get_id())
                    S.axioms.append(ax)
            for (t, msg, where, npc) in c.obligations:
                pre = list(local) + c.pc[:npc]
                g = z3.Implies(z3.And(*pre), t) if pre else t
                if g.get_id() not in seen_ob:
                    seen_ob.add(g.get_id())
                    S.obligations.append((g, msg, where))
            stack.extend(alt for alt, _prio in c.pending)
    finally:
        T.set_ctx(outer)
    return S


def subst(f, var, val):
    """f[var := val] for formulas / bit-vector terms / python constants"""
    if not isinstance(f, z3.ExprRef):
        return f
    return z3.substitute(f, (var, z3.BitVecVal(val, W) if isinstance(val, int) else val))
