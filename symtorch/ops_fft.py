"""Complex numbers and exact discrete Fourier transforms for SymTorch.

Importing this module extends the kernel table of `symtorch/ops.py`:

* **Complex tensors.**  An element of a complex SymT is a `Cx(re, im)` object whose two
  parts are ordinary term-layer values (Fraction / z3 Real) or `Alg` values (below).  A
  plain real element inside a complex tensor stands for `re + 0i` (this is what `zeros`,
  `constant_pad_nd`, `copy_` from a real tensor leave behind).
* **Exact algebraic constants.**  The twiddle factors `exp(2 pi i j / N)` for `N | 24`
  (1,2,3,4,6,8,12,24) lie in Q(sqrt2, sqrt3).  An `Alg(c0, c1, c2, c3)` element denotes
  `c0 + c1*sqrt2 + c2*sqrt3 + c3*sqrt6` with term-layer components; arithmetic on `Alg`
  reduces `sqrt2*sqrt2 -> 2` etc. *in Python*, so every value stays in normal form with
  respect to the two radicals and the solver only ever sees polynomial identities.  `Alg`
  values are turned into z3 terms (`flat`) with the axiomatised symbols
  `T.sqrt(2)`, `T.sqrt(3)` only at non-polynomial kernels (tanh, relu, comparisons ...)
  and at the observation boundary (`realize`).
* **Kernels.**  `_fft_r2c`, `_fft_c2r`, `_fft_c2c` (mathematical definition, torch's
  `normalization`/`onesided`/`last_dim_size` conventions, the real inverse transform
  ignores the imaginary part of the DC and Nyquist coefficient exactly like pocketfft/MKL
  do), `complex`, `conj_physical`, `view_as_real`/`view_as_complex` (materialised read-only
  copies), and complex/Alg-aware re-registrations of `add sub rsub mul div neg sum mm bmm
  addmm mv dot`.  Every other arithmetic kernel of ops.py is wrapped so that it receives
  flattened z3 terms for `Alg` elements and raises `EngineGap` for `Cx` elements (never a
  silent wrong answer).  Pure data-movement kernels treat elements as opaque.

`selftest()` compares all FFT kernels on random concrete inputs against the installed
torch.fft in float64.
"""
from __future__ import annotations

import math
from fractions import Fraction

import numpy as np
import torch
import z3

from . import term as T
from . import ops as O
from . import symt as S
from .explore import EngineGap, PathCtx
from .symt import KERNELS, SPECIAL, SymT, from_array, kernel, special

# --------------------------------------------------------------------------
# Alg: R (x) Q(sqrt2, sqrt3)
# --------------------------------------------------------------------------

_F0 = Fraction(0)


def _is0(x):
    return (not isinstance(x, z3.ExprRef)) and (not isinstance(x, (float, Alg, Cx))) and T._num(x) == 0


class Alg:
    """c[0] + c[1]*sqrt2 + c[2]*sqrt3 + c[3]*sqrt6 (basis index = bit0:sqrt2, bit1:sqrt3)"""

    __slots__ = ("c",)

    def __init__(self, c):
        self.c = tuple(c)

    def __repr__(self):
        return "Alg%r" % (self.c,)


class Cx:
    """re + i*im ; parts are term-layer values or Alg"""

    __slots__ = ("re", "im")

    def __init__(self, re, im):
        self.re = re
        self.im = im

    def __repr__(self):
        return "Cx(%r, %r)" % (self.re, self.im)


def _comps(a):
    return a.c if isinstance(a, Alg) else (a, _F0, _F0, _F0)


def _mk(c):
    if _is0(c[1]) and _is0(c[2]) and _is0(c[3]):
        return c[0]
    return Alg(c)


def g_add(a, b):
    if not isinstance(a, Alg) and not isinstance(b, Alg):
        return T.add(a, b)
    ca, cb = _comps(a), _comps(b)
    return _mk([T.add(x, y) for x, y in zip(ca, cb)])


def g_neg(a):
    if not isinstance(a, Alg):
        return T.neg(a)
    return Alg([T.neg(x) for x in a.c])


def g_sub(a, b):
    if not isinstance(a, Alg) and not isinstance(b, Alg):
        return T.sub(a, b)
    ca, cb = _comps(a), _comps(b)
    return _mk([T.sub(x, y) for x, y in zip(ca, cb)])


def g_mul(a, b):
    if not isinstance(a, Alg) and not isinstance(b, Alg):
        return T.mul(a, b)
    ca, cb = _comps(a), _comps(b)
    out = [_F0, _F0, _F0, _F0]
    for i, x in enumerate(ca):
        if _is0(x):
            continue
        for j, y in enumerate(cb):
            if _is0(y):
                continue
            f = (2 if (i & j & 1) else 1) * (3 if (i & j & 2) else 1)
            p = T.mul(x, y)
            if f != 1:
                p = T.mul(Fraction(f), p)
            out[i ^ j] = T.add(out[i ^ j], p)
    return _mk(out)


def g_div(a, b):
    """a / b for a plain (non-Alg) divisor"""
    if isinstance(b, Alg):
        cb = b.c
        if all(T.is_conc(x) for x in cb):
            return g_mul(a, alg_inverse(b))
        raise EngineGap("division by a symbolic element of Q(sqrt2,sqrt3)")
    if not isinstance(a, Alg):
        return T.div(a, b)
    return _mk([T.div(x, b) for x in a.c])


def alg_const(c0=0, c1=0, c2=0, c3=0):
    return _mk([Fraction(c0), Fraction(c1), Fraction(c2), Fraction(c3)])


def alg_float(a):
    """numeric value of a concrete element"""
    if isinstance(a, Alg):
        c = [float(T._num(x)) for x in a.c]
        return c[0] + c[1] * math.sqrt(2.0) + c[2] * math.sqrt(3.0) + c[3] * math.sqrt(6.0)
    return float(T._num(a))


def alg_inverse(a):
    """1/a for a concrete Alg: multiply by the conjugates"""
    # conj2: sqrt2 -> -sqrt2 ; conj3: sqrt3 -> -sqrt3
    def conj(x, bit):
        c = _comps(x)
        return _mk([(-v if (i & bit) else v) for i, v in enumerate(c)])

    n1 = g_mul(a, conj(a, 1))  # in Q(sqrt3)
    n2 = g_mul(n1, conj(n1, 2))  # rational
    if isinstance(n2, Alg) or _is0(n2):
        raise EngineGap("inverse of a zero / non-reducible algebraic constant")
    num = g_mul(conj(a, 1), conj(n1, 2))
    return g_mul(num, Fraction(1) / Fraction(n2))


def flat(x):
    """Alg -> one term-layer value using the axiomatised symbols sqrt(2), sqrt(3)"""
    if not isinstance(x, Alg):
        return x
    c = x.c
    r = c[0]
    if not _is0(c[1]):
        r = T.add(r, T.mul(c[1], T.sqrt(Fraction(2))))
    if not _is0(c[2]):
        r = T.add(r, T.mul(c[2], T.sqrt(Fraction(3))))
    if not _is0(c[3]):
        r = T.add(r, T.mul(c[3], T.mul(T.sqrt(Fraction(2)), T.sqrt(Fraction(3)))))
    return r


def canon(t):
    """sum-of-monomials normal form (sound rewriting by z3's simplifier): two polynomially
    equal terms become the same AST, so equalities under uninterpreted functions (tanh)
    follow by congruence"""
    if not isinstance(t, z3.ExprRef) or not z3.is_real(t):
        return t
    try:
        return z3.simplify(t, som=True, sort_sums=True, som_blowup=1000000)
    except z3.Z3Exception:
        return t


# --------------------------------------------------------------------------
# complex arithmetic
# --------------------------------------------------------------------------


def as_cx(x):
    if isinstance(x, Cx):
        return x
    if isinstance(x, complex):
        return Cx(T.exact(x.real), T.exact(x.imag))
    return Cx(x, _F0)


def _lift(x):
    """python scalars -> payload values"""
    if isinstance(x, complex):
        return Cx(T.exact(x.real), T.exact(x.imag))
    if isinstance(x, float):
        return T.exact(x)
    return x


def n_add(a, b):
    if isinstance(a, Cx) or isinstance(b, Cx):
        a, b = as_cx(a), as_cx(b)
        return Cx(g_add(a.re, b.re), g_add(a.im, b.im))
    return g_add(a, b)


def n_sub(a, b):
    if isinstance(a, Cx) or isinstance(b, Cx):
        a, b = as_cx(a), as_cx(b)
        return Cx(g_sub(a.re, b.re), g_sub(a.im, b.im))
    return g_sub(a, b)


def n_neg(a):
    if isinstance(a, Cx):
        return Cx(g_neg(a.re), g_neg(a.im))
    return g_neg(a)


def n_mul(a, b):
    ca, cb = isinstance(a, Cx), isinstance(b, Cx)
    if not ca and not cb:
        return g_mul(a, b)
    if ca and not cb:
        return Cx(g_mul(a.re, b), g_mul(a.im, b))
    if cb and not ca:
        return Cx(g_mul(a, b.re), g_mul(a, b.im))
    return Cx(g_sub(g_mul(a.re, b.re), g_mul(a.im, b.im)), g_add(g_mul(a.re, b.im), g_mul(a.im, b.re)))


def n_div(a, b):
    if isinstance(b, Cx):
        # a * conj(b) / |b|^2
        d = g_add(g_mul(b.re, b.re), g_mul(b.im, b.im))
        if isinstance(d, Alg) and not all(T.is_conc(x) for x in d.c):
            raise EngineGap("complex division by a symbolic algebraic element")
        num = n_mul(a, Cx(b.re, g_neg(b.im)))
        num = as_cx(num)
        return Cx(g_div(num.re, d), g_div(num.im, d))
    if isinstance(a, Cx):
        return Cx(g_div(a.re, b), g_div(a.im, b))
    return g_div(a, b)


def n_conj(a):
    if isinstance(a, Cx):
        return Cx(a.re, g_neg(a.im))
    return a


# --------------------------------------------------------------------------
# wrapping the kernel table
# --------------------------------------------------------------------------


def _scan(x, acc):
    """acc[0]: any Cx, acc[1]: any Alg"""
    if isinstance(x, np.ndarray):
        if x.dtype == object and x.size:
            for e in (x.reshape(-1) if x.ndim else [x[()]]):
                if isinstance(e, Cx):
                    acc[0] = True
                    if isinstance(e.re, Alg) or isinstance(e.im, Alg):
                        acc[1] = True
                elif isinstance(e, Alg):
                    acc[1] = True
    elif isinstance(x, (Cx, complex)):
        acc[0] = True
    elif isinstance(x, Alg):
        acc[1] = True
    elif isinstance(x, (list, tuple)):
        for y in x:
            _scan(y, acc)
    return acc


def _kinds(*xs):
    acc = [False, False]
    for x in xs:
        _scan(x, acc)
    return acc


def _arr(x):
    if isinstance(x, np.ndarray):
        return x
    a = np.empty((), dtype=object)
    a[()] = _lift(x) if isinstance(x, (complex, float, Cx, Alg)) else (x if T.is_sym(x) else T.exact(x))
    return a


def ewn(f, *xs):
    """like ops.ew, but elements may be Cx / Alg / python complex"""
    xs = [_arr(x) for x in xs]
    bs = np.broadcast_arrays(*xs) if len(xs) > 1 else xs
    out = np.empty(bs[0].shape, dtype=object)
    if out.size == 0:
        return out
    if out.ndim == 0:
        out[()] = f(*[b[()] for b in bs])
        return out
    its = [b.reshape(-1) for b in bs]
    fo = out.reshape(-1)
    for i in range(fo.shape[0]):
        fo[i] = f(*[it[i] for it in its])
    return out


def _map_elems(x, f):
    if isinstance(x, np.ndarray):
        if x.dtype != object or x.size == 0:
            return x
        out = np.empty(x.shape, dtype=object)
        if x.ndim == 0:
            out[()] = f(x[()])
            return out
        src = x.reshape(-1)
        dst = out.reshape(-1)
        for i in range(src.shape[0]):
            dst[i] = f(src[i])
        return out
    if isinstance(x, (list, tuple)):
        return type(x)(_map_elems(y, f) for y in x)
    if isinstance(x, (Alg, Cx)):
        return f(x)
    return x


_WRAPPED = "_symtorch_fft_wrapped"


def _rewrap(name, make):
    orig = KERNELS.get(name)
    if orig is None or getattr(orig, _WRAPPED, False):
        return
    k = make(orig)
    setattr(k, _WRAPPED, True)
    k.__name__ = "cx_" + getattr(orig, "__name__", name)
    KERNELS[name] = k


def _binary(name, f, has_alpha):
    def make(orig):
        def k(mo, a, b, *rest, **kw):
            kc, ka = _kinds(a, b)
            if not (kc or ka):
                return orig(mo, a, b, *rest, **kw)
            alpha = rest[0] if rest else kw.get("alpha", 1)
            if has_alpha and alpha != 1:
                al = _lift(alpha) if isinstance(alpha, (complex, float)) else alpha
                return ewn(lambda x, y: f(x, n_mul(al, y)), a, b)
            return ewn(f, a, b)

        return k

    _rewrap(name, make)


_binary("add", n_add, True)
_binary("sub", n_sub, True)
_binary("mul", n_mul, False)


def _mk_rsub(orig):
    def k(mo, a, b, alpha=1):
        kc, ka = _kinds(a, b)
        if not (kc or ka):
            return orig(mo, a, b, alpha)
        return KERNELS["sub"](mo, b, a, alpha)

    return k


_rewrap("rsub", _mk_rsub)


def _mk_div(orig):
    def k(mo, a, b, rounding_mode=None):
        kc, ka = _kinds(a, b)
        if not (kc or ka):
            return orig(mo, a, b, rounding_mode)
        if rounding_mode is not None:
            raise EngineGap("div rounding_mode on complex/algebraic elements")
        return ewn(n_div, a, b)

    return k


_rewrap("div", _mk_div)
_rewrap("true_divide", _mk_div)


def _mk_neg(orig):
    def k(mo, a):
        kc, ka = _kinds(a)
        if not (kc or ka):
            return orig(mo, a)
        return ewn(n_neg, a)

    return k


_rewrap("neg", _mk_neg)


def _mk_sum(orig):
    def k(mo, a, dim=None, keepdim=False, dtype=None):
        kc, ka = _kinds(a)
        if not (kc or ka):
            return orig(mo, a, dim, keepdim, dtype)
        return O.reduce_arr(a, dim, keepdim, n_add, init=_F0)

    return k


_rewrap("sum", _mk_sum)


def _matmul2n(a, b):
    n, kk = a.shape
    _, m = b.shape
    out = np.empty((n, m), dtype=object)
    for i in range(n):
        for j in range(m):
            acc = _F0
            for l in range(kk):
                acc = n_add(acc, n_mul(a[i, l], b[l, j]))
            out[i, j] = acc
    return out


def _mk_mm(orig):
    def k(mo, a, b):
        kc, ka = _kinds(a, b)
        if not (kc or ka):
            return orig(mo, a, b)
        return _matmul2n(_arr(a), _arr(b))

    return k


_rewrap("mm", _mk_mm)


def _mk_bmm(orig):
    def k(mo, a, b):
        kc, ka = _kinds(a, b)
        if not (kc or ka):
            return orig(mo, a, b)
        a, b = _arr(a), _arr(b)
        if not a.shape[0]:
            return np.empty(tuple(mo.shape), dtype=object)
        return np.stack([_matmul2n(a[i], b[i]) for i in range(a.shape[0])], axis=0)

    return k


_rewrap("bmm", _mk_bmm)


def _mk_addmm(orig):
    def k(mo, bias, a, b, beta=1, alpha=1):
        kc, ka = _kinds(bias, a, b, beta, alpha)
        if not (kc or ka):
            return orig(mo, bias, a, b, beta, alpha)
        r = _matmul2n(_arr(a), _arr(b))
        if alpha != 1:
            al = _lift(alpha)
            r = ewn(lambda x: n_mul(al, x), r)
        bb = _arr(bias)
        if beta != 1:
            be = _lift(beta)
            bb = ewn(lambda x: n_mul(be, x), bb)
        return ewn(n_add, bb, r)

    return k


_rewrap("addmm", _mk_addmm)


def _mk_mv(orig):
    def k(mo, a, v):
        kc, ka = _kinds(a, v)
        if not (kc or ka):
            return orig(mo, a, v)
        a, v = _arr(a), _arr(v)
        return _matmul2n(a, v.reshape(-1, 1)).reshape(-1)

    return k


_rewrap("mv", _mk_mv)


def _mk_dot(orig):
    def k(mo, a, b):
        kc, ka = _kinds(a, b)
        if not (kc or ka):
            return orig(mo, a, b)
        acc = _F0
        for x, y in zip(_arr(a), _arr(b)):
            acc = n_add(acc, n_mul(x, y))
        return _arr(acc)

    return k


_rewrap("dot", _mk_dot)


def _mk_copy(orig):
    """copy_/_to_copy/clone: complex -> real destinations keep the real part (torch
    semantics, with a warning); everything else moves elements unchanged"""

    def k(mo, *a, **kw):
        r = orig(mo, *a, **kw)
        if isinstance(mo, torch.Tensor) and not mo.dtype.is_complex and isinstance(r, np.ndarray) and _kinds(r)[0]:
            return _map_elems(r, lambda e: e.re if isinstance(e, Cx) else e)
        return r

    return k


for _n in ("copy", "_to_copy", "clone"):
    _rewrap(_n, _mk_copy)

# kernels that only move / select / create elements: payload objects are opaque to them
_MOVE = {
    "clone", "_to_copy", "contiguous", "alias_copy", "detach_copy", "lift_fresh_copy", "positive", "copy", "fill", "zero",
    "zeros", "zeros_like", "new_zeros", "ones", "ones_like", "new_ones", "empty", "empty_like", "new_empty", "empty_strided",
    "new_empty_strided", "full", "new_full", "full_like", "scalar_tensor", "arange", "linspace", "eye", "rand", "rand_like",
    "uniform", "randn", "randn_like", "normal", "bernoulli", "cat", "concat", "_cat", "stack", "repeat", "repeat_interleave",
    "index_select", "gather", "flip", "roll", "constant_pad_nd", "tril", "triu", "slice_backward", "select_backward",
    "slice_scatter", "select_scatter", "as_strided_scatter",
}
_ARITH = {"add", "sub", "rsub", "mul", "div", "true_divide", "neg", "sum", "mm", "bmm", "addmm", "mv", "dot"}
_UF = {"tanh", "sigmoid", "exp", "log", "cos", "sin", "acos", "arccos"}


def _mk_flatten(name):
    uf = name in _UF

    def make(orig):
        def k(mo, *a, **kw):
            kc, ka = _kinds(a, list(kw.values()))
            if kc:
                raise EngineGap("kernel %s has no complex-valued definition in the engine" % name)
            if ka:
                a = _map_elems(list(a), flat)
                kw = {kk: _map_elems(v, flat) for kk, v in kw.items()}
            if uf:
                a = _map_elems(list(a), canon_elem)
            return orig(mo, *a, **kw)

        return k

    return make


def canon_elem(x):
    return canon(x) if isinstance(x, z3.ExprRef) else x


for _n in list(KERNELS):
    if _n in _MOVE or _n in _ARITH:
        continue
    _rewrap(_n, _mk_flatten(_n))


# _map_elems applies f only to Alg/Cx scalars but to *all* array elements; for the UF
# kernels we want every z3 element canonicalised, which is what happens for arrays.

# --------------------------------------------------------------------------
# new kernels: complex construction / views
# --------------------------------------------------------------------------


@kernel("complex")
def k_complex(mo, re, im):
    return ewn(lambda a, b: Cx(a, b), re, im)


@kernel("conj_physical")
def k_conj_physical(mo, a):
    return ewn(n_conj, a)


@special("_conj", "_neg_view", "conj", "resolve_conj", "resolve_neg")
def s_lazy_views(func, args, kwargs):
    a = args[0]
    name = func._schema.name.split("::", 1)[1]
    if name in ("resolve_conj", "resolve_neg") or (name in ("conj", "_conj") and not a.meta.dtype.is_complex):
        if not a.meta.is_conj() and not a.meta.is_neg():
            return a
    raise EngineGap("lazy conjugate / negative views (%s) are not modelled; use conj_physical" % name)


def _readonly(t):
    t.store.flags.writeable = False
    return t


@special("view_as_real")
def s_view_as_real(func, args, kwargs):
    """materialised, read-only (a write through the view would raise instead of being lost)"""
    a = args[0]
    src = a.arr()
    out = np.empty(tuple(src.shape) + (2,), dtype=object)
    for idx in np.ndindex(*src.shape):
        c = as_cx(src[idx])
        out[idx + (0,)] = c.re
        out[idx + (1,)] = c.im
    return _readonly(from_array(out, a.meta.dtype.to_real()))


@special("view_as_complex")
def s_view_as_complex(func, args, kwargs):
    a = args[0]
    src = a.arr()
    if src.shape[-1] != 2:
        raise RuntimeError("Tensor must have a last dimension of size 2")
    out = np.empty(tuple(src.shape[:-1]), dtype=object)
    for idx in np.ndindex(*out.shape):
        out[idx] = Cx(src[idx + (0,)], src[idx + (1,)])
    return _readonly(from_array(out, a.meta.dtype.to_complex()))


# --------------------------------------------------------------------------
# exact roots of unity for N | 24
# --------------------------------------------------------------------------

_Q = Fraction
# cos(m * 15 deg), m = 0..6, as (1, sqrt2, sqrt3, sqrt6) coordinates
_C15 = {
    0: (_Q(1), _Q(0), _Q(0), _Q(0)),
    1: (_Q(0), _Q(1, 4), _Q(0), _Q(1, 4)),
    2: (_Q(0), _Q(0), _Q(1, 2), _Q(0)),
    3: (_Q(0), _Q(1, 2), _Q(0), _Q(0)),
    4: (_Q(1, 2), _Q(0), _Q(0), _Q(0)),
    5: (_Q(0), _Q(-1, 4), _Q(0), _Q(1, 4)),
    6: (_Q(0), _Q(0), _Q(0), _Q(0)),
}


def _cos15(m):
    m %= 24
    if m > 12:
        m = 24 - m
    if m > 6:
        return tuple(-v for v in _C15[12 - m])
    return _C15[m]


def exact_cos_sin(j, N):
    """(cos, sin)(2 pi j / N) as payload values (Fraction or Alg); N must divide 24"""
    if N <= 0 or 24 % N:
        raise EngineGap("exact DFT of length %d: roots of unity outside Q(sqrt2,sqrt3) (supported: divisors of 24)" % N)
    m = (j % N) * (24 // N)
    return _mk(list(_cos15(m))), _mk(list(_cos15(m - 6)))


_UNIT = {}


def unit(j, N):
    j %= N
    k = (j, N)
    u = _UNIT.get(k)
    if u is None:
        c, s = exact_cos_sin(j, N)
        u = _UNIT[k] = Cx(c, s)
    return u


def _sqrt_const(n):
    """sqrt(n) for a positive integer n as Fraction / Alg / term"""
    r, m = 1, n
    p = 2
    while p * p <= m:
        while m % (p * p) == 0:
            m //= p * p
            r *= p
        p += 1
    if m == 1:
        return Fraction(r)
    if m in (2, 3, 6):
        c = [_F0] * 4
        c[{2: 1, 3: 2, 6: 3}[m]] = Fraction(r)
        return Alg(c)
    return T.sqrt(Fraction(n))


def _norm_factor(normalization, n):
    if normalization == 0 or n == 1:
        return None
    if normalization == 2:
        return Fraction(1, n)
    if normalization == 1:
        s = _sqrt_const(n)
        if isinstance(s, Alg):
            return g_mul(s, Fraction(1, n))  # sqrt(n)/n
        return T.div(Fraction(1), s)
    raise EngineGap("fft normalization mode %r" % (normalization,))


def _dft_axis(a, axis, sign):
    """out[k] = sum_n a[n] * exp(sign * 2 pi i n k / N) along `axis`"""
    N = a.shape[axis]
    b = np.moveaxis(a, axis, -1)
    out = np.empty(b.shape, dtype=object)
    if N == 1:
        for idx in np.ndindex(*b.shape):
            out[idx] = as_cx(b[idx])
        return np.moveaxis(out, -1, axis)
    for lead in np.ndindex(*b.shape[:-1]):
        row = [b[lead + (n,)] for n in range(N)]
        for k in range(N):
            acc = Cx(_F0, _F0)
            for n in range(N):
                x = row[n]
                if not isinstance(x, (Cx, Alg)) and _is0(x):
                    continue
                acc = n_add(acc, n_mul(x, unit(sign * n * k, N)))
            out[lead + (k,)] = acc
    return np.moveaxis(out, -1, axis)


def _scale(a, f):
    if f is None:
        return a
    return ewn(lambda x: n_mul(x, f), a)


def _ndims(dim, nd):
    return [d % nd for d in dim]


@kernel("_fft_c2c")
def k_fft_c2c(mo, a, dim, normalization, forward):
    a = _arr(a)
    dims = _ndims(dim, a.ndim)
    n = 1
    out = a
    for d in dims:
        n *= a.shape[d]
        out = _dft_axis(out, d, -1 if forward else 1)
    if not dims:
        out = ewn(as_cx, out)
    return _scale(out, _norm_factor(normalization, n))


@kernel("_fft_r2c")
def k_fft_r2c(mo, a, dim, normalization, onesided):
    a = _arr(a)
    dims = _ndims(dim, a.ndim)
    n = 1
    out = a
    # the last listed dimension is the one torch transforms real->complex (halved if onesided)
    for d in reversed(dims):
        n *= a.shape[d]
        out = _dft_axis(out, d, -1)
        if onesided and d == dims[-1]:
            sl = [slice(None)] * out.ndim
            sl[d] = slice(0, a.shape[d] // 2 + 1)
            out = out[tuple(sl)]
    return _scale(out, _norm_factor(normalization, n))


def _c2r_axis(a, axis, n):
    """real inverse transform of a half spectrum (length >= n//2+1 along axis) to n real
    samples, unnormalised:  y[j] = Re X0 + 2 sum_{0<k<n/2} Re(X_k w^{jk}) + [n even] Re(X_{n/2}) (-1)^j.
    The imaginary parts of X_0 and X_{n/2} do not enter (as in pocketfft / MKL c2r)."""
    b = np.moveaxis(a, axis, -1)
    if b.shape[-1] < n // 2 + 1:
        raise RuntimeError("_fft_c2r: half spectrum of length %d too short for output length %d" % (b.shape[-1], n))
    out = np.empty(b.shape[:-1] + (n,), dtype=object)
    two = Fraction(2)
    for lead in np.ndindex(*b.shape[:-1]):
        X = [as_cx(b[lead + (k,)]) for k in range(n // 2 + 1)]
        for j in range(n):
            acc = X[0].re
            for k in range(1, (n - 1) // 2 + 1):
                u = unit(j * k, n)
                t = g_sub(g_mul(X[k].re, u.re), g_mul(X[k].im, u.im))
                acc = g_add(acc, g_mul(two, t))
            if n % 2 == 0 and n >= 2:
                t = X[n // 2].re
                acc = g_add(acc, t) if j % 2 == 0 else g_sub(acc, t)
            out[lead + (j,)] = acc
    return np.moveaxis(out, -1, axis)


@kernel("_fft_c2r")
def k_fft_c2r(mo, a, dim, normalization, last_dim_size):
    a = _arr(a)
    dims = _ndims(dim, a.ndim)
    n = last_dim_size
    out = a
    for d in dims[:-1]:
        n *= a.shape[d]
        out = _dft_axis(out, d, 1)
    out = _c2r_axis(out, dims[-1], last_dim_size)
    f = _norm_factor(normalization, n)
    if f is None:
        return out
    return ewn(lambda x: g_mul(x, f), out)


# --------------------------------------------------------------------------
# helpers for check bodies (work in symbolic and replay mode)
# --------------------------------------------------------------------------


def realize(t):
    """observation boundary: a real SymT whose Alg elements are flattened and whose z3
    elements are in canonical polynomial form; plain tensors are returned unchanged"""
    if not isinstance(t, SymT):
        return t
    if t.meta.dtype.is_complex:
        raise EngineGap("realize() of a complex tensor: observe view_as_real(t)")
    src = t.arr()
    out = np.empty(src.shape, dtype=object)
    for idx in np.ndindex(*src.shape):
        e = src[idx]
        if isinstance(e, Cx):
            raise EngineGap("complex element in a real tensor")
        out[idx] = canon_elem(flat(e))
    return from_array(out, t.meta.dtype)  # always a fresh store


def snapshot(t):
    """value snapshot for 'the call does not modify its argument': an independent copy
    (canonical payload in symbolic mode, clone otherwise); compare with realize(t) later"""
    if isinstance(t, SymT):
        return realize(t)
    return t.detach().clone()


def trig_table(symbolic, N, K, dtype=None):
    """(N, 2K+1) matrix with rows [1, cos(2 pi k j/N), sin(2 pi k j/N) for k=1..K], j=0..N-1;
    exact (Fraction/Alg payload) in symbolic mode, float64 otherwise"""
    if not symbolic:
        rows = []
        for j in range(N):
            r = [1.0]
            for k in range(1, K + 1):
                r += [math.cos(2 * math.pi * k * j / N), math.sin(2 * math.pi * k * j / N)]
            rows.append(r)
        return torch.tensor(rows, dtype=torch.float64)
    out = np.empty((N, 2 * K + 1), dtype=object)
    for j in range(N):
        out[j, 0] = Fraction(1)
        for k in range(1, K + 1):
            c, s = exact_cos_sin(j * k, N)
            out[j, 2 * k - 1] = c
            out[j, 2 * k] = s
    return from_array(out, dtype or torch.get_default_dtype())


# --------------------------------------------------------------------------
# differential self test against the installed torch.fft (float64)
# --------------------------------------------------------------------------


def _to_complex(e):
    c = as_cx(e)
    return complex(alg_float(c.re), alg_float(c.im))


def engine_value(t):
    """concrete SymT -> complex128 / float64 numpy array"""
    src = t.arr()
    if t.meta.dtype.is_complex:
        out = np.empty(src.shape, dtype=np.complex128)
        for idx in np.ndindex(*src.shape):
            out[idx] = _to_complex(src[idx])
        return out
    out = np.empty(src.shape, dtype=np.float64)
    for idx in np.ndindex(*src.shape):
        out[idx] = alg_float(src[idx])
    return out


def exact_tensor(a, dtype=torch.float64):
    """numpy float array -> SymT with the exact rational payload"""
    a = np.asarray(a, dtype=np.float64)
    out = np.empty(a.shape, dtype=object)
    for idx in np.ndindex(*a.shape):
        out[idx] = Fraction(float(a[idx]))
    return from_array(out, dtype)


class engine:
    """context: the block runs under SymMode with a path context.  Inside a running case the
    active mode/context are reused (SymMode must not be nested: its meta-shadow calls would
    re-enter the outer mode); elsewhere (replay, stand-alone) all other modes are disabled and a
    private context is created."""

    def __enter__(self):
        from torch.utils._python_dispatch import _disable_current_modes, _get_current_dispatch_mode

        self.stack = None
        if isinstance(_get_current_dispatch_mode(), S.SymMode) and T.CTX is not None:
            return self
        import contextlib

        self.stack = contextlib.ExitStack()
        self.stack.enter_context(_disable_current_modes())
        self.old = T.CTX
        T.set_ctx(PathCtx())
        self.stack.callback(lambda: T.set_ctx(self.old))
        self.stack.enter_context(S.patched_torch())
        return self

    def __exit__(self, *exc):
        if self.stack is not None:
            return self.stack.__exit__(*exc)
        return False


def reference():
    """context: plain torch (every dispatch mode disabled) for computing reference values"""
    from torch.utils._python_dispatch import _disable_current_modes

    return _disable_current_modes()


def selftest(seed=0, verbose=False):
    """every FFT kernel, on random dyadic-rational inputs, against torch.fft in float64.
    -> dict(compared=int, bad=[descriptions])"""
    rnd = np.random.RandomState(seed)
    specs = []
    norms = ("backward", "ortho", "forward")
    for N in (1, 2, 3, 4, 6, 8, 12, 24):
        for norm in norms:
            specs.append(("rfft", (2, N), dict(dim=1, norm=norm)))
            specs.append(("fft", (N, 2), dict(dim=0, norm=norm)))
            specs.append(("ifft", (N,), dict(dim=0, norm=norm)))
            specs.append(("irfft", (N // 2 + 1, 2), dict(n=N, dim=0, norm=norm)))
    for shp in ((2, 3), (3, 4), (4, 4), (4, 3), (2, 2), (3, 3), (6, 2), (8, 3), (4, 12)):
        for norm in norms:
            specs.append(("rfftn", (1,) + shp + (2,), dict(dim=[1, 2], norm=norm)))
            specs.append(("fftn", shp, dict(dim=[0, 1], norm=norm)))
            specs.append(("ifftn", shp, dict(dim=[1, 0], norm=norm)))
            specs.append(("irfftn", (1, shp[0], shp[1] // 2 + 1, 2), dict(s=shp, dim=[1, 2], norm=norm)))
        specs.append(("rfftn", shp + (1,), dict(dim=[1, 0])))
        specs.append(("irfftn", (shp[0] // 2 + 1, shp[1]), dict(s=(shp[1], shp[0]), dim=[1, 0])))
    for shp in ((2, 2, 2), (2, 3, 4), (3, 2, 2)):
        specs.append(("rfftn", (1,) + shp + (1,), dict(dim=[1, 2, 3])))
        specs.append(("irfftn", (1, shp[0], shp[1], shp[2] // 2 + 1, 1), dict(s=shp, dim=[1, 2, 3])))
        specs.append(("fftn", shp, dict()))
    # irfft with a padded / trimmed spectrum (python-level resize ops run through the engine too)
    specs.append(("irfft", (5,), dict(n=4, dim=0)))
    specs.append(("irfft", (2,), dict(n=6, dim=0)))
    specs.append(("rfft", (3,), dict(n=4, dim=0)))

    complex_in = {"fft", "ifft", "irfft", "fftn", "ifftn", "irfftn"}
    bad = []
    compared = 0
    for name, shape, kw in specs:
        re = rnd.randint(-8, 9, size=shape) / 4.0
        im = rnd.randint(-8, 9, size=shape) / 4.0
        fn = getattr(torch.fft, name)
        with reference():
            tre, tim = torch.tensor(re, dtype=torch.float64), torch.tensor(im, dtype=torch.float64)
            want = fn(torch.complex(tre, tim) if name in complex_in else tre, **kw)
            wshape, wcomplex, want = tuple(want.shape), want.dtype.is_complex, want.numpy()
        try:
            with engine():
                sre, sim = exact_tensor(re), exact_tensor(im)
                got = fn(torch.complex(sre, sim) if name in complex_in else sre, **kw)
                val = engine_value(got)
                gshape, gdtype = tuple(got.shape), got.dtype
        except Exception as e:  # the self test reports, never raises
            bad.append("%s%r %r: engine raised %r" % (name, shape, kw, e))
            continue
        compared += 1
        if gshape != wshape or gdtype.is_complex != wcomplex:
            bad.append("%s%r %r: geometry %s/%s vs torch %s/complex=%s" % (name, shape, kw, gshape, gdtype, wshape, wcomplex))
            continue
        err = float(np.abs(val - want).max()) if want.size else 0.0
        if verbose:
            print("%-7s %-16r %-40r err=%.2e" % (name, shape, kw, err))
        if not err <= 1e-9:
            bad.append("%s%r %r: max abs deviation %.3e" % (name, shape, kw, err))
    return dict(compared=compared, bad=bad)
