"""Decision-replay path exploration (concolic scheme).

A harness function is re-executed once per path.  Whenever the code under test
needs a concrete outcome of a symbolic condition (``bool(tensor)``, boolean-mask
indexing, ``int(tensor)``, ...) it calls :func:`PathCtx.decide`; the explorer
asks z3 which outcomes are feasible under the current path condition, follows
one and queues the other.
"""
from __future__ import annotations

import os
import sys
import time
import traceback

import z3

from . import term as T


class Unwound(Exception):
    """path stopped by the unwinding / decision bound (not a success)"""


class EngineGap(Exception):
    """the engine cannot model something it met (never silently guessed)"""


class Infeasible(Exception):
    """replayed prefix turned out infeasible (should not happen)"""


def _site():
    f = sys._getframe(2)
    while f is not None:
        fn = f.f_code.co_filename
        if "/torchphysics/" in fn:
            return "%s:%d" % (fn.split("/torchphysics/", 1)[1], f.f_lineno)
        f = f.f_back
    return "harness"


FEAS_FALLBACK = None  # (smt solver kind, timeout ms): one-shot solver asked BEFORE the incremental one in feasibility queries; opt-in per check module
_WD = {"thread": None, "deadline": None, "ctx": None, "pid": None}
_WD_LOCK = None


def _wd_loop():
    while True:
        time.sleep(0.25)
        with _WD_LOCK:
            d, c = _WD["deadline"], _WD["ctx"]
            if d is not None and c is not None and time.time() > d:
                try:
                    c.interrupt()
                except Exception:
                    pass
                _WD["deadline"] = time.time() + 2.0  # keep nudging while the check is still running


def guarded_check(solver, timeout_ms, *assumptions):
    """solver.check with a hard wall-clock guard: z3's own timeout is not honoured inside some
    non-linear procedures, so one watchdog thread per process interrupts the context -- only while
    a check is in progress."""
    global _WD_LOCK
    import threading

    if _WD["thread"] is None or _WD["pid"] != os.getpid():
        _WD_LOCK = threading.Lock()
        t = threading.Thread(target=_wd_loop, daemon=True)
        _WD["thread"], _WD["pid"] = t, os.getpid()
        _WD["deadline"] = _WD["ctx"] = None
        t.start()
    with _WD_LOCK:
        _WD["ctx"] = solver.ctx
        _WD["deadline"] = time.time() + timeout_ms / 1000.0 + 1.0
    try:
        return solver.check(*assumptions)
    except z3.Z3Exception:
        return z3.unknown
    finally:
        with _WD_LOCK:
            _WD["deadline"] = None
            _WD["ctx"] = None


class Stats:
    def __init__(self):
        self.feas_queries = 0
        self.feas_time = 0.0
        self.feas_unknown = 0


class PathCtx:
    def __init__(self, prefix=(), unwind=3, max_decisions=60, feas_timeout_ms=3000, stats=None, max_forks_per_site=8, split=()):
        self.split = frozenset(split)
        self.prefix = list(prefix)
        self.decisions = []  # list of bools actually taken
        self.pending = []  # alternative prefixes discovered on this path
        self.pc = []  # z3 bools
        self.assumptions = []
        self.axioms = []
        self.axioms_weak = []
        self.ax_owner = []
        self.ax_names = []
        self.sym_gen = {}
        self._gen = 0
        self._last_was_axiom = False
        self.has_weak = False
        self.obligations = []  # (term, message, where)
        self.defs = {}
        self.defsym = {}
        self.counter = {}
        self.rand_calls = []  # list of (kind, shape, [vars], extra)
        self.site_count = {}
        self.fork_count = {}
        self.max_forks_per_site = max_forks_per_site
        self.unwind = unwind
        self.max_decisions = max_decisions
        self.solver = z3.Solver()
        self.feas_timeout_ms = feas_timeout_ms
        self.solver.set("timeout", feas_timeout_ms)
        for ax in T.PI_AXIOMS:
            self.solver.add(ax)
        self.stats = stats or Stats()
        self.notes = []
        self.forks = []  # (site, term-string) for evidence
        self.lifted_cache = {}
        self.model = None
        self._cand_model = None
        self.path_deadline = None
        self._tick = 0
        import random as _random
        self.rng = _random.Random(20260927)
        self.particles = []
        self.no_particles = False

    # ---- symbols -------------------------------------------------------
    def _new_name(self, name):
        i = self.counter.get(name, 0)
        self.counter[name] = i + 1
        nm = "%s!%d" % (name, i)
        if self._last_was_axiom:
            self._gen += 1
            self._last_was_axiom = False
        self.sym_gen[nm] = self._gen
        return nm

    def fresh(self, name):
        return z3.Real(self._new_name(name))

    def fresh_int(self, name):
        return z3.Int(self._new_name(name))

    def fresh_bool(self, name):
        return z3.Bool(self._new_name(name))

    def axiom(self, t, weak=None):
        """defining axiom of a symbol; `weak` is an implied, solver-friendlier consequence used
        by the relaxed proof attempt (a proof from weaker hypotheses is still a proof)"""
        self.axioms.append(t)
        self.axioms_weak.append(t if weak is None else weak)
        if weak is not None:
            self.has_weak = True
        # the feasibility solver over-approximates (weaker axioms): an infeasible branch may be
        # explored, never a feasible one lost; verdicts always use the hypotheses of the path
        self.solver.add(t if weak is None else weak)
        if self.model is not None and self._model_says(t) is not True:
            self.model = None
        # ownership: the axiom defines the most recently created symbol generation it mentions
        self._last_was_axiom = True
        names = set(n for n in T.free_vars(t) if "!" in n)
        gens = [self.sym_gen[n] for n in names if n in self.sym_gen]
        if gens:
            g = max(gens)
            owners = set(n for n in names if self.sym_gen.get(n) == g)
        else:
            owners = set(names)
        self.ax_owner.append(owners)
        self.ax_names.append(names)

    def cone(self, goal_terms, weak=True):
        """definitional cone of influence: the axioms defining (transitively) the symbols the
        goal mentions.  Dropping the other hypotheses only weakens them, so unsat stays a proof."""
        needed = set()
        for g in goal_terms:
            if isinstance(g, z3.ExprRef):
                needed |= set(n for n in T.free_vars(g) if "!" in n)
        for a in self.assumptions:
            needed |= set(n for n in T.free_vars(a) if "!" in n)
        inc = [False] * len(self.axioms)
        changed = True
        while changed:
            changed = False
            for i, own in enumerate(self.ax_owner):
                if not inc[i] and own & needed:
                    inc[i] = True
                    new = self.ax_names[i] - needed
                    if new:
                        needed |= new
                    changed = True
        src = self.axioms_weak if weak else self.axioms
        return [src[i] for i in range(len(src)) if inc[i]]

    def assume(self, t):
        if isinstance(t, bool):
            if not t:
                raise ValueError("assumption is concretely false")
            return
        self.assumptions.append(t)
        self.solver.add(t)
        if self.model is not None and self._model_says(t) is not True:
            self.model = None
        self.particles = [p for p in self.particles if self._peval(t, p) is True]

    def oblige(self, t, msg, where):
        self.obligations.append((t, msg, where, len(self.pc)))

    # ---- decisions -----------------------------------------------------
    def _feasible(self, lit):
        t0 = time.time()
        r = z3.unknown
        if FEAS_FALLBACK is not None:
            # opt-in (C06): the incremental solver gives up on non-linear refutations that nlsat does at once.  The
            # hypotheses are no stronger than the path's (weak axioms): UNSAT prunes the branch, SAT = explore it
            from . import smt
            s2 = smt._mk_solver(FEAS_FALLBACK[0], FEAS_FALLBACK[1])
            for h in list(T.PI_AXIOMS) + self.assumptions + self.axioms_weak + self.pc + [lit]:
                s2.add(h)
            r = guarded_check(s2, FEAS_FALLBACK[1])
            if r == z3.sat:
                self.stats.feas_queries += 1
                self.stats.feas_time += time.time() - t0
                return True
        if r == z3.unknown:
            r = guarded_check(self.solver, self.feas_timeout_ms, lit)
        self.stats.feas_queries += 1
        self.stats.feas_time += time.time() - t0
        if r == z3.unknown:
            self.stats.feas_unknown += 1
            return True
        if r == z3.sat:
            try:
                self._cand_model = (lit.get_id(), self.solver.model())
            except z3.Z3Exception:
                self._cand_model = None
        return r == z3.sat

    # ---- concrete witnesses ("particles") -------------------------------
    N_PART = 12

    def _peval(self, t, p):
        cache = p.get("__cache__")
        if cache is None:
            cache = p["__cache__"] = {}
        try:
            return T.numeval(t, p, self.defsym, self.rng, cache)
        except T.Uncertain:
            return None

    def _consistent(self, p):
        for t in self.assumptions:
            if self._peval(t, p) is not True:
                return False
        for t in self.pc:
            if self._peval(t, p) is not True:
                return False
        return True

    def _replenish(self, tries=30):
        if self.no_particles:
            return
        n = 0
        while len(self.particles) < self.N_PART and n < tries:
            n += 1
            p = {}
            if self._consistent(p):
                self.particles.append(p)

    def _hunt(self, cond, want, tries=60):
        """look for a concrete witness of outcome `want` by mutating existing witnesses / fresh draws"""
        base = list(self.particles)
        for n in range(tries):
            if base and n % 3:
                src = base[self.rng.randrange(len(base))]
                p = {}
                ks = [k for k in src.keys() if k != "__cache__"]
                if not ks:
                    continue
                redraw = set(k for k in ks if self.rng.random() < 0.3)
                if not redraw:
                    redraw = {ks[self.rng.randrange(len(ks))]}
                for k in ks:
                    if k not in redraw and k != "__cache__":
                        p[k] = src[k]
            else:
                p = {}
            if self._peval(cond, p) is want and self._consistent(p):
                self.particles.append(p)
                self.stats.hunted = getattr(self.stats, "hunted", 0) + 1
                return True
        return False

    def _filter_particles(self, cond, out):
        keep = []
        for p in self.particles:
            if self._peval(cond, p) is out:
                keep.append(p)
        self.particles = keep

    def _particle_from_model(self, m):
        if m is None:
            return
        p = {}
        try:
            for d in m.decls():
                if d.arity() != 0:
                    continue
                name = d.name()
                if name.startswith(("sqrt!", "quot!", "cos!", "sin!", "root", "floor!", "ceil!", "trunc!", "arccos!")):
                    continue
                v = m[d]
                if z3.is_bool(v):
                    p[name] = z3.is_true(v)
                else:
                    p[name] = T.model_float(m, d())
        except Exception:
            return
        if self._consistent(p):
            self.particles.append(p)

    def _model_says(self, cond):
        """truth value of cond under the cached model of the current hypotheses (None if no model)"""
        if self.model is None:
            return None
        try:
            v = self.model.eval(cond, model_completion=True)
        except z3.Z3Exception:
            return None
        if z3.is_true(v):
            return True
        if z3.is_false(v):
            return False
        return None

    def decide(self, cond, site=None):
        """concrete outcome of a boolean element"""
        if not T.is_sym(cond):
            return bool(cond)
        cond = T.truth(cond)
        s = z3.simplify(cond)
        if z3.is_true(s):
            return True
        if z3.is_false(s):
            return False
        site = site or _site()
        n = self.site_count.get(site, 0) + 1
        self.site_count[site] = n
        if len(self.particles) < 3:
            self._replenish()
        i = len(self.decisions)
        if i < len(self.prefix):
            out = self.prefix[i]
            self._filter_particles(cond, out)
        else:
            if len(self.decisions) >= self.max_decisions:
                raise Unwound("decision bound %d at %s" % (self.max_decisions, site))
            ncond = z3.Not(cond)
            self._cand_model = None
            mt = mf = None
            pv = [self._peval(cond, p) for p in self.particles]
            has_t, has_f = any(v is True for v in pv), any(v is False for v in pv)
            says = None if (has_t or has_f) else self._model_says(cond)
            if (has_t or has_f) and not (has_t and has_f):
                if self._hunt(cond, not has_t):
                    has_t = has_f = True
                    pv = None
            if has_t or has_f:
                # concrete witnesses settle feasibility of the outcomes they exhibit
                self.stats.feas_by_witness = getattr(self.stats, "feas_by_witness", 0) + int(has_t) + int(has_f)
                ft = True if has_t else self._feasible(cond)
                if not has_t and ft and self._cand_model:
                    mt = self._cand_model[1]
                self._cand_model = None
                ff = True if has_f else self._feasible(ncond)
                if not has_f and ff and self._cand_model:
                    mf = self._cand_model[1]
            elif says is True:
                ft, mt = True, self.model
                ff = self._feasible(ncond)
                mf = self._cand_model[1] if (ff and self._cand_model) else None
            elif says is False:
                ff, mf = True, self.model
                ft = self._feasible(cond)
                mt = self._cand_model[1] if (ft and self._cand_model) else None
            else:
                ft = self._feasible(cond)
                mt = self._cand_model[1] if (ft and self._cand_model) else None
                self._cand_model = None
                ff = self._feasible(ncond)
                mf = self._cand_model[1] if (ff and self._cand_model) else None
            if ft and ff:
                nf = self.fork_count.get(site, 0) + 1
                self.fork_count[site] = nf
                if nf > self.max_forks_per_site and not str(site).startswith("split:"):
                    raise Unwound("site %s forked more than %d times" % (site, self.max_forks_per_site))
                # follow an outcome exhibited by a concrete witness; an alternative that is only
                # "not refuted" by the over-approximating feasibility solver is explored with low priority
                wit_t = pv is None or any(v is True for v in pv) if (has_t or has_f) else None
                wit_f = pv is None or any(v is False for v in pv) if (has_t or has_f) else None
                if wit_t is None or (wit_t and wit_f):
                    out = True
                    self.pending.append((self.decisions + [False], 0))
                elif wit_t:
                    out = True
                    self.pending.append((self.decisions + [False], 1))
                else:
                    out = False
                    self.pending.append((self.decisions + [True], 1))
                self.forks.append(site)
            elif ft:
                out = True
            elif ff:
                out = False
            else:
                raise Infeasible("path condition infeasible at %s" % site)
            self.model = mt if out else mf
            self._filter_particles(cond, out)
            if not self.particles:
                self._particle_from_model(self.model)
                self._replenish(20)
        self.decisions.append(out)
        lit = cond if out else z3.Not(cond)
        self.pc.append(lit)
        self.solver.add(lit)
        return out

    def decide_int(self, t, lo=0, hi=16, site=None):
        """concrete value of an integer-valued element"""
        if not T.is_sym(t):
            return int(t)
        site = site or _site()
        if not z3.is_int(t):
            raise EngineGap("decide_int on non-integer term at %s" % site)
        s = z3.simplify(t)
        if z3.is_int_value(s):
            return s.as_long()
        for v in range(lo, hi + 1):
            if self.decide(t == v, site=site):
                return v
        raise Unwound("integer %s outside [%d,%d] at %s" % (t, lo, hi, site))

    def watchdog(self):
        self._tick += 1
        if self._tick & 63 == 0 and self.path_deadline is not None and time.time() > self.path_deadline:
            raise Unwound("path wall-clock budget exhausted (a loop without symbolic decisions?)")

    def loop_tick(self, site, k=1):
        n = self.site_count.get(("loop", site), 0) + k
        self.site_count[("loop", site)] = n
        if n > self.unwind:
            raise Unwound("loop %s beyond unwind bound %d" % (site, self.unwind))

    # ---- views for queries --------------------------------------------
    def hyps(self, weak=False):
        return list(T.PI_AXIOMS) + self.assumptions + (self.axioms_weak if weak else self.axioms) + self.pc


class PathResult:
    __slots__ = ("status", "value", "exc", "ctx", "tb", "wall")

    def __init__(self, status, value, exc, ctx, tb=None, wall=0.0):
        self.status = status  # 'ok' | 'raised' | 'unwound' | 'gap'
        self.value = value
        self.exc = exc
        self.ctx = ctx
        self.tb = tb
        self.wall = wall


def explore(fn, unwind=3, max_paths=200, max_decisions=60, feas_timeout_ms=3000, stats=None, max_forks_per_site=8, split=(),
            deadline=None, path_budget_s=60.0):
    """Run fn() once per feasible decision sequence.

    Returns (results, leftover) where leftover is the number of queued prefixes
    that were not explored because max_paths was reached.
    """
    stats = stats or Stats()
    stack = [[]]
    low = []  # speculative alternatives (no concrete witness): explored after the witnessed ones
    n_spec = 0
    results = []
    while (stack or low) and len(results) < max_paths:
        if deadline is not None and time.time() > deadline:
            break
        if stack:
            # alternate between the deepest and the shallowest open alternative, so that early decisions
            # (e.g. the first parameter row of a loop over rows) get flipped within the path budget too
            prefix = stack.pop() if (len(results) % 2 == 0) else stack.pop(0)
        else:
            if n_spec >= max(4, max_paths // 4):
                break  # speculative alternatives beyond the budget stay unexplored (counted as leftover)
            n_spec += 1
            prefix = low.pop(0)
        c = PathCtx(prefix, unwind=unwind, max_decisions=max_decisions, feas_timeout_ms=feas_timeout_ms, stats=stats,
                    max_forks_per_site=max_forks_per_site, split=split)
        T.set_ctx(c)
        t0 = time.time()
        c.path_deadline = t0 + path_budget_s  # watchdog for loops that never reach a decision
        try:
            v = fn(c)
            res = PathResult("ok", v, None, c)
        except Unwound as e:
            res = PathResult("unwound", None, e, c)
        except EngineGap as e:
            res = PathResult("gap", None, e, c, traceback.format_exc())
        except Infeasible as e:
            res = PathResult("infeasible", None, e, c)
        except Exception as e:  # exceptions of the code under test are results
            res = PathResult("raised", None, e, c, traceback.format_exc())
        finally:
            T.set_ctx(None)
        res.wall = time.time() - t0
        results.append(res)
        # depth-first: explore alternatives of the deepest decision first
        for alt, prio in c.pending:
            (low if prio else stack).append(alt)
    return results, len(stack) + len(low)
