"""Extra kernels needed by checks/c08.py and checks/c09.py (imported by those checks).

Weight initialisers: the harness overwrites every parameter by fresh symbols after the module is
constructed, so the values an initialiser writes are irrelevant.  Kernels below that belong to
initialisers therefore write fresh unconstrained reals (recorded as random draws like normal_).
"""
from __future__ import annotations

import numpy as np

from . import term as T  # noqa: F401
from .symt import KERNELS, kernel  # noqa: F401
from .ops import _rand_like


def _fresh_like(mo, *a, **kw):
    return _rand_like(mo, "g", ("initialiser",))


# trunc_normal_/erfinv_-based initialisers (values overwritten by the harness afterwards)
for _n in ("erfinv",):
    if _n not in KERNELS:
        KERNELS[_n] = _fresh_like


@kernel("diag_embed")
def k_diag_embed(mo, a, offset=0, dim1=-2, dim2=-1):
    """torch.diag of a vector arrives as diag_embed (NormalizationLayer builds its weight with it)"""
    from fractions import Fraction

    a = np.asarray(a, dtype=object)
    if a.ndim != 1 or offset != 0:
        from .explore import EngineGap

        raise EngineGap("diag_embed: only 1-D input, offset 0")
    n = a.shape[0]
    out = np.empty((n, n), dtype=object)
    out.fill(Fraction(0))
    for i in range(n):
        out[i, i] = a[i]
    return out
