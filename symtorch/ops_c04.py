"""Extra kernels needed by the condition checks (C04/C14).

`index_put(accumulate=True)` with `None` (full-slice) entries in the index list: this is the
backward of `points[..., [i, j]]` (Model._fix_points_order) and is not handled by the generic
handler in ops.py.  Implemented by mapping every target cell to its flat position in the base
array, so duplicates accumulate exactly like ATen's definition.
"""
from __future__ import annotations

import numpy as np

from . import term as T
from . import ops as _ops
from .symt import SPECIAL, SymT, coerce, from_array

_ORIG = {k: SPECIAL[k] for k in ("index_put", "index_put_", "_index_put_impl_") if k in SPECIAL}


def _accumulate_general(self, indices, values, inplace):
    idxs = _ops._expand_bool_indices(list(indices))
    base = self.arr() if inplace else self.arr().copy()
    key = tuple(slice(None) if i is None else i for i in idxs)
    pos = np.arange(base.size, dtype=np.int64).reshape(base.shape)[key]
    v = values.arr() if isinstance(values, SymT) else _ops.A(values)
    v = coerce(v, self.meta.dtype)
    vb = np.broadcast_to(v, pos.shape)
    if inplace:
        flat_idx = [np.unravel_index(int(p), base.shape) for p in pos.reshape(-1)]
        for k2, val in zip(flat_idx, vb.reshape(-1)):
            base[k2] = T.add(base[k2], val)
        return self
    flat = base.reshape(-1)
    for p, val in zip(pos.reshape(-1), vb.reshape(-1)):
        flat[int(p)] = T.add(flat[int(p)], val)
    return from_array(flat.reshape(base.shape), self.meta.dtype)


def _mk(name, inplace):
    orig = _ORIG[name]

    def handler(func, args, kwargs):
        self, indices, values = args[0], args[1], args[2]
        accumulate = args[3] if len(args) > 3 else kwargs.get("accumulate", False)
        if accumulate and any(i is None for i in indices):
            return _accumulate_general(self, indices, values, inplace)
        return orig(func, args, kwargs)

    return handler


for _n, _inpl in (("index_put", False), ("index_put_", True), ("_index_put_impl_", True)):
    if _n in _ORIG:
        SPECIAL[_n] = _mk(_n, _inpl)
