"""Scalar term layer of SymTorch.

A tensor element is either an exact Python value (Fraction / int / bool) or a
z3 term (Real / Int / Bool sort).  All kernels are written against the helper
functions below, which fold constants exactly, keep concrete data concrete and
introduce *defined symbols* (sqrt, cos/sin pairs, roots, ...) together with
their axioms and definedness obligations in the current path context.
"""
from __future__ import annotations

import math
import sys
from fractions import Fraction

import z3

# --------------------------------------------------------------------------
# path context (set by explore.PathCtx)
# --------------------------------------------------------------------------

CTX = None  # the active explore.PathCtx; term-level code only needs the API below


def ctx():
    if CTX is None:
        raise RuntimeError("no active SymTorch path context")
    return CTX


def set_ctx(c):
    global CTX
    CTX = c


# --------------------------------------------------------------------------
# lifting concrete numbers
# --------------------------------------------------------------------------

PI = z3.Real("pi")
PI_AXIOMS = [PI > z3.RealVal("3.14159265358979323"), PI < z3.RealVal("3.14159265358979324")]
_PI_USED = [False]

_PI_TABLE = {}
for _q in (1, 2, 3, 4, 6, 8):
    for _p in range(-16, 17):
        if _p == 0:
            continue
        _v = _p * math.pi / _q
        _PI_TABLE.setdefault(_v, Fraction(_p, _q))
        _PI_TABLE.setdefault(float(_p) / _q * math.pi, Fraction(_p, _q))
        _PI_TABLE.setdefault(math.pi / _q * _p, Fraction(_p, _q))
PI_LIFTED = {}


def is_sym(x):
    return isinstance(x, z3.ExprRef)


def is_conc(x):
    return not isinstance(x, z3.ExprRef)


def exact(x):
    """Concrete python number -> exact value used in payloads."""
    if isinstance(x, (bool, int, Fraction)) or is_sym(x):
        return x
    if isinstance(x, float):
        if x != x or x in (math.inf, -math.inf):
            return x  # keep inf / nan as floats; comparisons with them are constant
        if x in _PI_TABLE:
            fr = _PI_TABLE[x]
            PI_LIFTED[x] = str(fr) + "*pi"
            _PI_USED[0] = True
            return z3.RealVal(str(fr)) * PI if fr != 1 else PI
        return Fraction(x)
    if hasattr(x, "item"):
        return exact(x.item())
    raise TypeError("cannot lift %r" % (x,))


def Z(x):
    """To a z3 term (Real or Bool), for queries."""
    if is_sym(x):
        return x
    if isinstance(x, bool):
        return z3.BoolVal(x)
    if isinstance(x, int):
        return z3.RealVal(x)
    if isinstance(x, Fraction):
        return z3.RealVal(str(x))
    if isinstance(x, float):
        if x != x or x in (math.inf, -math.inf):
            raise ValueError("non-finite concrete value in query: %r" % x)
        return z3.RealVal(str(Fraction(x)))
    raise TypeError("cannot convert %r" % (x,))


def _isint(t):
    return is_sym(t) and z3.is_int(t)


def _r(t):
    """z3 arithmetic operand (Real)."""
    if is_sym(t):
        if z3.is_bool(t):
            return z3.If(t, z3.RealVal(1), z3.RealVal(0))
        if z3.is_int(t):
            return z3.ToReal(t)
        return t
    if isinstance(t, bool):
        return z3.RealVal(1 if t else 0)
    if isinstance(t, float):
        return Z(t)
    return z3.RealVal(str(t))


def _num(x):
    """concrete payload value -> arithmetic python number"""
    if isinstance(x, bool):
        return int(x)
    return x


def _nonfinite(x):
    return isinstance(x, float) and (x != x or x in (math.inf, -math.inf))


# --------------------------------------------------------------------------
# arithmetic
# --------------------------------------------------------------------------


def add(a, b):
    if is_conc(a) and is_conc(b):
        return _num(a) + _num(b)
    if is_conc(a) and not _nonfinite(a) and _num(a) == 0 and not z3.is_bool(b):
        return b
    if is_conc(b) and not _nonfinite(b) and _num(b) == 0 and not z3.is_bool(a):
        return a
    if _isint(a) and (_isint(b) or isinstance(b, (int, bool))):
        return a + (b if _isint(b) else z3.IntVal(int(b)))
    if _isint(b) and isinstance(a, (int, bool)):
        return z3.IntVal(int(a)) + b
    return _r(a) + _r(b)


def neg(a):
    if is_conc(a):
        return -_num(a)
    if _isint(a):
        return -a
    return -_r(a)


def sub(a, b):
    if is_conc(a) and is_conc(b):
        return _num(a) - _num(b)
    if is_conc(b) and not _nonfinite(b) and _num(b) == 0 and not z3.is_bool(a):
        return a
    if _isint(a) and (_isint(b) or isinstance(b, (int, bool))):
        return a - (b if _isint(b) else z3.IntVal(int(b)))
    if is_sym(a) and is_sym(b) and a.eq(b):
        return 0 if _isint(a) else Fraction(0)
    return _r(a) - _r(b)


def mul(a, b):
    if is_conc(a) and is_conc(b):
        if isinstance(a, bool) and isinstance(b, bool):
            return a and b
        return _num(a) * _num(b)
    # bool * bool is logical and (torch decomposes isfinite/isclose that way)
    if (is_sym(a) and z3.is_bool(a)) and (isinstance(b, bool) or (is_sym(b) and z3.is_bool(b))):
        return land(a, b)
    if (is_sym(b) and z3.is_bool(b)) and isinstance(a, bool):
        return land(a, b)
    for x, y in ((a, b), (b, a)):
        if is_conc(x) and not _nonfinite(x):
            if _num(x) == 0:
                return Fraction(0) if not isinstance(x, int) or not _isint(y) else 0
            if _num(x) == 1 and not z3.is_bool(y):
                return y
    if is_sym(a) and z3.is_bool(a):
        return ite(a, b, Fraction(0))
    if is_sym(b) and z3.is_bool(b):
        return ite(b, a, Fraction(0))
    if _isint(a) and (_isint(b) or isinstance(b, (int, bool))):
        return a * (b if _isint(b) else z3.IntVal(int(b)))
    if _isint(b) and isinstance(a, (int, bool)):
        return z3.IntVal(int(a)) * b
    return _r(a) * _r(b)


def _where():
    """first frame inside /repo (source location for obligations)."""
    f = sys._getframe(2)
    best = None
    while f is not None:
        fn = f.f_code.co_filename
        if "/torchphysics/" in fn:
            best = "%s:%d:%s" % (fn.split("/torchphysics/", 1)[1], f.f_lineno, f.f_code.co_name)
            break
        f = f.f_back
    return best or "harness"


def div(a, b):
    """true division"""
    if is_conc(b):
        if _nonfinite(b):
            if is_conc(a) and not _nonfinite(a):
                return Fraction(0)
            raise ValueError("division by non-finite")
        bb = _num(b)
        if bb == 0:
            ctx().oblige(z3.BoolVal(False), "division by concrete zero", _where())
            return ctx().fresh("undef_div")
        if is_conc(a):
            if _nonfinite(a):
                return a if bb > 0 else -a
            return Fraction(_num(a)) / Fraction(bb)
        if bb == 1:
            return _r(a) if z3.is_bool(a) else a
        return _r(a) * z3.RealVal(str(1 / Fraction(bb)))
    rb = _r(b)
    c = ctx()
    c.oblige(rb != 0, "division by zero", _where())
    if is_conc(a) and not _nonfinite(a) and _num(a) == 0:
        return Fraction(0)
    # quotient as a defined symbol: q*b == a (whenever b != 0) keeps queries polynomial
    k = ("div",) + _key(a) + _key(b)
    hit = c.defs.get(k)
    if hit is not None:
        return hit[0]
    q = c.fresh("quot")
    ra = _r(a)
    c.axiom(z3.Implies(rb != 0, q * rb == ra))
    c.defs[k] = (q, (a, b))
    c.defsym[q.get_id()] = ("div", a, b)
    return q


def sq(a):
    return mul(a, a)


def powi(a, n):
    if n == 0:
        return Fraction(1)
    if n < 0:
        return div(Fraction(1), powi(a, -n))
    r = a
    for _ in range(n - 1):
        r = mul(r, a)
    return r


# --------------------------------------------------------------------------
# boolean / comparison
# --------------------------------------------------------------------------


def _b(t):
    if is_sym(t):
        if z3.is_bool(t):
            return t
        return t != 0
    return z3.BoolVal(bool(t))


def truth(a):
    """element -> bool element (nonzero test)."""
    if is_conc(a):
        return bool(a)
    if z3.is_bool(a):
        return a
    return a != 0


def lnot(a):
    if is_conc(a):
        return not bool(a)
    a = truth(a)
    if z3.is_not(a):
        return a.arg(0)
    return z3.Not(a)


def land(a, b):
    if is_conc(a):
        return truth(b) if bool(a) else False
    if is_conc(b):
        return truth(a) if bool(b) else False
    return z3.And(truth(a), truth(b))


def lor(a, b):
    if is_conc(a):
        return True if bool(a) else truth(b)
    if is_conc(b):
        return True if bool(b) else truth(a)
    return z3.Or(truth(a), truth(b))


def lxor(a, b):
    if is_conc(a) and is_conc(b):
        return bool(a) != bool(b)
    return z3.Xor(_b(a), _b(b))


def _cmp(a, b, op):
    if is_conc(a) and is_conc(b):
        a, b = _num(a), _num(b)
        return {"lt": a < b, "le": a <= b, "gt": a > b, "ge": a >= b, "eq": a == b, "ne": a != b}[op]
    # comparisons against +-inf / nan are constant for real-valued terms
    for x, y, flip in ((a, b, False), (b, a, True)):
        if _nonfinite(y):
            if y != y:
                return op == "ne"
            pos = y > 0
            o = op
            if flip:
                o = {"lt": "gt", "le": "ge", "gt": "lt", "ge": "le", "eq": "eq", "ne": "ne"}[op]
            # x (finite real)  o  +-inf
            return {"lt": pos, "le": pos, "gt": not pos, "ge": not pos, "eq": False, "ne": True}[o]
    if is_sym(a) and is_sym(b) and a.eq(b):
        return op in ("le", "ge", "eq")
    if (is_sym(a) and z3.is_bool(a)) or (is_sym(b) and z3.is_bool(b)):
        if op in ("eq", "ne") and (isinstance(a, bool) or (is_sym(a) and z3.is_bool(a))) and (
            isinstance(b, bool) or (is_sym(b) and z3.is_bool(b))
        ):
            r = _b(a) == _b(b)
            return r if op == "eq" else z3.Not(r)
    if _isint(a) and (_isint(b) or isinstance(b, (int, bool))):
        x, y = a, (b if _isint(b) else z3.IntVal(int(b)))
    elif _isint(b) and isinstance(a, (int, bool)):
        x, y = z3.IntVal(int(a)), b
    else:
        x, y = _r(a), _r(b)
    return {"lt": x < y, "le": x <= y, "gt": x > y, "ge": x >= y, "eq": x == y, "ne": x != y}[op]


def lt(a, b):
    return _cmp(a, b, "lt")


def le(a, b):
    return _cmp(a, b, "le")


def gt(a, b):
    return _cmp(a, b, "gt")


def ge(a, b):
    return _cmp(a, b, "ge")


def eq(a, b):
    return _cmp(a, b, "eq")


def ne(a, b):
    return _cmp(a, b, "ne")


def ite(c, a, b, kind="where"):
    if is_conc(c):
        return a if bool(c) else b
    if CTX is not None and kind in CTX.split:
        # case split instead of an if-then-else term: one hard query becomes several easy ones
        return a if CTX.decide(truth(c), site="split:" + kind) else b
    if is_conc(a) and is_conc(b) and type(a) == type(b) and a == b:
        return a
    if is_sym(a) and is_sym(b) and a.eq(b):
        return a
    c = truth(c)
    abool = isinstance(a, bool) or (is_sym(a) and z3.is_bool(a))
    bbool = isinstance(b, bool) or (is_sym(b) and z3.is_bool(b))
    if abool and bbool:
        return z3.If(c, _b(a), _b(b))
    if (_isint(a) or isinstance(a, int)) and (_isint(b) or isinstance(b, int)) and (_isint(a) or _isint(b)):
        return z3.If(c, a if _isint(a) else z3.IntVal(int(a)), b if _isint(b) else z3.IntVal(int(b)))
    return z3.If(c, _r(a), _r(b))


def absv(a):
    if is_conc(a):
        return abs(_num(a))
    return ite(ge(a, 0), a, neg(a), "abs")


def maxv(a, b):
    if is_conc(a) and is_conc(b):
        return max(_num(a), _num(b))
    return ite(ge(a, b), a, b, "minmax")


def minv(a, b):
    if is_conc(a) and is_conc(b):
        return min(_num(a), _num(b))
    return ite(le(a, b), a, b, "minmax")


def sign(a):
    if is_conc(a):
        a = _num(a)
        return Fraction((a > 0) - (a < 0))
    return ite(gt(a, 0), Fraction(1), ite(lt(a, 0), Fraction(-1), Fraction(0)))


# --------------------------------------------------------------------------
# defined symbols: sqrt, roots, trig, uninterpreted transcendental functions
# --------------------------------------------------------------------------


_CANON = {}


def canon(a):
    """canonical (sum-of-monomials) form of a term, so that e.g. (x-y)^2 and (y-x)^2 share
    their defined symbols (sqrt, cos/sin, ...)"""
    if not is_sym(a):
        return a
    i = a.get_id()
    hit = _CANON.get(i)
    if hit is not None:
        return hit[1]
    try:
        c = z3.simplify(a, som=True, sort_sums=True)
    except z3.Z3Exception:
        c = a
    if len(_CANON) > 20000:
        _CANON.clear()
    _CANON[i] = (a, c)
    return c


def _key(a):
    if is_sym(a):
        return ("t", canon(a).get_id())
    return ("c", _num(a))


def _isqrt_frac(fr):
    if fr < 0:
        return None
    n, d = fr.numerator, fr.denominator
    rn, rd = math.isqrt(n), math.isqrt(d)
    if rn * rn == n and rd * rd == d:
        return Fraction(rn, rd)
    return None


def sqrt(a):
    c = ctx()
    if is_conc(a):
        a = Fraction(_num(a))
        r = _isqrt_frac(a)
        if r is not None:
            return r
        if a < 0:
            c.oblige(z3.BoolVal(False), "sqrt of negative constant", _where())
            return c.fresh("undef_sqrt")
    k = ("sqrt",) + _key(a)
    hit = c.defs.get(k)
    if hit is not None:
        return hit[0]
    s = c.fresh("sqrt")
    ra = _r(a)
    c.axiom(z3.And(s >= 0, s * s == ra), weak=z3.And(s >= 0, z3.Implies(s == 0, ra == 0)))
    if is_conc(a):
        f = math.sqrt(float(a))
        c.axiom(z3.And(s >= Z(f * (1 - 1e-12)), s <= Z(f * (1 + 1e-12))))
    else:
        c.oblige(ra >= 0, "sqrt of negative", _where())
    c.defs[k] = (s, a)
    c.defsym[s.get_id()] = ("sqrt", a)
    return s


def root(a, q):
    """a ** (1/q), q odd or a >= 0"""
    c = ctx()
    if q == 1:
        return a
    if q == 2:
        return sqrt(a)
    if is_conc(a):
        a = Fraction(_num(a))
        f = round(float(a) ** (1.0 / q)) if a >= 0 else None
        if f is not None and Fraction(f) ** q == a:
            return Fraction(f)
    k = ("root", q) + _key(a)
    hit = c.defs.get(k)
    if hit is not None:
        return hit[0]
    s = c.fresh("root%d" % q)
    ra = _r(a)
    p = s
    for _ in range(q - 1):
        p = p * s
    c.axiom(p == ra)
    if q % 2 == 0:
        c.axiom(s >= 0)
        c.oblige(ra >= 0, "even root of negative", _where())
    else:
        c.axiom(z3.Implies(ra >= 0, s >= 0))
        c.axiom(z3.Implies(ra <= 0, s <= 0))
    c.defs[k] = (s, a)
    c.defsym[s.get_id()] = ("root", q, a)
    return s


def _pi_multiple(x):
    """if concrete x (Fraction) is the double nearest to k*pi/2 -> k else None"""
    f = float(x)
    k = round(f / (math.pi / 2))
    if abs(k) <= 64 and abs(f - k * (math.pi / 2)) <= 4e-15 * max(1.0, abs(f)):
        return k
    return None


_QUARTER = {0: (1, 0), 1: (0, 1), 2: (-1, 0), 3: (0, -1)}


def _split_shift(a):
    """a = b + k*pi/2 with the shift read from a float literal or the PI symbol
    -> (b, k), or (a, 0)"""
    if not is_sym(a) or not (z3.is_add(a) or z3.is_sub(a)):
        return a, 0
    ch = a.children()
    if len(ch) != 2:
        return a, 0
    x, y = ch
    sgn = 1 if z3.is_add(a) else -1

    def half_pi_units(v):
        if z3.is_rational_value(v):
            k = _pi_multiple(Fraction(v.numerator_as_long(), v.denominator_as_long()))
            return k if k else None
        q = _pi_coeff(v)
        if q is not None and (2 * q).denominator == 1:
            return int(2 * q)
        return None

    k = half_pi_units(y)
    if k is not None:
        return x, sgn * k
    if z3.is_add(a):
        k = half_pi_units(x)
        if k is not None:
            return y, k
    return a, 0


def _pi_coeff(v):
    if v.eq(PI):
        return Fraction(1)
    if z3.is_mul(v) and len(v.children()) == 2:
        x, y = v.children()
        if y.eq(PI) and z3.is_rational_value(x):
            return Fraction(x.numerator_as_long(), x.denominator_as_long())
        if x.eq(PI) and z3.is_rational_value(y):
            return Fraction(y.numerator_as_long(), y.denominator_as_long())
    return None


def cossin(a):
    """(cos a, sin a)"""
    c = ctx()
    if is_conc(a):
        a = Fraction(_num(a))
        if a == 0:
            return Fraction(1), Fraction(0)
        k = _pi_multiple(a)
        if k is not None:
            cc, ss = _QUARTER[k % 4]
            return Fraction(cc), Fraction(ss)
    else:
        q = _pi_coeff(a)
        if q is not None and (2 * q).denominator == 1:
            cc, ss = _QUARTER[int(2 * q) % 4]
            return Fraction(cc), Fraction(ss)
        b, k = _split_shift(a)
        if k != 0:
            cb, sb = cossin(b)
            k %= 4
            if k == 1:
                return neg(sb), cb
            if k == 2:
                return neg(cb), neg(sb)
            if k == 3:
                return sb, neg(cb)
            return cb, sb
        d = c.defsym.get(a.get_id())
        if d is not None and d[0] == "arccos":
            w = d[1]
            return w, sqrt(sub(Fraction(1), sq(w)))
    k = ("cs",) + _key(a)
    hit = c.defs.get(k)
    if hit is not None:
        return hit[0]
    co, si = c.fresh("cos"), c.fresh("sin")
    c.axiom(co * co + si * si == 1)
    if is_conc(a):
        f = float(a)
        e = 1e-12
        c.axiom(z3.And(co >= Z(math.cos(f) - e), co <= Z(math.cos(f) + e), si >= Z(math.sin(f) - e), si <= Z(math.sin(f) + e)))
    c.defs[k] = ((co, si), a)
    c.defsym[co.get_id()] = ("cos", a)
    c.defsym[si.get_id()] = ("sin", a)
    return co, si


def cos(a):
    return cossin(a)[0]


def sin(a):
    return cossin(a)[1]


def arccos(w):
    c = ctx()
    if is_conc(w):
        w = Fraction(_num(w))
        if w == 1:
            return Fraction(0)
    k = ("arccos",) + _key(w)
    hit = c.defs.get(k)
    if hit is not None:
        return hit[0]
    t = c.fresh("arccos")
    c.axiom(z3.And(t >= 0, t <= PI))
    _PI_USED[0] = True
    rw = _r(w)
    if is_sym(w):
        c.oblige(z3.And(rw >= -1, rw <= 1), "arccos outside [-1,1]", _where())
    c.defs[k] = (t, w)
    c.defsym[t.get_id()] = ("arccos", w)
    return t


_UF = {}


def uf(name, a, axioms=None):
    """uninterpreted real function application (tanh, exp, sigmoid, ...)"""
    f = _UF.get(name)
    if f is None:
        f = _UF[name] = z3.Function(name, z3.RealSort(), z3.RealSort())
    t = f(_r(a))
    c = ctx()
    k = ("uf", name) + _key(a)
    if k not in c.defs:
        c.defs[k] = (t, a)
        if axioms:
            for ax in axioms(t, _r(a)):
                c.axiom(ax)
    return t


def tanh(a):
    if is_conc(a) and _num(a) == 0:
        return Fraction(0)
    return uf("tanh", a, lambda t, x: [t > -1, t < 1])


def exp(a):
    if is_conc(a) and _num(a) == 0:
        return Fraction(1)
    return uf("exp", a, lambda t, x: [t > 0])


def log(a):
    if is_conc(a) and _num(a) == 1:
        return Fraction(0)
    if is_sym(a):
        ctx().oblige(_r(a) > 0, "log of non-positive", _where())
    return uf("log", a)


def sigmoid(a):
    if is_conc(a) and _num(a) == 0:
        return Fraction(1, 2)
    return uf("sigmoid", a, lambda t, x: [t > 0, t < 1])


def floor_int(a):
    """floor as a fresh Int k with k <= a < k+1 (returns z3 Int or python int)"""
    if is_conc(a):
        return math.floor(_num(a))
    if _isint(a):
        return a
    c = ctx()
    k = ("floor",) + _key(a)
    hit = c.defs.get(k)
    if hit is not None:
        return hit[0]
    n = c.fresh_int("floor")
    ra = _r(a)
    c.axiom(z3.And(z3.ToReal(n) <= ra, ra < z3.ToReal(n) + 1))
    c.defs[k] = (n, a)
    c.defsym[n.get_id()] = ("floor", a)
    return n


def ceil_int(a):
    if is_conc(a):
        return math.ceil(_num(a))
    if _isint(a):
        return a
    c = ctx()
    k = ("ceil",) + _key(a)
    hit = c.defs.get(k)
    if hit is not None:
        return hit[0]
    n = c.fresh_int("ceil")
    ra = _r(a)
    c.axiom(z3.And(ra <= z3.ToReal(n), z3.ToReal(n) < ra + 1))
    c.defs[k] = (n, a)
    c.defsym[n.get_id()] = ("ceil", a)
    return n


def trunc_int(a):
    if is_conc(a):
        return math.trunc(_num(a))
    if _isint(a):
        return a
    c = ctx()
    k = ("trunc",) + _key(a)
    hit = c.defs.get(k)
    if hit is not None:
        return hit[0]
    n = c.fresh_int("trunc")
    ra = _r(a)
    rn = z3.ToReal(n)
    c.axiom(z3.If(ra >= 0, z3.And(rn <= ra, ra < rn + 1), z3.And(rn >= ra, ra > rn - 1)))
    c.defs[k] = (n, a)
    c.defsym[n.get_id()] = ("trunc", a)
    return n


def to_float_elem(x):
    """int/bool element -> real element"""
    if is_conc(x):
        if _nonfinite(x):
            return x
        return Fraction(_num(x))
    return _r(x)


# --------------------------------------------------------------------------
# utilities on terms
# --------------------------------------------------------------------------


def free_vars(t, acc=None):
    """names of uninterpreted constants in a z3 term"""
    if acc is None:
        acc = {}
    if not is_sym(t):
        return acc
    seen = set()
    stack = [t]
    while stack:
        x = stack.pop()
        i = x.get_id()
        if i in seen:
            continue
        seen.add(i)
        if z3.is_const(x) and x.decl().kind() == z3.Z3_OP_UNINTERPRETED:
            acc[x.decl().name()] = x
        else:
            stack.extend(x.children())
    return acc


def model_float(model, t):
    """numeric value of term t under model (float / bool / int)"""
    if is_conc(t):
        if isinstance(t, Fraction):
            return float(t)
        return t
    v = model.eval(t, model_completion=True)
    if z3.is_bool(v):
        return z3.is_true(v)
    if z3.is_int_value(v):
        return v.as_long()
    if z3.is_rational_value(v):
        return float(Fraction(v.numerator_as_long(), v.denominator_as_long()))
    if z3.is_algebraic_value(v):
        a = v.approx(30)
        return float(Fraction(a.numerator_as_long(), a.denominator_as_long()))
    try:
        s = z3.simplify(v)
        if z3.is_rational_value(s):
            return float(Fraction(s.numerator_as_long(), s.denominator_as_long()))
    except Exception:
        pass
    raise ValueError("cannot evaluate %s" % v)


# --------------------------------------------------------------------------
# numeric evaluation of terms under a concrete assignment of the base variables
# (used for concrete witnesses that guide path exploration; never for verdicts)
# --------------------------------------------------------------------------


class Uncertain(Exception):
    """numeric evaluation is too close to a decision boundary / undefined"""


_NUM_EPS = 1e-9
_COMPILED = {}  # ast id -> (term kept alive, node)
_UF_NUM = {"tanh": math.tanh, "exp": math.exp, "log": math.log, "sigmoid": lambda z: 1 / (1 + math.exp(-z))}


class _Node:
    __slots__ = ("op", "args", "val", "id", "is_bool", "is_int")

    def __init__(self, op, args=(), val=None, id=None, is_bool=False, is_int=False):
        self.op, self.args, self.val, self.id, self.is_bool, self.is_int = op, args, val, id, is_bool, is_int


_OPMAP = None


def _opmap():
    global _OPMAP
    if _OPMAP is None:
        _OPMAP = {
            z3.Z3_OP_ADD: "add", z3.Z3_OP_MUL: "mul", z3.Z3_OP_SUB: "sub", z3.Z3_OP_UMINUS: "neg", z3.Z3_OP_DIV: "div",
            z3.Z3_OP_IDIV: "idiv", z3.Z3_OP_MOD: "mod", z3.Z3_OP_TO_REAL: "id", z3.Z3_OP_TO_INT: "floor",
            z3.Z3_OP_POWER: "pow", z3.Z3_OP_LE: "le", z3.Z3_OP_LT: "lt", z3.Z3_OP_GE: "ge", z3.Z3_OP_GT: "gt",
            z3.Z3_OP_EQ: "eq", z3.Z3_OP_DISTINCT: "ne", z3.Z3_OP_AND: "and", z3.Z3_OP_OR: "or", z3.Z3_OP_NOT: "not",
            z3.Z3_OP_IMPLIES: "implies", z3.Z3_OP_XOR: "xor", z3.Z3_OP_ITE: "ite",
        }
    return _OPMAP


def compile_term(t):
    """z3 term -> light-weight evaluation DAG (built once per term, cached by AST id)"""
    i = t.get_id()
    hit = _COMPILED.get(i)
    if hit is not None:
        return hit[1]
    if z3.is_int_value(t):
        n = _Node("const", val=t.as_long(), id=i)
    elif z3.is_rational_value(t):
        n = _Node("const", val=Fraction(t.numerator_as_long(), t.denominator_as_long()), id=i)
    elif z3.is_true(t):
        n = _Node("const", val=True, id=i)
    elif z3.is_false(t):
        n = _Node("const", val=False, id=i)
    elif z3.is_algebraic_value(t):
        a = t.approx(20)
        n = _Node("const", val=a.numerator_as_long() / a.denominator_as_long(), id=i)
    else:
        k = t.decl().kind()
        ch = t.children()
        if k == z3.Z3_OP_UNINTERPRETED:
            name = t.decl().name()
            if not ch:
                n = _Node("var", val=name, id=i, is_bool=z3.is_bool(t), is_int=z3.is_int(t))
            else:
                n = _Node("uf", tuple(compile_term(c) for c in ch), val=name, id=i)
        else:
            op = _opmap().get(k)
            if op is None:
                n = _Node("unknown", val=t.decl().name(), id=i)
            else:
                n = _Node(op, tuple(compile_term(c) for c in ch), id=i, is_int=(op == "eq" and z3.is_int(ch[0])))
    if len(_COMPILED) > 200000:
        _COMPILED.clear()
    _COMPILED[i] = (t, n)
    return n


def _close(a, b):
    if isinstance(a, (int, Fraction)) and isinstance(b, (int, Fraction)):
        return False  # exact arithmetic: no uncertainty
    return abs(a - b) < _NUM_EPS * max(1.0, abs(a), abs(b))


def numeval(t, vals, defsym, rng, cache=None):
    """Fraction/float/bool value of z3 term t.  `vals` maps base-variable names to values and is
    extended lazily (rand draws: rationals in [0,1); other reals: rationals ~ N(0,1)); defined
    symbols are computed from their definitions in `defsym`.  Exact rationals are compared exactly,
    floats with a relative margin (Uncertain inside the margin)."""
    if cache is None:
        cache = {}
    if not is_sym(t):
        return t
    root = compile_term(t)

    def num(x):
        if not is_sym(x):
            return x
        return ev(compile_term(x))

    def evdef(d):
        kind = d[0]
        try:
            if kind == "sqrt":
                a = num(d[1])
                if a < 0:
                    raise Uncertain("sqrt<0")
                if isinstance(a, (int, Fraction)):
                    r = _isqrt_frac(Fraction(a))
                    if r is not None:
                        return r
                return math.sqrt(a)
            if kind == "root":
                a = num(d[2])
                q = d[1]
                return math.copysign(abs(a) ** (1.0 / q), a) if q % 2 else a ** (1.0 / q)
            if kind == "cos":
                return math.cos(num(d[1]))
            if kind == "sin":
                return math.sin(num(d[1]))
            if kind == "arccos":
                return math.acos(num(d[1]))
            if kind == "div":
                b = num(d[2])
                if b == 0 or _close(b, 0):
                    raise Uncertain("div0")
                a = num(d[1])
                if isinstance(a, int) and isinstance(b, int):
                    return Fraction(a, b)
                return a / b
            if kind == "floor":
                return math.floor(num(d[1]))
            if kind == "ceil":
                return math.ceil(num(d[1]))
            if kind == "trunc":
                return math.trunc(num(d[1]))
        except (ValueError, OverflowError, ZeroDivisionError):
            raise Uncertain("domain")
        raise Uncertain("def " + str(kind))

    def ev(n):
        i = n.id
        if i in cache:
            r = cache[i]
            if r is _UNC:
                raise Uncertain("cached")
            return r
        try:
            r = ev1(n)
        except Uncertain:
            cache[i] = _UNC
            raise
        cache[i] = r
        return r

    def ev1(n):
        op = n.op
        if op == "const":
            return n.val
        a = n.args
        if op == "var":
            name = n.val
            if name in vals:
                return vals[name]
            if name == "pi":
                return math.pi
            d = defsym.get(n.id)
            if d is not None:
                v = evdef(d)
            elif n.is_bool:
                v = rng.random() < 0.5
            elif n.is_int:
                v = rng.randint(0, 3)
            elif name.startswith("u!"):
                v = Fraction(rng.randrange(0, 4096), 4096)
            else:
                v = Fraction(int(rng.gauss(0.0, 1.0) * 256), 256)
            vals[name] = v
            return v
        if op == "add":
            r = 0
            for c in a:
                r = r + ev(c)
            return r
        if op == "mul":
            r = 1
            for c in a:
                r = r * ev(c)
            return r
        if op == "sub":
            r = ev(a[0])
            for c in a[1:]:
                r = r - ev(c)
            return r
        if op == "neg":
            return -ev(a[0])
        if op == "id":
            return ev(a[0])
        if op in ("div", "idiv"):
            x, y = ev(a[0]), ev(a[1])
            if y == 0 or _close(y, 0):
                raise Uncertain("div0")
            if op == "idiv":
                return math.floor(x / y)
            if isinstance(x, int) and isinstance(y, int):
                return Fraction(x, y)
            return x / y
        if op == "mod":
            x, y = ev(a[0]), ev(a[1])
            if y == 0:
                raise Uncertain("mod0")
            return x % y
        if op == "floor":
            return math.floor(ev(a[0]))
        if op == "pow":
            return ev(a[0]) ** ev(a[1])
        if op in ("le", "lt", "ge", "gt"):
            x, y = ev(a[0]), ev(a[1])
            if _close(x, y):
                raise Uncertain("cmp")
            if op == "le":
                return x <= y
            if op == "lt":
                return x < y
            if op == "ge":
                return x >= y
            return x > y
        if op in ("eq", "ne"):
            x, y = ev(a[0]), ev(a[1])
            if isinstance(x, bool) or isinstance(y, bool):
                r = bool(x) == bool(y)
            elif isinstance(x, (int, Fraction)) and isinstance(y, (int, Fraction)):
                r = x == y
            elif _close(x, y):
                raise Uncertain("eq")
            else:
                r = False
            return r if op == "eq" else not r
        if op == "and":
            unc = None
            for c in a:
                try:
                    if not ev(c):
                        return False
                except Uncertain as e:
                    unc = e
            if unc is not None:
                raise unc
            return True
        if op == "or":
            unc = None
            for c in a:
                try:
                    if ev(c):
                        return True
                except Uncertain as e:
                    unc = e
            if unc is not None:
                raise unc
            return False
        if op == "not":
            return not ev(a[0])
        if op == "implies":
            try:
                if not ev(a[0]):
                    return True
            except Uncertain:
                if ev(a[1]):
                    return True
                raise
            return bool(ev(a[1]))
        if op == "xor":
            return bool(ev(a[0])) != bool(ev(a[1]))
        if op == "ite":
            try:
                c0 = ev(a[0])
            except Uncertain:
                # |x| at x ~ 0, clamp at the bound, ...: both branches agree up to rounding
                x, y = ev(a[1]), ev(a[2])
                if isinstance(x, bool) or isinstance(y, bool):
                    if x == y:
                        return x
                    raise
                if abs(float(x) - float(y)) < _NUM_EPS * max(1.0, abs(float(x))):
                    return float(x)
                raise
            return ev(a[1]) if c0 else ev(a[2])
        if op == "uf":
            f = _UF_NUM.get(n.val)
            if f is None:
                raise Uncertain(n.val)
            return f(*[float(ev(c)) for c in a])
        raise Uncertain("op %s" % n.val)

    try:
        return ev(root)
    except (OverflowError, ValueError, ZeroDivisionError, RecursionError):
        raise Uncertain("arith")


_UNC = object()
