"""SymT: a torch.Tensor wrapper subclass with a symbolic payload, and SymMode,
the TorchDispatchMode that evaluates every ATen operator on such payloads.

Geometry (sizes, strides, storage offset, dtype, view-ness, broadcasting) of
every result is obtained by running the *same ATen operator on meta-device
shadow tensors*, i.e. it is decided by torch.  The payload lives in a flat numpy
object array (`store`) shared by all aliases of one storage.
"""
from __future__ import annotations

import math
from fractions import Fraction

import numpy as np
import torch
from torch.utils._python_dispatch import TorchDispatchMode

import z3

from . import term as T
from .explore import EngineGap, Unwound

aten = torch.ops.aten

OPS_SEEN = {}
FALLBACKS = {}
NOTES = []


def _meta_like(t):
    with torch._C._DisableTorchDispatch():
        return torch.empty_strided(tuple(t.shape), tuple(t.stride()), dtype=t.dtype, device="meta")


def meta_empty(shape, dtype):
    with torch._C._DisableTorchDispatch():
        return torch.empty(tuple(shape), dtype=dtype, device="meta")


def _storage_len(m):
    try:
        return m.untyped_storage().nbytes() // max(m.element_size(), 1)
    except Exception:
        n = 1
        for s, st in zip(m.shape, m.stride()):
            if s == 0:
                return 0
            n += (s - 1) * st
        return n + m.storage_offset()


class SymT(torch.Tensor):
    @staticmethod
    def __new__(cls, store, meta, requires_grad=False):
        r = torch.Tensor._make_wrapper_subclass(
            cls,
            meta.shape,
            strides=meta.stride(),
            storage_offset=meta.storage_offset(),
            dtype=meta.dtype,
            device="cpu",
            requires_grad=requires_grad,
        )
        r.store = store
        r.meta = meta
        return r

    __torch_function__ = torch._C._disabled_torch_function_impl

    @classmethod
    def __torch_dispatch__(cls, func, types, args=(), kwargs=None):
        return dispatch(func, args, kwargs or {})

    # ---- payload access -------------------------------------------------
    def arr(self):
        m = self.meta
        off = m.storage_offset()
        return np.lib.stride_tricks.as_strided(
            self.store[off:], shape=tuple(m.shape), strides=tuple(8 * s for s in m.stride())
        )

    def terms(self):
        """nested python list of payload elements"""
        return self.arr().tolist()

    def flat(self):
        return list(self.arr().reshape(-1)) if self.meta.numel() else []

    def is_concrete(self):
        return all(T.is_conc(x) for x in self.flat())

    # ---- python-visible conversions --------------------------------------
    def item(self):
        if self.meta.numel() != 1:
            raise RuntimeError("a Tensor with %d elements cannot be converted to Scalar" % self.meta.numel())
        x = self.flat()[0]
        return elem_to_python(x, self.meta.dtype)

    def tolist(self):
        def conv(a):
            if isinstance(a, list):
                return [conv(x) for x in a]
            return elem_to_python(a, self.meta.dtype)

        return conv(self.arr().tolist())

    def __bool__(self):
        if self.meta.numel() != 1:
            raise RuntimeError("Boolean value of Tensor with more than one value is ambiguous")
        return T.ctx().decide(T.truth(self.flat()[0]))

    def __int__(self):
        if self.meta.numel() != 1:
            raise ValueError("only one element tensors can be converted to Python scalars")
        return int(SymScalar.wrap(self.flat()[0]))

    def __index__(self):
        return self.__int__()

    def __float__(self):
        x = self.flat()[0]
        if T.is_conc(x):
            return float(x)
        raise EngineGap("float() of a symbolic tensor element")

    def __repr__(self):
        return "SymT(%s, shape=%s)" % (str(self.meta.dtype), tuple(self.meta.shape))

    __str__ = __repr__

    def __format__(self, spec):
        return repr(self)

    def __hash__(self):
        return id(self)

    def __deepcopy__(self, memo):
        r = SymT(self.store.copy(), _meta_like(self.meta), requires_grad=self.requires_grad)
        if isinstance(self, torch.nn.Parameter):
            r = torch.nn.Parameter(r, self.requires_grad)
        memo[id(self)] = r
        return r

    def numpy(self):
        if self.is_concrete():
            return to_real(self).numpy()
        raise EngineGap(".numpy() of a symbolic tensor")

    def __array__(self, dtype=None):
        a = self.numpy()
        return a.astype(dtype) if dtype is not None else a


def elem_to_python(x, dtype=None):
    if T.is_conc(x):
        if isinstance(x, Fraction):
            return float(x)
        return x
    return SymScalar(x)


# --------------------------------------------------------------------------
# SymScalar: python-level symbolic number (result of .item())
# --------------------------------------------------------------------------


class SymScalar:
    __slots__ = ("t",)

    def __init__(self, t):
        self.t = t

    @staticmethod
    def wrap(x):
        return x if isinstance(x, SymScalar) else SymScalar(x)

    @staticmethod
    def un(x):
        if isinstance(x, SymScalar):
            return x.t
        if isinstance(x, SymT):
            if x.meta.numel() != 1:
                raise TypeError("SymScalar op with non-scalar tensor")
            return x.flat()[0]
        if isinstance(x, torch.Tensor):
            return T.exact(x.item())
        return T.exact(x)

    @classmethod
    def __torch_function__(cls, func, types, args=(), kwargs=None):
        kwargs = kwargs or {}

        def conv(a):
            if isinstance(a, SymScalar):
                return scalar_tensor(a.t)
            if isinstance(a, (list, tuple)):
                return type(a)(conv(x) for x in a)
            return a

        return func(*[conv(a) for a in args], **{k: conv(v) for k, v in kwargs.items()})

    def _bin(self, o, f, rev=False):
        if isinstance(o, torch.Tensor):
            # let torch handle it (keeps the autograd graph of the tensor operand)
            return NotImplemented
        a, b = self.t, SymScalar.un(o)
        if rev:
            a, b = b, a
        r = f(a, b)
        return r if T.is_conc(r) and not isinstance(r, Fraction) else (float(r) if isinstance(r, Fraction) else SymScalar(r))

    def __add__(self, o):
        return self._bin(o, T.add)

    def __radd__(self, o):
        return self._bin(o, T.add, True)

    def __sub__(self, o):
        return self._bin(o, T.sub)

    def __rsub__(self, o):
        return self._bin(o, T.sub, True)

    def __mul__(self, o):
        return self._bin(o, T.mul)

    def __rmul__(self, o):
        return self._bin(o, T.mul, True)

    def __truediv__(self, o):
        return self._bin(o, T.div)

    def __rtruediv__(self, o):
        return self._bin(o, T.div, True)

    def __floordiv__(self, o):
        return self._bin(o, _floordiv)

    def __rfloordiv__(self, o):
        return self._bin(o, _floordiv, True)

    def __mod__(self, o):
        return self._bin(o, _mod)

    def __rmod__(self, o):
        return self._bin(o, _mod, True)

    def __neg__(self):
        return SymScalar(T.neg(self.t))

    def __pos__(self):
        return self

    def __abs__(self):
        return SymScalar(T.absv(self.t))

    def __pow__(self, o):
        if isinstance(o, int):
            return SymScalar(T.powi(self.t, o))
        if isinstance(o, float) and o == 0.5:
            return SymScalar(T.sqrt(self.t))
        raise EngineGap("SymScalar ** %r" % (o,))

    def __lt__(self, o):
        return self._bin(o, T.lt)

    def __le__(self, o):
        return self._bin(o, T.le)

    def __gt__(self, o):
        return self._bin(o, T.gt)

    def __ge__(self, o):
        return self._bin(o, T.ge)

    def __eq__(self, o):
        if isinstance(o, (SymScalar, int, float, Fraction, bool, torch.Tensor)):
            return self._bin(o, T.eq)
        return False

    def __ne__(self, o):
        if isinstance(o, (SymScalar, int, float, Fraction, bool, torch.Tensor)):
            return self._bin(o, T.ne)
        return True

    def __hash__(self):
        return id(self)

    def __bool__(self):
        return T.ctx().decide(T.truth(self.t))

    def __int__(self):
        t = self.t
        if T.is_conc(t):
            return int(t)
        if z3.is_bool(t):
            return int(T.ctx().decide(t))
        if not z3.is_int(t):
            d = T.ctx().defsym.get(_strip_toreal(t).get_id()) if T.is_sym(_strip_toreal(t)) else None
            tt = _strip_toreal(t)
            if z3.is_int(tt):
                t = tt
            else:
                t = T.trunc_int(t)
        return T.ctx().decide_int(t, lo=SymScalar.INT_LO, hi=SymScalar.INT_HI)

    INT_LO = 0
    INT_HI = 12

    def __index__(self):
        return self.__int__()

    def __float__(self):
        if T.is_conc(self.t):
            return float(self.t)
        raise EngineGap("float() of a symbolic scalar")

    def __ceil__(self):
        return int(SymScalar(T.ceil_int(self.t)))

    def __floor__(self):
        return int(SymScalar(T.floor_int(self.t)))

    def __trunc__(self):
        return self.__int__()

    def __round__(self, n=None):
        raise EngineGap("round() of a symbolic scalar")

    def __repr__(self):
        return "SymScalar(%s)" % (self.t,)

    def item(self):
        return self


def _floordiv(a, b):
    if T.is_conc(a) and T.is_conc(b):
        return a // b
    ia = T.is_conc(a) and isinstance(a, int) or (T.is_sym(a) and z3.is_int(a))
    ib = T.is_conc(b) and isinstance(b, int) or (T.is_sym(b) and z3.is_int(b))
    if ia and ib:
        # z3 integer division is floor division for positive divisors; record that
        bz = b if T.is_sym(b) else z3.IntVal(b)
        az = a if T.is_sym(a) else z3.IntVal(a)
        T.ctx().oblige(bz > 0, "integer floor-division by a non-positive divisor", T._where())
        return az / bz
    return T.floor_int(T.div(a, b))


def _mod(a, b):
    if T.is_conc(a) and T.is_conc(b):
        return a % b
    bz = b if T.is_sym(b) else z3.IntVal(b)
    az = a if T.is_sym(a) else z3.IntVal(a)
    T.ctx().oblige(bz > 0, "integer modulo by a non-positive divisor", T._where())
    return az % bz


def _strip_toreal(t):
    if T.is_sym(t) and t.decl().kind() == z3.Z3_OP_TO_REAL:
        return t.arg(0)
    return t


# --------------------------------------------------------------------------
# construction helpers
# --------------------------------------------------------------------------


def _obj_array(shape, fill=None):
    a = np.empty(shape, dtype=object)
    if fill is not None or True:
        a.fill(fill)
    return a


def from_array(arr, dtype=torch.float32, requires_grad=False):
    """numpy object array (any shape) -> contiguous SymT"""
    arr = np.asarray(arr, dtype=object) if not isinstance(arr, np.ndarray) else arr
    meta = meta_empty(arr.shape, dtype)
    store = np.empty(max(arr.size, 0), dtype=object)
    if arr.size:
        store[:] = arr.reshape(-1)
    return SymT(store, meta, requires_grad=requires_grad)


def scalar_tensor(x, dtype=None):
    if dtype is None:
        if isinstance(x, bool) or (T.is_sym(x) and z3.is_bool(x)):
            dtype = torch.bool
        elif isinstance(x, int) or (T.is_sym(x) and z3.is_int(x)):
            dtype = torch.int64
        else:
            dtype = torch.get_default_dtype()
    a = np.empty((), dtype=object)
    a[()] = x
    return from_array(a, dtype)


def _nested_set(arr, idx, val):
    arr[idx] = val


def from_list(lst, dtype=None):
    """nested python list of elements (numbers / z3 terms / SymScalar / 0-d SymT)"""

    def shape_of(x):
        if isinstance(x, (list, tuple)):
            if len(x) == 0:
                return (0,)
            return (len(x),) + shape_of(x[0])
        if isinstance(x, SymT):
            return tuple(x.meta.shape)
        if isinstance(x, torch.Tensor):
            return tuple(x.shape)
        return ()

    shp = shape_of(lst)
    out = np.empty(shp, dtype=object)
    kinds = set()

    def fill(x, idx):
        if isinstance(x, (list, tuple)):
            for i, y in enumerate(x):
                fill(y, idx + (i,))
        elif isinstance(x, SymT):
            out[idx] = x.arr() if x.meta.dim() else x.flat()[0]
            kinds.add(x.meta.dtype)
        elif isinstance(x, torch.Tensor):
            v = lift(x)
            out[idx] = v.arr() if v.meta.dim() else v.flat()[0]
            kinds.add(x.dtype)
        elif isinstance(x, SymScalar):
            out[idx] = x.t
            kinds.add(_elem_kind(x.t))
        else:
            out[idx] = T.exact(x)
            kinds.add(_elem_kind(x))

    fill(lst, ())
    if dtype is None:
        if any(k in (torch.float32, torch.float64, "f") for k in kinds):
            dtype = torch.get_default_dtype()
            if torch.float64 in kinds and not any(k in (torch.float32,) for k in kinds):
                dtype = torch.float64 if torch.float64 in kinds and "f" not in kinds else dtype
        elif any(k in (torch.int64, torch.int32, "i") for k in kinds):
            dtype = torch.int64
        elif kinds and all(k in (torch.bool, "b") for k in kinds):
            dtype = torch.bool
        else:
            dtype = torch.get_default_dtype()
    return from_array(coerce(out, dtype), dtype)


def _elem_kind(x):
    if isinstance(x, bool) or (T.is_sym(x) and z3.is_bool(x)):
        return "b"
    if isinstance(x, int) or (T.is_sym(x) and z3.is_int(x)):
        return "i"
    return "f"


def lift(t):
    """real torch.Tensor -> SymT with exact concrete payload (cached per path)"""
    if isinstance(t, SymT):
        return t
    c = T.ctx()
    hit = c.lifted_cache.get(id(t))
    if hit is not None and hit[0] is t:
        return hit[1]
    if t.is_complex():
        raise EngineGap("complex real tensor")
    d = t.detach()
    vals = d.tolist() if d.dtype != torch.bool else d.tolist()
    arr = np.empty(tuple(d.shape), dtype=object)
    if d.numel():
        flat = d.reshape(-1).tolist()
        arr.reshape(-1)[:] = [T.exact(v) for v in flat] if arr.ndim else None
        if arr.ndim == 0:
            arr[()] = T.exact(flat[0])
    r = from_array(arr, d.dtype)
    c.lifted_cache[id(t)] = (t, r)
    return r


def to_real(s, dtype=None):
    """concrete SymT -> real tensor (float64 for floating dtypes)"""
    m = s.meta
    vals = s.arr().tolist()

    def conv(a):
        if isinstance(a, list):
            return [conv(x) for x in a]
        if isinstance(a, Fraction):
            return float(a)
        if T.is_sym(a):
            raise EngineGap("to_real of symbolic element")
        return a

    dt = m.dtype
    if dt.is_floating_point:
        dt = torch.float64
    if dtype is not None:
        dt = dtype
    return torch.tensor(conv(vals), dtype=dt).reshape(tuple(m.shape))


def symvec(name, shape, dtype=None, requires_grad=False):
    """SymT of fresh z3 Real constants name_i_j..."""
    dtype = dtype or torch.get_default_dtype()
    shape = tuple(shape) if not isinstance(shape, int) else (shape,)
    arr = np.empty(shape, dtype=object)
    for idx in np.ndindex(*shape):
        arr[idx] = z3.Real(name + "".join("_%d" % i for i in idx))
    return from_array(arr, dtype, requires_grad=requires_grad)


def coerce_elem(x, dtype):
    if dtype.is_floating_point:
        if isinstance(x, (bool, int)):
            return Fraction(int(x))
        if T.is_sym(x) and not z3.is_real(x):
            return T._r(x)
        return x
    if dtype == torch.bool:
        if isinstance(x, bool) or (T.is_sym(x) and z3.is_bool(x)):
            return x
        return T.truth(x)
    if dtype.is_complex:
        return x
    # integer dtypes
    if isinstance(x, bool):
        return int(x)
    if isinstance(x, int):
        return x
    if isinstance(x, Fraction):
        return math.trunc(x)
    if isinstance(x, float):
        return x
    if T.is_sym(x):
        if z3.is_bool(x):
            return z3.If(x, z3.IntVal(1), z3.IntVal(0))
        if z3.is_int(x):
            return x
        y = _strip_toreal(x)
        if z3.is_int(y):
            return y
        return T.trunc_int(x)
    return x


def coerce(arr, dtype):
    if arr.size == 0:
        return arr
    out = np.empty(arr.shape, dtype=object)
    flat_in = arr.reshape(-1)
    flat_out = out.reshape(-1)
    for i in range(flat_in.shape[0]):
        flat_out[i] = coerce_elem(flat_in[i], dtype)
    return out


# --------------------------------------------------------------------------
# dispatcher
# --------------------------------------------------------------------------

KERNELS = {}  # packet name -> kernel(mo, *args, **kwargs) -> ndarray | tuple
SPECIAL = {}  # packet name -> handler(func, args, kwargs) -> result (full control)


def kernel(*names):
    def deco(f):
        for n in names:
            KERNELS[n] = f
        return f

    return deco


def special(*names):
    def deco(f):
        for n in names:
            SPECIAL[n] = f
        return f

    return deco


def _packet_name(func):
    return func._schema.name.split("::", 1)[1]


def _tree_map(f, x):
    if isinstance(x, (list, tuple)):
        return type(x)(_tree_map(f, y) for y in x)
    if isinstance(x, dict):
        return {k: _tree_map(f, v) for k, v in x.items()}
    return f(x)


def _has_tensor(x):
    found = [False]

    def f(a):
        if isinstance(a, torch.Tensor):
            found[0] = True
        return a

    _tree_map(f, x)
    return found[0]


def dispatch(func, args, kwargs):
    ns = func._schema.name.split("::", 1)[0]
    if ns != "aten":
        if ns == "profiler":
            return func(*args, **kwargs)
        if ns == "prim":
            name = _packet_name(func)
            if name == "device":
                return torch.device("cpu")
        raise EngineGap("non-aten operator %s" % func)
    name = _packet_name(func)
    OPS_SEEN[name] = OPS_SEEN.get(name, 0) + 1
    if T.CTX is not None:
        T.CTX.watchdog()

    # every tensor becomes symbolic; SymScalars become 0-d tensors / elements
    def conv(a):
        if isinstance(a, torch.Tensor) and not isinstance(a, SymT):
            if a.device.type == "meta":
                return a
            return lift(a)
        return a

    args = _tree_map(conv, args)
    kwargs = _tree_map(conv, kwargs)

    sp = SPECIAL.get(name)
    if sp is not None:
        r = sp(func, args, kwargs)
        if r is not NotImplemented:
            return r

    # ---- run on meta shadows: geometry, dtype, aliasing come from torch ----
    def to_meta(a):
        if isinstance(a, SymT):
            return a.meta
        if isinstance(a, SymScalar):
            return _scalar_standin(a)
        if isinstance(a, torch.device):
            return torch.device("meta")
        return a

    margs = _tree_map(to_meta, args)
    mkwargs = _tree_map(to_meta, kwargs)
    if "device" in mkwargs and mkwargs["device"] is not None:
        mkwargs["device"] = torch.device("meta")
    elif not _has_tensor((args, kwargs)) and any(a.name == "device" for a in func._schema.arguments):
        mkwargs["device"] = torch.device("meta")
    try:
        mo = func(*margs, **mkwargs)
    except NotImplementedError as e:
        raise EngineGap("no meta kernel for %s: %s" % (func, e))

    schema = func._schema
    mutated = None
    if schema.is_mutable:
        for i, a in enumerate(schema.arguments):
            if a.alias_info is not None and a.alias_info.is_write:
                mutated = args[i] if i < len(args) else kwargs.get(a.name)
                break

    base = name
    if mutated is not None and name.endswith("_") and not name.endswith("__"):
        base = name[:-1]

    # pure view ops: no kernel needed
    if mutated is None and isinstance(mo, torch.Tensor):
        src = _alias_source(mo, args, kwargs)
        if src is not None:
            if mo is src.meta:
                return src
            return SymT(src.store, mo)
    if mutated is None and isinstance(mo, (list, tuple)) and len(mo) and all(isinstance(m, torch.Tensor) for m in mo):
        srcs = [_alias_source(m, args, kwargs) for m in mo]
        if all(s is not None for s in srcs):
            return type(mo)(SymT(s.store, m) for s, m in zip(srcs, mo))

    k = KERNELS.get(base)
    if k is None:
        return _fallback(func, name, args, kwargs, mo, mutated)

    def to_payload(a):
        if isinstance(a, SymT):
            return a.arr()
        if isinstance(a, SymScalar):
            return a.t
        if isinstance(a, (bool, int)):
            return a
        if isinstance(a, float):
            return T.exact(a)
        return a

    pargs = _tree_map(to_payload, args)
    pkwargs = _tree_map(to_payload, kwargs)
    if mutated is not None and "out" in pkwargs and kwargs.get("out") is mutated:
        pkwargs.pop("out")  # out= overload: the functional kernel computes, the result is stored into `out` below
    res = k(mo, *pargs, **pkwargs)

    if mutated is not None:
        if isinstance(res, tuple):
            raise EngineGap("mutable op with several outputs: %s" % func)
        dst = mutated.arr()
        res = coerce(np.broadcast_to(_as_arr(res), dst.shape), mutated.meta.dtype)
        if dst.size:
            dst[...] = res
        return mutated if isinstance(mo, torch.Tensor) else None
    return _wrap_out(mo, res)


def _scalar_standin(a):
    t = a.t
    if T.is_sym(t) and z3.is_bool(t):
        return True
    if T.is_sym(t) and z3.is_int(t):
        return 1
    return 1.0


def _as_arr(x):
    if isinstance(x, np.ndarray):
        return x
    a = np.empty((), dtype=object)
    a[()] = x
    return a


def _alias_source(m, args, kwargs):
    """the SymT argument whose storage the meta output m aliases, if any"""
    try:
        cd = m.untyped_storage()._cdata
    except Exception:
        return None
    found = [None]

    def f(a):
        if found[0] is None and isinstance(a, SymT):
            try:
                if a.meta.untyped_storage()._cdata == cd:
                    found[0] = a
            except Exception:
                pass
        return a

    _tree_map(f, (args, kwargs))
    return found[0]


def new_from(mo, res):
    """allocate a store with mo's geometry and fill it with res"""
    res = _as_arr(res)
    n = _storage_len(mo)
    store = np.empty(n, dtype=object)
    out = SymT(store, mo)
    if mo.numel():
        dst = out.arr()
        if tuple(res.shape) != tuple(mo.shape):
            try:
                res = np.broadcast_to(res, tuple(mo.shape))
            except ValueError:
                raise EngineGap("kernel result shape %s does not fit meta shape %s" % (res.shape, tuple(mo.shape)))
        dst[...] = coerce(res, mo.dtype)
    return out


def _wrap_out(mo, res):
    if isinstance(mo, torch.Tensor):
        return new_from(mo, res)
    if isinstance(mo, (list, tuple)):
        if not isinstance(res, (list, tuple)) or len(res) != len(mo):
            raise EngineGap("kernel returned wrong number of outputs")
        return type(mo)(new_from(m, r) if isinstance(m, torch.Tensor) else m for m, r in zip(mo, res))
    return mo


def _fallback(func, name, args, kwargs, mo, mutated):
    """no symbolic kernel: allowed only on fully concrete inputs (float64 real torch)"""
    ok = [True]

    def chk(a):
        if isinstance(a, SymT) and not a.is_concrete():
            ok[0] = False
        if isinstance(a, SymScalar):
            ok[0] = False
        return a

    _tree_map(chk, (args, kwargs))
    if not ok[0]:
        raise EngineGap("no symbolic kernel for %s" % func)
    FALLBACKS[name] = FALLBACKS.get(name, 0) + 1

    def real(a):
        if isinstance(a, SymT):
            return to_real(a)
        return a

    rargs = _tree_map(real, args)
    rkwargs = _tree_map(real, kwargs)
    if "dtype" in rkwargs and isinstance(rkwargs["dtype"], torch.dtype) and rkwargs["dtype"].is_floating_point:
        rkwargs["dtype"] = torch.float64
    ro = func(*rargs, **rkwargs)
    if mutated is not None:
        src = ro if isinstance(ro, torch.Tensor) else None
        if src is None:
            raise EngineGap("fallback for mutable op without tensor result: %s" % func)
        dst = mutated.arr()
        l = lift_nocache(src)
        dst[...] = coerce(l.arr(), mutated.meta.dtype)
        return mutated

    def back(r, m):
        if isinstance(r, torch.Tensor):
            return new_from(m, lift_nocache(r).arr())
        return r

    if isinstance(ro, torch.Tensor):
        return back(ro, mo)
    if isinstance(ro, (list, tuple)):
        return type(ro)(back(r, m) for r, m in zip(ro, mo))
    return ro


def lift_nocache(t):
    d = t.detach()
    arr = np.empty(tuple(d.shape), dtype=object)
    if d.numel():
        flat = [T.exact(v) for v in d.reshape(-1).tolist()]
        if arr.ndim == 0:
            arr[()] = flat[0]
        else:
            arr.reshape(-1)[:] = flat
    return from_array(arr, d.dtype)


class SymMode(TorchDispatchMode):
    def __torch_dispatch__(self, func, types, args=(), kwargs=None):
        return dispatch(func, args, kwargs or {})


# --------------------------------------------------------------------------
# patching torch.tensor / as_tensor for lists containing symbolic scalars
# --------------------------------------------------------------------------

_orig_tensor = torch.tensor
_orig_as_tensor = torch.as_tensor


def _contains_sym(x):
    if isinstance(x, (SymScalar, SymT)):
        return True
    if isinstance(x, (list, tuple)):
        return any(_contains_sym(y) for y in x)
    return False


def _patched_tensor(data, *a, **kw):
    if isinstance(data, (list, tuple)) and _contains_sym(data):
        r = from_list(data, kw.get("dtype"))
        if kw.get("requires_grad"):
            r.requires_grad_(True)
        return r
    if isinstance(data, SymScalar):
        return scalar_tensor(data.t, kw.get("dtype"))
    if isinstance(data, SymT):
        r = data.detach().clone()
        if kw.get("dtype") is not None and kw["dtype"] != r.dtype:
            r = r.to(kw["dtype"])
        return r
    return _orig_tensor(data, *a, **kw)


def _patched_as_tensor(data, *a, **kw):
    if isinstance(data, (list, tuple)) and _contains_sym(data):
        return from_list(data, kw.get("dtype"))
    if isinstance(data, SymScalar):
        return scalar_tensor(data.t, kw.get("dtype"))
    return _orig_as_tensor(data, *a, **kw)


class patched_torch:
    """context manager: SymMode + torch.tensor/as_tensor patches + silence warnings"""

    def __enter__(self):
        import warnings

        self.mode = SymMode()
        self.mode.__enter__()
        torch.tensor = _patched_tensor
        torch.as_tensor = _patched_as_tensor
        self._w = warnings.catch_warnings()
        self._w.__enter__()
        warnings.simplefilter("ignore")
        return self

    def __exit__(self, *exc):
        self._w.__exit__(*exc)
        torch.tensor = _orig_tensor
        torch.as_tensor = _orig_as_tensor
        self.mode.__exit__(*exc)
        return False
