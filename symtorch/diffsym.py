"""Symbolic differentiation of payload terms w.r.t. a base variable (e.g. a random draw),
through the definitions of the engine's defined symbols (sqrt, roots, cos/sin, quotients, arccos).
Used by C11 (change-of-variables checks).  Requires an active path context (new defined symbols,
e.g. the sin partner of a cos, are looked up / created there)."""
from __future__ import annotations

from fractions import Fraction

import z3

from . import term as T


def d(t, var, memo=None):
    """d t / d var as a payload element (Fraction or z3 term)"""
    if memo is None:
        memo = {}
    if not T.is_sym(t):
        return Fraction(0)
    key = t.get_id()
    if key in memo:
        return memo[key]
    r = _d(t, var, memo)
    memo[key] = r
    return r


def _d(t, var, memo):
    c = T.ctx()
    if z3.is_rational_value(t) or z3.is_int_value(t) or z3.is_algebraic_value(t):
        return Fraction(0)
    k = t.decl().kind()
    ch = t.children()
    if k == z3.Z3_OP_UNINTERPRETED:
        if not ch:
            if t.eq(var):
                return Fraction(1)
            df = c.defsym.get(t.get_id())
            if df is None:
                return Fraction(0)
            kind = df[0]
            if kind == "sqrt":
                da = d(df[1], var, memo) if T.is_sym(df[1]) else Fraction(0)
                if T.is_conc(da) and da == 0:
                    return Fraction(0)
                return T.div(da, T.mul(2, t))
            if kind == "root":
                q, a = df[1], df[2]
                da = d(a, var, memo) if T.is_sym(a) else Fraction(0)
                if T.is_conc(da) and da == 0:
                    return Fraction(0)
                return T.div(da, T.mul(q, T.powi(t, q - 1)))
            if kind in ("cos", "sin"):
                a = df[1]
                da = d(a, var, memo) if T.is_sym(a) else Fraction(0)
                if T.is_conc(da) and da == 0:
                    return Fraction(0)
                co, si = T.cossin(a)
                return T.mul(T.neg(si), da) if kind == "cos" else T.mul(co, da)
            if kind == "div":
                a, b = df[1], df[2]
                da = d(a, var, memo) if T.is_sym(a) else Fraction(0)
                db = d(b, var, memo) if T.is_sym(b) else Fraction(0)
                num = T.sub(da, T.mul(t, db))
                if T.is_conc(num) and num == 0:
                    return Fraction(0)
                return T.div(num, b)
            if kind == "arccos":
                w = df[1]
                dw = d(w, var, memo) if T.is_sym(w) else Fraction(0)
                if T.is_conc(dw) and dw == 0:
                    return Fraction(0)
                return T.neg(T.div(dw, T.sqrt(T.sub(Fraction(1), T.sq(w)))))
            if kind in ("floor", "ceil", "trunc"):
                return Fraction(0)
            raise NotImplementedError("derivative of defined symbol %s" % kind)
        name = t.decl().name()
        a = ch[0]
        da = d(a, var, memo)
        if T.is_conc(da) and da == 0:
            return Fraction(0)
        if name == "tanh":
            return T.mul(T.sub(Fraction(1), T.sq(t)), da)
        if name == "exp":
            return T.mul(t, da)
        if name == "sigmoid":
            return T.mul(T.mul(t, T.sub(Fraction(1), t)), da)
        raise NotImplementedError("derivative of %s" % name)
    if k == z3.Z3_OP_ADD:
        r = Fraction(0)
        for x in ch:
            r = T.add(r, d(x, var, memo))
        return r
    if k == z3.Z3_OP_SUB:
        r = d(ch[0], var, memo)
        for x in ch[1:]:
            r = T.sub(r, d(x, var, memo))
        return r
    if k == z3.Z3_OP_UMINUS:
        return T.neg(d(ch[0], var, memo))
    if k == z3.Z3_OP_MUL:
        r = Fraction(0)
        for i, x in enumerate(ch):
            dx = d(x, var, memo)
            if T.is_conc(dx) and dx == 0:
                continue
            term = dx
            for j, y in enumerate(ch):
                if j != i:
                    term = T.mul(term, y)
            r = T.add(r, term)
        return r
    if k == z3.Z3_OP_DIV:
        a, b = ch
        da, db = d(a, var, memo), d(b, var, memo)
        if T.is_conc(db) and db == 0:
            return T.div(da, b) if not (T.is_conc(da) and da == 0) else Fraction(0)
        return T.div(T.sub(T.mul(da, b), T.mul(a, db)), T.mul(b, b))
    if k == z3.Z3_OP_ITE:
        a, b = d(ch[1], var, memo), d(ch[2], var, memo)
        return T.ite(ch[0], a, b)
    if k == z3.Z3_OP_TO_REAL:
        return Fraction(0)
    if k == z3.Z3_OP_POWER:
        base, e = ch
        if z3.is_rational_value(e) and e.denominator_as_long() == 1:
            n = e.numerator_as_long()
            return T.mul(T.mul(n, T.powi(base, n - 1)), d(base, var, memo))
    raise NotImplementedError("derivative through %s" % t.decl().name())


def jacobian(outs, ins):
    """matrix [d out_i / d in_j] of payload elements"""
    memo_by_var = [dict() for _ in ins]
    return [[d(o, v, memo_by_var[j]) if T.is_sym(o) else Fraction(0) for j, v in enumerate(ins)] for o in outs]


def det(m):
    n = len(m)
    if n == 1:
        return m[0][0]
    if n == 2:
        return T.sub(T.mul(m[0][0], m[1][1]), T.mul(m[0][1], m[1][0]))
    acc = Fraction(0)
    for j in range(n):
        minor = [[m[i][c] for c in range(n) if c != j] for i in range(1, n)]
        t = T.mul(m[0][j], det(minor))
        acc = T.add(acc, t) if j % 2 == 0 else T.sub(acc, t)
    return acc


def norm2(v):
    acc = Fraction(0)
    for x in v:
        acc = T.add(acc, T.sq(x))
    return acc
