"""ATen kernel table over symbolic payloads (mathematical definitions over R).

A kernel receives the meta output(s) `mo` (shape / dtype decided by torch) and
the arguments with tensors replaced by numpy object arrays; it returns a numpy
object array broadcastable to mo's shape.
"""
from __future__ import annotations

import itertools
import math
from fractions import Fraction

import numpy as np
import torch
import z3

from . import term as T
from .explore import EngineGap, Unwound
from .symt import (
    KERNELS,
    SPECIAL,
    SymScalar,
    SymT,
    _as_arr,
    coerce,
    from_array,
    kernel,
    meta_empty,
    new_from,
    special,
    scalar_tensor,
    _wrap_out,
)

# --------------------------------------------------------------------------
# helpers
# --------------------------------------------------------------------------


def A(x):
    """scalar or array -> object ndarray"""
    if isinstance(x, np.ndarray):
        return x
    a = np.empty((), dtype=object)
    a[()] = T.exact(x) if not T.is_sym(x) else x
    return a


def ew(f, *xs):
    xs = [A(x) for x in xs]
    bs = np.broadcast_arrays(*xs) if len(xs) > 1 else xs
    out = np.empty(bs[0].shape, dtype=object)
    if out.size == 0:
        return out
    its = [b.reshape(-1) if b.ndim else b.reshape(1) for b in bs]
    fo = out.reshape(-1) if out.ndim else out.reshape(1)
    if out.ndim == 0:
        out[()] = f(*[b[()] for b in bs])
        return out
    # reshape(-1) of a broadcast view copies, which is fine for reading
    for i in range(fo.shape[0]):
        fo[i] = f(*[it[i] for it in its])
    return out


def fold(f, seq, init=None):
    it = iter(seq)
    acc = next(it) if init is None else init
    for x in it:
        acc = f(acc, x)
    return acc


def _dims(dim, nd):
    if dim is None or (isinstance(dim, (list, tuple)) and len(dim) == 0):
        return tuple(range(nd))
    if isinstance(dim, int):
        dim = [dim]
    return tuple(sorted(d % nd if nd else 0 for d in dim))


def reduce_arr(a, dim, keepdim, f, init=None):
    a = A(a)
    nd = a.ndim
    if nd == 0:
        out = np.empty((), dtype=object)
        out[()] = a[()] if init is None else f(init, a[()])
        return out
    dims = _dims(dim, nd)
    keep = [d for d in range(nd) if d not in dims]
    perm = keep + list(dims)
    b = a.transpose(perm)
    kshape = tuple(a.shape[d] for d in keep)
    red = 1
    for d in dims:
        red *= a.shape[d]
    b = b.reshape(kshape + (red,))
    out = np.empty(kshape, dtype=object)
    for idx in np.ndindex(*kshape):
        row = list(b[idx])
        if not row:
            if init is None:
                raise EngineGap("reduction over empty axis without identity")
            out[idx] = init
        else:
            out[idx] = fold(f, row, init)
    if keepdim:
        shp = [1 if d in dims else a.shape[d] for d in range(nd)]
        out = out.reshape(shp)
    return out


# --------------------------------------------------------------------------
# pointwise
# --------------------------------------------------------------------------


@kernel("add")
def k_add(mo, a, b, alpha=1):
    if alpha != 1:
        al = T.exact(alpha)
        return ew(lambda x, y: T.add(x, T.mul(al, y)), a, b)
    return ew(T.add, a, b)


@kernel("sub")
def k_sub(mo, a, b, alpha=1):
    if alpha != 1:
        al = T.exact(alpha)
        return ew(lambda x, y: T.sub(x, T.mul(al, y)), a, b)
    return ew(T.sub, a, b)


@kernel("rsub")
def k_rsub(mo, a, b, alpha=1):
    return k_sub(mo, b, a, alpha)


@kernel("mul")
def k_mul(mo, a, b):
    return ew(T.mul, a, b)


def _int_out(mo):
    return not (mo.dtype.is_floating_point or mo.dtype.is_complex) and mo.dtype != torch.bool


@kernel("div", "true_divide")
def k_div(mo, a, b, rounding_mode=None):
    if rounding_mode is None:
        return ew(T.div, a, b)
    if rounding_mode == "floor":
        return ew(lambda x, y: _floor_elem(T.div(x, y)), a, b)
    if rounding_mode == "trunc":
        return ew(lambda x, y: _trunc_elem(T.div(x, y)), a, b)
    raise EngineGap("div rounding_mode %r" % rounding_mode)


def _floor_elem(x):
    r = T.floor_int(x)
    return r


def _trunc_elem(x):
    return T.trunc_int(x)


@kernel("floor_divide")
def k_floordiv(mo, a, b):
    return ew(lambda x, y: _floor_elem(T.div(x, y)), a, b)


@kernel("remainder", "fmod")
def k_rem(mo, a, b):
    def f(x, y):
        if T.is_conc(x) and T.is_conc(y):
            return x % y
        if T.is_sym(x) and z3.is_int(x) and isinstance(y, int):
            return x % y
        raise EngineGap("remainder on symbolic reals")

    return ew(f, a, b)


@kernel("neg")
def k_neg(mo, a):
    return ew(T.neg, a)


@kernel("abs")
def k_abs(mo, a):
    return ew(T.absv, a)


@kernel("sqrt")
def k_sqrt(mo, a):
    return ew(T.sqrt, a)


@kernel("rsqrt")
def k_rsqrt(mo, a):
    return ew(lambda x: T.div(Fraction(1), T.sqrt(x)), a)


@kernel("reciprocal")
def k_recip(mo, a):
    return ew(lambda x: T.div(Fraction(1), x), a)


@kernel("square")
def k_square(mo, a):
    return ew(T.sq, a)


@kernel("cos")
def k_cos(mo, a):
    return ew(T.cos, a)


@kernel("sin")
def k_sin(mo, a):
    return ew(T.sin, a)


@kernel("acos", "arccos")
def k_acos(mo, a):
    return ew(T.arccos, a)


@kernel("tanh")
def k_tanh(mo, a):
    return ew(T.tanh, a)


@kernel("tanh_backward")
def k_tanh_bw(mo, go, y):
    return ew(lambda g, yy: T.mul(g, T.sub(Fraction(1), T.sq(yy))), go, y)


@kernel("exp")
def k_exp(mo, a):
    return ew(T.exp, a)


@kernel("log")
def k_log(mo, a):
    return ew(T.log, a)


@kernel("sigmoid")
def k_sigmoid(mo, a):
    return ew(T.sigmoid, a)


@kernel("sigmoid_backward")
def k_sigmoid_bw(mo, go, y):
    return ew(lambda g, yy: T.mul(g, T.mul(yy, T.sub(Fraction(1), yy))), go, y)


@kernel("relu")
def k_relu(mo, a):
    return ew(lambda x: T.ite(T.gt(x, 0), x, Fraction(0)), a)


@kernel("threshold_backward")
def k_thr_bw(mo, go, x, threshold):
    th = T.exact(threshold)
    return ew(lambda g, xx: T.ite(T.le(xx, th), Fraction(0), g), go, x)


@kernel("sign", "sgn")
def k_sign(mo, a):
    return ew(T.sign, a)


@kernel("floor")
def k_floor(mo, a):
    return ew(lambda x: T.to_float_elem(T.floor_int(x)), a)


@kernel("ceil")
def k_ceil(mo, a):
    return ew(lambda x: T.to_float_elem(T.ceil_int(x)), a)


@kernel("trunc")
def k_trunc(mo, a):
    return ew(lambda x: T.to_float_elem(T.trunc_int(x)), a)


@kernel("round")
def k_round(mo, a, decimals=0):
    def f(x):
        if T.is_conc(x):
            return Fraction(round(x))
        raise EngineGap("round of symbolic")

    return ew(f, a)


def _pow_elem(x, p):
    if T.is_sym(p):
        raise EngineGap("symbolic exponent")
    if isinstance(p, float):
        p = Fraction(p)
    p = Fraction(p)
    if p.denominator == 1:
        return T.powi(x, int(p))
    # float literal nearest to a small rational: 1/3.0, 0.5, 1.5 ...
    q = p.limit_denominator(6)
    if abs(float(q) - float(p)) > 1e-15:
        if T.is_conc(x):
            return Fraction(float(x) ** float(p))
        raise EngineGap("irrational exponent %r" % float(p))
    r = T.root(x, q.denominator)
    return T.powi(r, q.numerator)


@kernel("pow")
def k_pow(mo, a, b):
    return ew(_pow_elem, a, b)


@kernel("clamp")
def k_clamp(mo, a, min=None, max=None):
    r = A(a)
    if min is not None:
        r = ew(T.maxv, r, min)
    if max is not None:
        r = ew(T.minv, r, max)
    return r


@kernel("clamp_min")
def k_clamp_min(mo, a, m):
    return ew(T.maxv, a, m)


@kernel("clamp_max")
def k_clamp_max(mo, a, m):
    return ew(T.minv, a, m)


@kernel("maximum", "fmax")
def k_maximum(mo, a, b):
    return ew(T.maxv, a, b)


@kernel("minimum", "fmin")
def k_minimum(mo, a, b):
    return ew(T.minv, a, b)


for _n, _f in (("eq", T.eq), ("ne", T.ne), ("lt", T.lt), ("le", T.le), ("gt", T.gt), ("ge", T.ge)):

    def _mk(f):
        def k(mo, a, b):
            return ew(f, a, b)

        return k

    KERNELS[_n] = _mk(_f)


@kernel("logical_and", "bitwise_and", "__and__")
def k_land(mo, a, b):
    return ew(T.land, a, b)


@kernel("logical_or", "bitwise_or", "__or__")
def k_lor(mo, a, b):
    return ew(T.lor, a, b)


@kernel("logical_xor", "bitwise_xor", "__xor__")
def k_lxor(mo, a, b):
    return ew(T.lxor, a, b)


@kernel("logical_not", "bitwise_not")
def k_lnot(mo, a):
    return ew(T.lnot, a)


@kernel("isnan", "isinf")
def k_isnan(mo, a):
    return ew(lambda x: isinstance(x, float) and True, a)


@kernel("isfinite")
def k_isfinite(mo, a):
    return ew(lambda x: not isinstance(x, float), a)


@kernel("where")
def k_where(mo, c, a, b):
    return ew(T.ite, c, a, b)


@kernel("lerp")
def k_lerp(mo, a, b, w):
    return ew(lambda x, y, ww: T.add(x, T.mul(ww, T.sub(y, x))), a, b, w)


@kernel("addcmul")
def k_addcmul(mo, a, t1, t2, value=1):
    v = T.exact(value)
    return ew(lambda x, y, z: T.add(x, T.mul(v, T.mul(y, z))), a, t1, t2)


@kernel("addcdiv")
def k_addcdiv(mo, a, t1, t2, value=1):
    v = T.exact(value)
    return ew(lambda x, y, z: T.add(x, T.mul(v, T.div(y, z))), a, t1, t2)


@kernel("masked_fill")
def k_masked_fill(mo, a, mask, value):
    return ew(lambda x, m, v: T.ite(m, v, x), a, mask, value)


# --------------------------------------------------------------------------
# copies / casts / factories
# --------------------------------------------------------------------------


@kernel("clone", "_to_copy", "contiguous", "alias_copy", "detach_copy", "lift_fresh_copy", "positive")
def k_clone(mo, a, **kw):
    src = A(a)
    if mo.dtype.is_floating_point or mo.dtype == torch.bool or mo.dtype.is_complex:
        return src
    # float -> int truncation
    return src


@kernel("copy")
def k_copy(mo, dst, src, non_blocking=False):
    return A(src)


@kernel("fill")
def k_fill(mo, a, v):
    return A(v)


@kernel("zero")
def k_zero(mo, a):
    return A(0)


@kernel("zeros", "zeros_like", "new_zeros")
def k_zeros(mo, *a, **kw):
    return A(0)


@kernel("ones", "ones_like", "new_ones")
def k_ones(mo, *a, **kw):
    return A(1)


@kernel("empty", "empty_like", "new_empty", "empty_strided", "new_empty_strided")
def k_empty(mo, *a, **kw):
    return A(0)


@kernel("full", "new_full")
def k_full(mo, *a, **kw):
    # full(size, fill_value) / new_full(self, size, fill_value)
    v = a[1] if not isinstance(a[0], np.ndarray) else a[2]
    return A(v)


@kernel("full_like")
def k_full_like(mo, a, v, **kw):
    return A(v)


@kernel("scalar_tensor")
def k_scalar_tensor(mo, v, **kw):
    return A(v)


@kernel("arange")
def k_arange(mo, *a, **kw):
    nums = [x for x in a]
    if len(nums) == 1:
        start, end, step = 0, nums[0], 1
    elif len(nums) == 2:
        start, end, step = nums[0], nums[1], 1
    else:
        start, end, step = nums[:3]
    n = mo.shape[0]
    out = np.empty((n,), dtype=object)
    for i in range(n):
        out[i] = T.add(start, T.mul(i, step))
    return out


@kernel("linspace")
def k_linspace(mo, start, end, steps, **kw):
    n = mo.shape[0]
    out = np.empty((n,), dtype=object)
    def _sc(x):
        if isinstance(x, np.ndarray):
            x = x.reshape(-1)[0]
        if T.is_sym(x):
            return x
        if isinstance(x, float):
            return T.exact(x)
        return Fraction(T._num(x))

    s, e = _sc(start), _sc(end)
    for i in range(n):
        if n == 1:
            out[i] = s
        else:
            # start + i*(end-start)/(n-1), exact
            out[i] = T.add(s, T.mul(Fraction(i, n - 1), T.sub(e, s)))
    return out


@kernel("eye")
def k_eye(mo, *a, **kw):
    out = np.empty(tuple(mo.shape), dtype=object)
    for i, j in np.ndindex(*mo.shape):
        out[i, j] = 1 if i == j else 0
    return out


def _rand_like(mo, kind, extra=None):
    c = T.ctx()
    call = len(c.rand_calls)
    out = np.empty(tuple(mo.shape), dtype=object)
    vs = []
    for j, idx in enumerate(np.ndindex(*mo.shape)):
        v = z3.Real("%s!%d_%d" % (kind, call, j))
        if kind == "u":
            c.axiom(z3.And(v >= 0, v < 1))
        out[idx] = v
        vs.append(v)
    c.rand_calls.append((kind, tuple(mo.shape), vs, extra))
    return out


@kernel("rand", "rand_like")
def k_rand(mo, *a, **kw):
    return _rand_like(mo, "u")


@kernel("uniform")
def k_uniform(mo, a, from_=0, to=1, generator=None, **kw):
    lo = kw.get("from", from_)
    u = _rand_like(mo, "u")
    lo, to = T.exact(lo), T.exact(to)
    return ew(lambda x: T.add(lo, T.mul(x, T.sub(to, lo))), u)


@kernel("randn", "randn_like")
def k_randn(mo, *a, **kw):
    return _rand_like(mo, "g", ("std_normal",))


@kernel("normal")
def k_normal(mo, *a, **kw):
    # normal_(self, mean, std) | normal(mean_tensor, std_tensor) | normal(mean, std_tensor) ...
    mean = a[0] if len(a) > 0 else kw.get("mean", 0)
    std = a[1] if len(a) > 1 else kw.get("std", 1)
    if isinstance(mean, np.ndarray) and len(a) >= 3 and not isinstance(a[1], np.ndarray) and not T.is_sym(a[1]) and False:
        pass
    raise EngineGap("aten.normal variants are routed through special handler")


@kernel("bernoulli")
def k_bernoulli(mo, *a, **kw):
    raise EngineGap("bernoulli")


# --------------------------------------------------------------------------
# reductions
# --------------------------------------------------------------------------


@kernel("sum")
def k_sum(mo, a, dim=None, keepdim=False, dtype=None):
    z = 0 if not (mo.dtype.is_floating_point) else Fraction(0)
    return reduce_arr(a, dim, keepdim, T.add, init=z)


@kernel("mean")
def k_mean(mo, a, dim=None, keepdim=False, dtype=None):
    a = A(a)
    s = reduce_arr(a, dim, keepdim, T.add, init=Fraction(0))
    n = 1
    for d in _dims(dim, a.ndim):
        n *= a.shape[d]
    if a.ndim == 0:
        n = 1
    if n == 0:
        T.ctx().oblige(z3.BoolVal(False), "mean of empty tensor", T._where())
        return s
    return ew(lambda x: T.div(x, n), s)


@kernel("prod")
def k_prod(mo, a, dim=None, keepdim=False, dtype=None):
    return reduce_arr(a, dim, keepdim, T.mul, init=Fraction(1) if mo.dtype.is_floating_point else 1)


@kernel("amax")
def k_amax(mo, a, dim=None, keepdim=False):
    return reduce_arr(a, dim, keepdim, T.maxv)


@kernel("amin")
def k_amin(mo, a, dim=None, keepdim=False):
    return reduce_arr(a, dim, keepdim, T.minv)


@kernel("all")
def k_all(mo, a, dim=None, keepdim=False):
    return reduce_arr(ew(T.truth, a), dim, keepdim, T.land, init=True)


@kernel("any")
def k_any(mo, a, dim=None, keepdim=False):
    return reduce_arr(ew(T.truth, a), dim, keepdim, T.lor, init=False)


def _argsel(row, better):
    """index of the best element (first among ties) -- decided by forking"""
    c = T.ctx()
    best = 0
    for i in range(1, len(row)):
        if c.decide(better(row[i], row[best])):
            best = i
    return best


@kernel("max")
def k_max(mo, a, dim=None, keepdim=False):
    a = A(a)
    if dim is None:
        return reduce_arr(a, None, False, T.maxv)
    if isinstance(dim, np.ndarray):
        return ew(T.maxv, a, dim)
    return _minmax_dim(a, dim, keepdim, T.gt, T.maxv)


@kernel("min")
def k_min(mo, a, dim=None, keepdim=False):
    a = A(a)
    if dim is None:
        return reduce_arr(a, None, False, T.minv)
    if isinstance(dim, np.ndarray):
        return ew(T.minv, a, dim)
    return _minmax_dim(a, dim, keepdim, T.lt, T.minv)


def _minmax_dim(a, dim, keepdim, better, sel):
    nd = a.ndim
    d = dim % nd if nd else 0
    b = np.moveaxis(a, d, -1)
    vals = np.empty(b.shape[:-1], dtype=object)
    idxs = np.empty(b.shape[:-1], dtype=object)
    for idx in np.ndindex(*b.shape[:-1]):
        row = list(b[idx])
        i = _argsel(row, better)
        vals[idx] = row[i]
        idxs[idx] = i
    if keepdim:
        vals = np.expand_dims(vals, d)
        idxs = np.expand_dims(idxs, d)
    return vals, idxs


@kernel("argmax")
def k_argmax(mo, a, dim=None, keepdim=False):
    a = A(a)
    if dim is None:
        i = _argsel(list(a.reshape(-1)), T.gt)
        return A(i)
    return _minmax_dim(a, dim, keepdim, T.gt, T.maxv)[1]


@kernel("argmin")
def k_argmin(mo, a, dim=None, keepdim=False):
    a = A(a)
    if dim is None:
        i = _argsel(list(a.reshape(-1)), T.lt)
        return A(i)
    return _minmax_dim(a, dim, keepdim, T.lt, T.minv)[1]


@kernel("linalg_vector_norm")
def k_vnorm(mo, a, ord=2, dim=None, keepdim=False, dtype=None):
    a = A(a)
    if isinstance(ord, (int, Fraction)) and ord == 2 or ord == 2.0:
        s = reduce_arr(ew(T.sq, a), dim, keepdim, T.add, init=Fraction(0))
        return ew(T.sqrt, s)
    if ord == 1:
        return reduce_arr(ew(T.absv, a), dim, keepdim, T.add, init=Fraction(0))
    if isinstance(ord, float) and ord == math.inf:
        return reduce_arr(ew(T.absv, a), dim, keepdim, T.maxv)
    raise EngineGap("vector norm ord=%r" % (ord,))


@kernel("norm")
def k_norm(mo, a, p=2, dim=None, keepdim=False, dtype=None):
    return k_vnorm(mo, a, p if p is not None else 2, dim, keepdim)


@kernel("cumsum")
def k_cumsum(mo, a, dim, dtype=None):
    a = A(a)
    d = dim % a.ndim
    b = np.moveaxis(a, d, -1)
    out = np.empty(b.shape, dtype=object)
    for idx in np.ndindex(*b.shape[:-1]):
        acc = 0 if not mo.dtype.is_floating_point else Fraction(0)
        for j in range(b.shape[-1]):
            acc = T.add(acc, b[idx + (j,)])
            out[idx + (j,)] = acc
    return np.moveaxis(out, -1, d)


@kernel("var", "std")
def k_var(mo, *a, **kw):
    raise EngineGap("var/std")


# --------------------------------------------------------------------------
# shape-changing copies
# --------------------------------------------------------------------------


@kernel("cat", "concat", "_cat")
def k_cat(mo, tensors, dim=0):
    ts = [A(t) for t in tensors]
    # torch allows legacy empty 1-D tensors of shape (0,) in cat
    ts2 = [t for t in ts if not (t.ndim == 1 and t.shape[0] == 0 and len(mo.shape) != 1)]
    if not ts2:
        return np.empty(tuple(mo.shape), dtype=object)
    return np.concatenate(ts2, axis=dim)


@kernel("stack")
def k_stack(mo, tensors, dim=0):
    return np.stack([A(t) for t in tensors], axis=dim)


@kernel("repeat")
def k_repeat(mo, a, repeats):
    a = A(a)
    reps = [int(r) for r in repeats]
    return np.tile(a, reps)


@kernel("repeat_interleave")
def k_repeat_interleave(mo, *args, **kw):
    a0 = args[0]
    if len(args) == 1 or (len(args) >= 2 and args[1] is None and not isinstance(args[1], (int, np.ndarray))):
        # repeat_interleave.Tensor(repeats) -> indices
        reps = [int(x) for x in A(a0).reshape(-1)]
        out = []
        for i, r in enumerate(reps):
            out += [i] * r
        o = np.empty((len(out),), dtype=object)
        o[:] = out
        return o
    a = A(a0)
    reps = args[1]
    dim = args[2] if len(args) > 2 else kw.get("dim")
    if isinstance(reps, np.ndarray):
        reps = [int(x) for x in reps.reshape(-1)]
        if len(reps) == 1:
            reps = reps[0]
    if dim is None:
        return np.repeat(a.reshape(-1), reps)
    return np.repeat(a, reps, axis=dim)


@kernel("index_select")
def k_index_select(mo, a, dim, index):
    idx = [int(i) for i in A(index).reshape(-1)]
    return np.take(A(a), idx, axis=dim)


@kernel("gather")
def k_gather(mo, a, dim, index, sparse_grad=False):
    a = A(a)
    index = A(index)
    out = np.empty(index.shape, dtype=object)
    for idx in np.ndindex(*index.shape):
        src = list(idx)
        src[dim] = int(index[idx])
        out[idx] = a[tuple(src)]
    return out


@kernel("flip")
def k_flip(mo, a, dims):
    return np.flip(A(a), axis=tuple(dims))


@kernel("roll")
def k_roll(mo, a, shifts, dims=()):
    a = A(a)
    if not dims:
        return np.roll(a.reshape(-1), shifts[0] if isinstance(shifts, (list, tuple)) else shifts).reshape(a.shape)
    return np.roll(a, tuple(shifts), axis=tuple(dims))


@kernel("constant_pad_nd")
def k_pad(mo, a, pad, value=0):
    a = A(a)
    nd = a.ndim
    widths = [(0, 0)] * nd
    for i in range(len(pad) // 2):
        widths[nd - 1 - i] = (pad[2 * i], pad[2 * i + 1])
    out = np.empty(tuple(mo.shape), dtype=object)
    out.fill(T.exact(value) if not mo.dtype.is_floating_point else T.to_float_elem(T.exact(value)))
    src = [slice(None)] * nd
    dst = [slice(None)] * nd
    for d, (lo, hi) in enumerate(widths):
        s0 = -lo if lo < 0 else 0
        s1 = a.shape[d] + hi if hi < 0 else a.shape[d]
        src[d] = slice(s0, s1)
        d0 = lo if lo > 0 else 0
        dst[d] = slice(d0, d0 + (s1 - s0))
    out[tuple(dst)] = a[tuple(src)]
    return out


@kernel("tril")
def k_tril(mo, a, diagonal=0):
    a = A(a)
    out = a.copy()
    for idx in np.ndindex(*a.shape):
        if idx[-1] - idx[-2] > diagonal:
            out[idx] = Fraction(0)
    return out


@kernel("triu")
def k_triu(mo, a, diagonal=0):
    a = A(a)
    out = a.copy()
    for idx in np.ndindex(*a.shape):
        if idx[-1] - idx[-2] < diagonal:
            out[idx] = Fraction(0)
    return out


@kernel("slice_backward")
def k_slice_bw(mo, go, input_sizes, dim, start, end, step):
    out = np.empty(tuple(input_sizes), dtype=object)
    out.fill(Fraction(0))
    sl = [slice(None)] * len(input_sizes)
    sl[dim] = slice(start, end, step)
    out[tuple(sl)] = A(go)
    return out


@kernel("select_backward")
def k_select_bw(mo, go, input_sizes, dim, index):
    out = np.empty(tuple(input_sizes), dtype=object)
    out.fill(Fraction(0))
    sl = [slice(None)] * len(input_sizes)
    sl[dim] = index
    out[tuple(sl)] = A(go)
    return out


@kernel("slice_scatter")
def k_slice_scatter(mo, a, src, dim=0, start=None, end=None, step=1):
    out = A(a).copy()
    sl = [slice(None)] * out.ndim
    sl[dim] = slice(start, end, step)
    out[tuple(sl)] = A(src)
    return out


@kernel("select_scatter")
def k_select_scatter(mo, a, src, dim, index):
    out = A(a).copy()
    sl = [slice(None)] * out.ndim
    sl[dim] = index
    out[tuple(sl)] = A(src)
    return out


@kernel("as_strided_scatter")
def k_as_strided_scatter(mo, a, src, size, stride, storage_offset=None):
    a = A(a)
    flat = np.empty(a.size, dtype=object)
    flat[:] = a.reshape(-1)
    off = storage_offset or 0
    v = np.lib.stride_tricks.as_strided(flat[off:], shape=tuple(size), strides=tuple(8 * s for s in stride))
    v[...] = A(src)
    return flat.reshape(a.shape)


# --------------------------------------------------------------------------
# indexing (data-dependent shapes fork paths)
# --------------------------------------------------------------------------


def mask_to_indices(mask_arr):
    """bool array -> tuple of int index lists (like nonzero), deciding each element"""
    c = T.ctx()
    coords = []
    for idx in np.ndindex(*mask_arr.shape):
        if c.decide(T.truth(mask_arr[idx])):
            coords.append(idx)
    return coords


def _int_index_array(x):
    a = A(x)
    out = np.empty(a.shape, dtype=np.int64)
    for idx in np.ndindex(*a.shape):
        v = a[idx]
        if T.is_sym(v):
            v = T.ctx().decide_int(v, 0, 64)
        out[idx] = int(v)
    return out


def _expand_bool_indices(indices):
    """aten.index semantics: each bool tensor index is replaced by its nonzero columns"""
    out = []
    for ix in indices:
        if ix is None:
            out.append(None)
            continue
        if isinstance(ix, SymT) and ix.meta.dtype in (torch.bool, torch.uint8):
            coords = mask_to_indices(ix.arr())
            nd = ix.meta.dim()
            for d in range(nd):
                out.append(np.array([c[d] for c in coords], dtype=np.int64))
        else:
            out.append(_int_index_array(ix.arr() if isinstance(ix, SymT) else ix))
    return out


def _np_index(a, idxs):
    key = tuple(slice(None) if i is None else i for i in idxs)
    return key


@special("index")
def s_index(func, args, kwargs):
    self, indices = args[0], list(args[1])
    idxs = _expand_bool_indices(indices)
    a = self.arr()
    key = _np_index(a, idxs)
    res = a[key]
    # numpy and torch agree on placement of advanced-index result dims when the
    # advanced indices are adjacent; otherwise both put them first.
    res = np.asarray(res, dtype=object) if not isinstance(res, np.ndarray) else res
    return from_array(res.copy() if res.size else np.empty(res.shape, dtype=object), self.meta.dtype)


def _index_put(self, indices, values, accumulate, inplace):
    idxs = _expand_bool_indices(list(indices))
    base = self.arr() if inplace else self.arr().copy()
    key = _np_index(base, idxs)
    v = values.arr() if isinstance(values, SymT) else A(values)
    v = coerce(v, self.meta.dtype)
    if accumulate:
        # unique indices assumed unless concrete duplicates: do it element-wise
        tgt = base[key]
        vb = np.broadcast_to(v, np.shape(tgt))
        it = np.nditer(np.empty(np.shape(tgt)), flags=["multi_index"]) if np.ndim(tgt) else None
        bidx = np.broadcast_arrays(*[i for i in idxs if i is not None])
        if any(i is None for i in idxs):
            raise EngineGap("index_put accumulate with None index")
        for pos in np.ndindex(*bidx[0].shape):
            k2 = tuple(int(b[pos]) for b in bidx)
            base[k2] = ew(T.add, A(base[k2]), A(vb[pos]))[()] if np.ndim(base[k2]) == 0 else ew(T.add, base[k2], vb[pos])
    else:
        if np.size(base[key]) or True:
            base[key] = v
    if inplace:
        return self
    return from_array(base, self.meta.dtype)


@special("index_put_", "_index_put_impl_")
def s_index_put_(func, args, kwargs):
    self, indices, values = args[0], args[1], args[2]
    accumulate = args[3] if len(args) > 3 else kwargs.get("accumulate", False)
    return _index_put(self, indices, values, accumulate, True)


@special("index_put")
def s_index_put(func, args, kwargs):
    self, indices, values = args[0], args[1], args[2]
    accumulate = args[3] if len(args) > 3 else kwargs.get("accumulate", False)
    return _index_put(self, indices, values, accumulate, False)


@special("nonzero")
def s_nonzero(func, args, kwargs):
    a = args[0]
    coords = mask_to_indices(a.arr())
    out = np.empty((len(coords), a.meta.dim()), dtype=object)
    for i, c in enumerate(coords):
        for d in range(a.meta.dim()):
            out[i, d] = c[d]
    return from_array(out, torch.int64)


@special("nonzero_numpy")
def s_nonzero_numpy(func, args, kwargs):
    a = args[0]
    coords = mask_to_indices(a.arr())
    outs = []
    for d in range(max(a.meta.dim(), 1)):
        o = np.empty((len(coords),), dtype=object)
        for i, c in enumerate(coords):
            o[i] = c[d] if a.meta.dim() else 0
        outs.append(from_array(o, torch.int64))
    return tuple(outs)


@special("masked_select")
def s_masked_select(func, args, kwargs):
    a, mask = args[0], args[1]
    am, mm = np.broadcast_arrays(a.arr(), mask.arr())
    coords = mask_to_indices(mm)
    out = np.empty((len(coords),), dtype=object)
    for i, c in enumerate(coords):
        out[i] = am[c]
    return from_array(out, a.meta.dtype)


@special("_local_scalar_dense", "item")
def s_local_scalar(func, args, kwargs):
    a = args[0]
    x = a.flat()[0]
    if T.is_conc(x):
        return float(x) if isinstance(x, Fraction) else x
    if z3.is_bool(x):
        return T.ctx().decide(x)
    if z3.is_int(x):
        return T.ctx().decide_int(x, 0, 64)
    raise EngineGap("_local_scalar_dense on a symbolic real (a C-level .item())")


@special("_is_all_true")
def s_is_all_true(func, args, kwargs):
    conj = True
    for x in args[0].flat():
        conj = T.land(conj, T.truth(x))
    r = T.ctx().decide(conj)
    return scalar_tensor(r, torch.bool)


@special("_is_any_true")
def s_is_any_true(func, args, kwargs):
    dis = False
    for x in args[0].flat():
        dis = T.lor(dis, T.truth(x))
    r = T.ctx().decide(dis)
    return scalar_tensor(r, torch.bool)


@special("is_nonzero")
def s_is_nonzero(func, args, kwargs):
    return T.ctx().decide(T.truth(args[0].flat()[0]))


@special("equal")
def s_equal(func, args, kwargs):
    a, b = args[0], args[1]
    if tuple(a.meta.shape) != tuple(b.meta.shape):
        return False
    conj = True
    for x, y in zip(a.flat(), b.flat()):
        conj = T.land(conj, T.eq(x, y))
    return T.ctx().decide(conj)


@special("randperm")
def s_randperm(func, args, kwargs):
    n = args[0]
    c = T.ctx()
    # every permutation is possible: choose by decisions on fresh booleans
    remaining = list(range(n))
    perm = []
    call = len(c.rand_calls)
    while remaining:
        pick = 0
        for j in range(len(remaining) - 1):
            b = z3.Bool("perm!%d_%d_%d" % (call, len(perm), j))
            if c.decide(b, site="randperm"):
                pick = j
                break
            pick = j + 1
        perm.append(remaining.pop(pick))
    c.rand_calls.append(("perm", (n,), list(perm), None))
    o = np.empty((n,), dtype=object)
    o[:] = perm
    return from_array(o, torch.int64)


@special("normal", "normal_")
def s_normal(func, args, kwargs):
    """normal_(self, mean, std) and normal(mean, std, ...) variants: fresh
    unconstrained reals tagged with the requested law"""
    name = func._schema.name
    c = T.ctx()
    if name.endswith("normal_"):
        self = args[0]
        mean = args[1] if len(args) > 1 else kwargs.get("mean", 0)
        std = args[2] if len(args) > 2 else kwargs.get("std", 1)
        g = _rand_like(self.meta, "g", ("normal", mean, std))
        dst = self.arr()
        dst[...] = g
        return self
    mean = args[0]
    std = args[1] if len(args) > 1 else kwargs.get("std", 1)
    shape = None
    for x in (mean, std):
        if isinstance(x, SymT):
            shape = tuple(x.meta.shape) if shape is None else tuple(np.broadcast_shapes(shape, tuple(x.meta.shape)))
    if shape is None:
        shape = tuple(args[2])
    mo = meta_empty(shape, torch.get_default_dtype())
    mt = mean.arr() if isinstance(mean, SymT) else mean
    st = std.arr() if isinstance(std, SymT) else std
    g = _rand_like(mo, "g", ("normal", mt, st))
    return new_from(mo, g)


# --------------------------------------------------------------------------
# linear algebra
# --------------------------------------------------------------------------


def _matmul2(a, b):
    n, k = a.shape
    k2, m = b.shape
    out = np.empty((n, m), dtype=object)
    for i in range(n):
        for j in range(m):
            acc = Fraction(0)
            for l in range(k):
                acc = T.add(acc, T.mul(a[i, l], b[l, j]))
            out[i, j] = acc
    return out


@kernel("mm")
def k_mm(mo, a, b):
    return _matmul2(A(a), A(b))


@kernel("bmm")
def k_bmm(mo, a, b):
    a, b = A(a), A(b)
    return np.stack([_matmul2(a[i], b[i]) for i in range(a.shape[0])], axis=0) if a.shape[0] else np.empty(tuple(mo.shape), dtype=object)


@kernel("addmm")
def k_addmm(mo, bias, a, b, beta=1, alpha=1):
    r = _matmul2(A(a), A(b))
    if alpha != 1:
        r = ew(lambda x: T.mul(T.exact(alpha), x), r)
    bb = A(bias)
    if beta != 1:
        bb = ew(lambda x: T.mul(T.exact(beta), x), bb)
    return ew(T.add, bb, r)


@kernel("mv")
def k_mv(mo, a, v):
    a, v = A(a), A(v)
    return _matmul2(a, v.reshape(-1, 1)).reshape(-1)


@kernel("dot")
def k_dot(mo, a, b):
    a, b = A(a), A(b)
    return A(fold(T.add, [T.mul(x, y) for x, y in zip(a, b)], Fraction(0)))


def _det(m):
    n = m.shape[0]
    if n == 1:
        return m[0, 0]
    if n == 2:
        return T.sub(T.mul(m[0, 0], m[1, 1]), T.mul(m[0, 1], m[1, 0]))
    acc = Fraction(0)
    for j in range(n):
        minor = np.delete(np.delete(m, 0, axis=0), j, axis=1)
        t = T.mul(m[0, j], _det(minor))
        acc = T.add(acc, t) if j % 2 == 0 else T.sub(acc, t)
    return acc


def _solve(Am, B):
    """Cramer's rule; A: (n,n), B: (n,m)"""
    n = Am.shape[0]
    d = _det(Am)
    out = np.empty(B.shape, dtype=object)
    for j in range(B.shape[1]):
        for i in range(n):
            Ai = Am.copy()
            Ai[:, i] = B[:, j]
            out[i, j] = T.div(_det(Ai), d)
    return out


@kernel("_linalg_solve_ex", "linalg_solve_ex")
def k_solve_ex(mo, Am, B, left=True, check_errors=False):
    Am, B = A(Am), A(B)
    vec = B.ndim == Am.ndim - 1
    if vec:
        B = B[..., None]
    batch = np.broadcast_shapes(Am.shape[:-2], B.shape[:-2])
    Ab = np.broadcast_to(Am, batch + Am.shape[-2:])
    Bb = np.broadcast_to(B, batch + B.shape[-2:])
    out = np.empty(batch + B.shape[-2:], dtype=object)
    for idx in np.ndindex(*batch):
        out[idx] = _solve(Ab[idx].copy(), Bb[idx].copy())
    if vec:
        out = out[..., 0]
    res = [out]
    for m in list(mo)[1:]:
        z = np.empty(tuple(m.shape), dtype=object)
        z.fill(0)
        res.append(z)
    # LU output of _linalg_solve_ex is not used by callers we model
    return tuple(res)


@kernel("linalg_det", "det")
def k_det(mo, a):
    a = A(a)
    out = np.empty(a.shape[:-2], dtype=object)
    for idx in np.ndindex(*a.shape[:-2]):
        out[idx] = _det(a[idx])
    return out


@kernel("outer", "ger")
def k_outer(mo, a, b):
    a, b = A(a), A(b)
    return ew(T.mul, a[:, None], b[None, :])
