"""Case runner: symbolic execution of a case body on every path, solver
queries for its goals, vacuity twins, replay of counterexamples against the
real code, known-findings triage, evidence files, exit codes."""
from __future__ import annotations

import hashlib
import json
import math
import multiprocessing
import os
import re
import sys
import time
import traceback
from fractions import Fraction

import numpy as np
import torch
import z3
from torch.utils._python_dispatch import TorchDispatchMode

from . import term as T
from . import symt as S
from . import ops as _ops  # noqa: F401  (registers kernels)
from . import smt
from .explore import EngineGap, PathCtx, Stats, Unwound, explore

VERIF = os.path.dirname(os.path.dirname(os.path.abspath(__file__)))
# experiments against scratch worktrees (VERIF_REPO) must not overwrite the evidence of the unchanged tree
OUT = os.environ.get("VERIF_OUT") or VERIF
aten = torch.ops.aten

# --------------------------------------------------------------------------
# logic modules: the same oracle code runs on z3 terms and on floats
# --------------------------------------------------------------------------


class LSym:
    symbolic = True

    @staticmethod
    def And(*xs):
        xs = [x for x in _flat(xs)]
        if any(x is False for x in xs):
            return False
        xs = [x for x in xs if x is not True]
        if not xs:
            return True
        return z3.And(*xs) if len(xs) > 1 else xs[0]

    @staticmethod
    def Or(*xs):
        xs = [x for x in _flat(xs)]
        if any(x is True for x in xs):
            return True
        xs = [x for x in xs if x is not False]
        if not xs:
            return False
        return z3.Or(*xs) if len(xs) > 1 else xs[0]

    @staticmethod
    def Not(x):
        if isinstance(x, bool):
            return not x
        return z3.Not(x)

    @staticmethod
    def Implies(a, b):
        if isinstance(a, bool):
            return b if a else True
        if isinstance(b, bool):
            return True if b else z3.Not(a)
        return z3.Implies(a, b)

    @staticmethod
    def Iff(a, b):
        if isinstance(a, bool) and isinstance(b, bool):
            return a == b
        if isinstance(a, bool):
            return b if a else z3.Not(b)
        if isinstance(b, bool):
            return a if b else z3.Not(a)
        return a == b

    @staticmethod
    def If(c, a, b):
        if isinstance(c, bool):
            return a if c else b
        return z3.If(c, _zr(a), _zr(b))

    # comparisons with a tolerance argument (tol >= 0 widens the accepted set)
    @staticmethod
    def le(a, b, tol=0):
        return _zr(a) <= _zr(b) + _zr(tol)

    @staticmethod
    def lt(a, b):
        return _zr(a) < _zr(b)

    @staticmethod
    def ge(a, b, tol=0):
        return _zr(a) + _zr(tol) >= _zr(b)

    @staticmethod
    def gt(a, b):
        return _zr(a) > _zr(b)

    @staticmethod
    def eq(a, b, tol=0):
        if tol == 0:
            return _zr(a) == _zr(b)
        d = _zr(a) - _zr(b)
        return z3.And(d <= _zr(tol), -d <= _zr(tol))

    @staticmethod
    def ne(a, b):
        return _zr(a) != _zr(b)

    @staticmethod
    def abs(a):
        a = _zr(a)
        return z3.If(a >= 0, a, -a)

    @staticmethod
    def max(a, b):
        a, b = _zr(a), _zr(b)
        return z3.If(a >= b, a, b)

    @staticmethod
    def min(a, b):
        a, b = _zr(a), _zr(b)
        return z3.If(a <= b, a, b)

    @staticmethod
    def num(x):
        return _zr(x)

    @staticmethod
    def sqrt(x):
        return _zr(T.sqrt(_zr(x)))

    @staticmethod
    def div(a, b):
        """quotient as the engine's defined symbol (shared with the code under test when the arguments agree)"""
        return _zr(T.div(_zr(a), _zr(b)))

    @staticmethod
    def cossin(x):
        c, s = T.cossin(_zr(x) if not isinstance(x, (int, float, Fraction)) else T.exact(x))
        return _zr(c), _zr(s)

    PI = T.PI


def _zr(x):
    if isinstance(x, z3.ExprRef):
        if z3.is_int(x):
            return z3.ToReal(x)
        return x
    if isinstance(x, bool):
        return z3.RealVal(int(x))
    if isinstance(x, (int, Fraction)):
        return z3.RealVal(str(x))
    if isinstance(x, float):
        return z3.RealVal(str(Fraction(x)))
    if isinstance(x, S.SymScalar):
        return _zr(x.t)
    raise TypeError("not a number: %r" % (x,))


def _flat(xs):
    for x in xs:
        if isinstance(x, (list, tuple)):
            yield from _flat(x)
        elif hasattr(x, "__next__"):
            yield from _flat(list(x))
        else:
            yield x


class LConc:
    """float evaluation; `slack` is added in favour of the property (a goal that
    is still false is a reproduced violation)."""

    symbolic = False

    def __init__(self, slack=1e-7):
        self.slack = slack

    def And(self, *xs):
        return all(bool(x) for x in _flat(xs))

    def Or(self, *xs):
        return any(bool(x) for x in _flat(xs))

    def Not(self, x):
        return not x

    def Implies(self, a, b):
        return (not a) or bool(b)

    def Iff(self, a, b):
        return bool(a) == bool(b)

    def If(self, c, a, b):
        return a if c else b

    def _s(self, *v):
        return self.slack * max([1.0] + [abs(float(x)) for x in v])

    def le(self, a, b, tol=0):
        return float(a) <= float(b) + float(tol) + self._s(a, b)

    def lt(self, a, b):
        return float(a) < float(b) + self._s(a, b)

    def ge(self, a, b, tol=0):
        return float(a) + float(tol) + self._s(a, b) >= float(b)

    def gt(self, a, b):
        return float(a) + self._s(a, b) > float(b)

    def eq(self, a, b, tol=0):
        return abs(float(a) - float(b)) <= float(tol) + self._s(a, b)

    def ne(self, a, b):
        return float(a) != float(b)

    def abs(self, a):
        return abs(float(a))

    def max(self, a, b):
        return max(float(a), float(b))

    def min(self, a, b):
        return min(float(a), float(b))

    def num(self, x):
        return float(x)

    def sqrt(self, x):
        return math.sqrt(max(float(x), 0.0))

    def div(self, a, b):
        return float(a) / float(b)

    def cossin(self, x):
        return math.cos(float(x)), math.sin(float(x))

    PI = math.pi


# --------------------------------------------------------------------------
# environments
# --------------------------------------------------------------------------


class SymEnv:
    symbolic = True

    def __init__(self, ctx):
        self.ctx = ctx
        self.L = LSym
        self.inputs = {}  # name -> (shape, kind)

    def scalar(self, name):
        self.inputs[name] = ((), "real")
        return S.SymScalar(z3.Real(name))

    def boolean(self, name):
        """symbolic bool; bool(x) forks the path"""
        self.inputs[name] = ((), "bool")
        return S.SymScalar(z3.Bool(name))

    def integer(self, name, lo, hi):
        """symbolic int in [lo, hi]; int(x)/indexing forks, arithmetic stays symbolic"""
        self.inputs[name] = ((), "int")
        v = z3.Int(name)
        self.ctx.assume(z3.And(v >= lo, v <= hi))
        return S.SymScalar(v)

    def tensor(self, name, shape, dtype=None, requires_grad=False):
        shape = (shape,) if isinstance(shape, int) else tuple(shape)
        self.inputs[name] = (shape, "real")
        return S.symvec(name, shape, dtype, requires_grad)

    def const(self, value, dtype=None):
        """a concrete tensor (same in both modes)"""
        return S._orig_tensor(value, dtype=dtype or torch.get_default_dtype())

    def assume(self, f):
        if isinstance(f, bool):
            if not f:
                raise ValueError("assumption concretely false")
            return
        self.ctx.assume(f)

    def v(self, x):
        """element / scalar value for formulas"""
        if isinstance(x, S.SymScalar):
            return x.t if (T.is_sym(x.t) and (z3.is_bool(x.t) or z3.is_int(x.t))) else _zr(x.t)
        if isinstance(x, S.SymT):
            if x.meta.numel() == 1:
                return _zr(x.flat()[0])
            raise ValueError("v() of non-scalar")
        return _zr(x)

    def note(self, s):
        self.ctx.notes.append(s)


class ReplayEnv:
    symbolic = False

    def __init__(self, values, slack=1e-7):
        self.values = values  # name -> float / nested list
        self.L = LConc(slack)
        self.inputs = {}

    def scalar(self, name):
        return float(self.values.get(name, 0.0))

    def boolean(self, name):
        return bool(self.values.get(name, False))

    def integer(self, name, lo, hi):
        return int(self.values.get(name, lo))

    def tensor(self, name, shape, dtype=None, requires_grad=False):
        shape = (shape,) if isinstance(shape, int) else tuple(shape)
        arr = np.zeros(shape, dtype=np.float64)
        for idx in np.ndindex(*shape):
            arr[idx] = self.values.get(name + "".join("_%d" % i for i in idx), 0.0)
        t = torch.tensor(arr, dtype=torch.float64)
        if requires_grad:
            t.requires_grad_(True)
        return t

    def const(self, value, dtype=None):
        return torch.tensor(value, dtype=torch.float64 if dtype is None or dtype.is_floating_point else dtype)

    def assume(self, f):
        return

    def v(self, x):
        if isinstance(x, torch.Tensor):
            return float(x.item())
        return float(x)

    def note(self, s):
        pass


def obs_convert(o, symbolic):
    """observables -> nested lists of z3 terms (symbolic) / floats (replay)"""
    from torchphysics.problem.spaces.points import Points

    if isinstance(o, Points):
        return obs_convert(o._t, symbolic)
    if isinstance(o, S.SymT):
        def conv(a):
            if isinstance(a, list):
                return [conv(x) for x in a]
            if isinstance(a, float):  # inf / nan
                return a
            if isinstance(a, bool) or (T.is_sym(a) and z3.is_bool(a)):
                return a
            return _zr(a)

        return conv(o.arr().tolist())
    if isinstance(o, torch.Tensor):
        return o.detach().tolist()
    if isinstance(o, S.SymScalar):
        t = o.t
        return t if (T.is_sym(t) and z3.is_bool(t)) else _zr(t)
    if isinstance(o, dict):
        return {k: obs_convert(v, symbolic) for k, v in o.items()}
    if isinstance(o, (list, tuple)):
        return [obs_convert(v, symbolic) for v in o]
    return o


# --------------------------------------------------------------------------
# replay: real torch, random kernels return the model's draws
# --------------------------------------------------------------------------


class ReplayRNG(TorchDispatchMode):
    RANDOM = {"rand", "rand_like", "randn", "randn_like", "normal_", "normal", "uniform_", "randperm"}

    def __init__(self, calls):
        super().__init__()
        self.calls = list(calls)  # (kind, shape, values)
        self.pos = 0
        self.diverged = False

    def __torch_dispatch__(self, func, types, args=(), kwargs=None):
        kwargs = kwargs or {}
        name = func._schema.name.split("::", 1)[1]
        if name in self.RANDOM:
            out = func(*args, **kwargs)
            if self.pos < len(self.calls):
                kind, shape, vals = self.calls[self.pos]
                self.pos += 1
                if isinstance(out, torch.Tensor) and tuple(out.shape) == tuple(shape):
                    if kind == "perm":
                        return torch.tensor(vals, dtype=out.dtype)
                    v = torch.tensor(vals, dtype=out.dtype).reshape(out.shape)
                    if name == "uniform_":
                        lo = args[1] if len(args) > 1 else kwargs.get("from", 0.0)
                        hi = args[2] if len(args) > 2 else kwargs.get("to", 1.0)
                        v = lo + v * (hi - lo)
                    if name.endswith("_"):
                        args[0].copy_(v)
                        return args[0]
                    return v
                self.diverged = True
            else:
                self.diverged = True
            return out
        return func(*args, **kwargs)


# --------------------------------------------------------------------------
# cases
# --------------------------------------------------------------------------


class Case:
    """One configuration of a property.

    body(env) -> observables; goals(o, L, env_inputs) -> iterable of (name, formula).
    """

    def __init__(self, name, body, goals, family=None, params=None, allowed_exc=(), expect_exc=None,
                 unwind=2, max_paths=64, max_decisions=48, max_forks_per_site=6, timeout_ms=None,
                 check_obligations=True, budget_s=None, nontrivial=True, int_hi=12, split=()):
        self.split = tuple(split)
        self.name = name
        self.body = body
        self.goals = goals
        self.family = family or name.split("/")[0]
        self.params = params or {}
        self.allowed_exc = tuple(allowed_exc)
        self.expect_exc = expect_exc
        self.unwind = unwind
        self.max_paths = max_paths
        self.max_decisions = max_decisions
        self.max_forks_per_site = max_forks_per_site
        self.timeout_ms = timeout_ms
        self.check_obligations = check_obligations
        self.budget_s = budget_s
        self.nontrivial = nontrivial
        self.int_hi = int_hi
        self.must_terminate = False  # termination twin: replay a path beyond the unwinding bound with a wall-clock limit
        self.setup = None  # optional callable run in the case's own process before the body (e.g. solver knobs)


FUNCS_SEEN = set()
_MON = [None]
EXTRA_RUNGS = ()  # additional proof-ladder rungs, opt-in per check module: "cone-strong"


def _start_monitor():
    try:
        mon = sys.monitoring
        tid = 4
        try:
            mon.use_tool_id(tid, "symtorch")
        except ValueError:
            pass

        def on_start(code, off):
            fn = code.co_filename
            if "/torchphysics/" in fn:
                FUNCS_SEEN.add(fn.split("/torchphysics/", 1)[1] + ":" + code.co_qualname)
            return mon.DISABLE

        mon.register_callback(tid, mon.events.PY_START, on_start)
        mon.set_events(tid, mon.events.PY_START)
        _MON[0] = tid
    except Exception:
        pass


def _model_inputs(model, env_inputs):
    vals = {}
    for name, (shape, kind) in env_inputs.items():
        if kind == "bool":
            vals[name] = bool(T.model_float(model, z3.Bool(name)))
        elif kind == "int":
            vals[name] = int(T.model_float(model, z3.Int(name)))
        elif kind == "bv":  # bounded int encoded as a bit-vector of width `shape` (symint.bvint)
            vals[name] = model.eval(z3.BitVec(name, shape), model_completion=True).as_signed_long()
        elif shape == ():
            vals[name] = T.model_float(model, z3.Real(name))
        else:
            for idx in np.ndindex(*shape):
                nm = name + "".join("_%d" % i for i in idx)
                vals[nm] = T.model_float(model, z3.Real(nm))
    return vals


class ParticleModel:
    """a concrete witness of the path exploration (exact rationals / floats per base variable) presented with the small
    part of the z3 model interface that _model_inputs / _model_rand use"""

    def __init__(self, particle):
        self.p = particle

    def eval(self, t, model_completion=True):
        name = t.decl().name() if z3.is_const(t) else None
        v = self.p.get(name, 0) if name is not None else 0
        if z3.is_bool(t):
            return z3.BoolVal(bool(v))
        if z3.is_bv(t):
            return z3.BitVecVal(int(v), t.size())
        if z3.is_int(t):
            return z3.IntVal(int(v))
        fr = v if isinstance(v, Fraction) else Fraction(float(v)).limit_denominator(10 ** 12)
        return z3.RealVal(str(fr))


def _grid_model(hyps, g, ctx, env, qs, step=16, timeout_ms=6000):
    """a model of hyps and not g in which every real input symbol and every random draw is k/step for an integer k"""
    try:
        names = []
        for name, (shape, kind) in (env.inputs.items() if env is not None else []):
            if kind != "real":
                continue
            if shape == ():
                names.append(z3.Real(name))
            else:
                names += [z3.Real(name + "".join("_%d" % i for i in idx)) for idx in np.ndindex(*shape)]
        for kind, shape, vs, extra in ctx.rand_calls:
            if kind != "perm":
                names += [v for v in vs if isinstance(v, z3.ExprRef) and z3.is_real(v)]
        if not names or len(names) > 400:
            return None
        extra = []
        for i, v in enumerate(names):
            k = z3.Int("grid!%d" % i)
            extra.append(v * step == z3.ToReal(k))
        verdict, model, _ = smt.check_sat(list(hyps) + [z3.Not(g)] + extra, timeout_ms, qs)
        return model if verdict == "sat" else None
    except z3.Z3Exception:
        return None


def _model_rand(model, ctx):
    calls = []
    for kind, shape, vs, extra in ctx.rand_calls:
        if kind == "perm":
            calls.append((kind, shape, list(vs)))
        else:
            calls.append((kind, shape, [T.model_float(model, v) for v in vs]))
    return calls


def replay_case(case, values, rand_calls, slack=1e-7):
    """run the real code with float64 tensors -> dict(exc, obs, goals, diverged)"""
    env = ReplayEnv(values, slack)
    old = torch.get_default_dtype()
    torch.set_default_dtype(torch.float64)
    rng = ReplayRNG(rand_calls)
    out = {"exc": None, "obs": None, "goals": [], "diverged": False, "nonfinite": False}
    import warnings

    try:
        with warnings.catch_warnings():
            warnings.simplefilter("ignore")
            with rng:
                try:
                    o = case.body(env)
                except Exception as e:  # the code under test raised
                    out["exc"] = e
                    out["tb"] = traceback.format_exc()
                    o = None
        out["diverged"] = rng.diverged
        if o is not None:
            oc = obs_convert(o, False)
            out["obs"] = oc
            out["nonfinite"] = _has_nonfinite(oc)
            try:
                out["goals"] = [(n, bool(f)) for n, f in case.goals(oc, env.L, env)]
            except Exception as e:
                out["goal_exc"] = repr(e)
    finally:
        torch.set_default_dtype(old)
    return out


class _RemoteExc(Exception):
    pass


class Replayer:
    """Replays run in a process forked BEFORE the symbolic exploration of the case (and in a fresh fork of it per replay):
    module-level state of the code under test (memo tables, lru_caches, class attributes) that the exploration -- or an
    earlier replay -- filled with symbolic or stale values never reaches a replay."""

    def __init__(self, case):
        import pickle
        self.pickle = pickle
        self.req_r, self.req_w = os.pipe()
        self.res_r, self.res_w = os.pipe()
        self.pid = os.fork()
        if self.pid == 0:
            try:
                os.close(self.req_w)
                os.close(self.res_r)
                self._serve(case)
            finally:
                os._exit(0)
        os.close(self.req_r)
        os.close(self.res_w)

    @staticmethod
    def _read(fd):
        import struct
        hdr = b""
        while len(hdr) < 8:
            c = os.read(fd, 8 - len(hdr))
            if not c:
                return None
            hdr += c
        n = struct.unpack("<Q", hdr)[0]
        buf = b""
        while len(buf) < n:
            c = os.read(fd, min(1 << 20, n - len(buf)))
            if not c:
                return None
            buf += c
        return buf

    @staticmethod
    def _write(fd, data):
        import struct
        os.write(fd, struct.pack("<Q", len(data)))
        view = memoryview(data)
        while len(view):
            k = os.write(fd, view[: 1 << 16])
            view = view[k:]

    def _serve(self, case):
        while True:
            raw = self._read(self.req_r)
            if raw is None:
                return
            values, rand, slack, limit = self.pickle.loads(raw)
            r, w = os.pipe()
            pid = os.fork()
            if pid == 0:
                try:
                    os.close(r)
                    try:
                        rp = replay_case(case, values, rand, slack)
                        e = rp["exc"]
                        out = dict(exc=None if e is None else (type(e).__name__, str(e)[:2000]), obs=_short(rp["obs"], 2000),
                                   goals=rp["goals"], diverged=rp["diverged"], nonfinite=rp["nonfinite"], goal_exc=rp.get("goal_exc", ""))
                    except BaseException as e2:  # harness trouble
                        out = dict(harness=repr(e2))
                    self._write(w, self.pickle.dumps(out))
                finally:
                    os._exit(0)
            os.close(w)
            data = None
            if limit:
                import select
                ready, _, _ = select.select([r], [], [], limit)
                if not ready:  # the real code did not return within the limit: kill it, report a hang
                    try:
                        os.kill(pid, 9)
                    except OSError:
                        pass
                    data = self.pickle.dumps(dict(hang=True))
            if data is None:
                data = self._read(r)
            os.close(r)
            try:
                os.waitpid(pid, 0)
            except OSError:
                pass
            self._write(self.res_w, data if data is not None else self.pickle.dumps(dict(harness="replay process died")))

    def replay(self, values, rand, slack, limit=None):
        # every replay has a wall-clock limit: real code that does not return (e.g. rejection sampling from an empty
        # set) must not leave an orphaned process behind; without an explicit limit a hang is a harness problem
        explicit = limit is not None
        self._write(self.req_w, self.pickle.dumps((values, rand, slack, limit if explicit else REPLAY_LIMIT_S)))
        raw = self._read(self.res_r)
        if raw is None:
            raise RuntimeError("replayer died")
        out = self.pickle.loads(raw)
        if out.get("hang"):
            if explicit:
                return out
            raise RuntimeError("the real code did not return within %d s during a replay" % REPLAY_LIMIT_S)
        if "harness" in out:
            raise RuntimeError(out["harness"])
        if out["exc"] is not None:
            nm, msg = out["exc"]
            out["exc"] = type(nm, (_RemoteExc,), {})(msg)
        return out

    def close(self):
        for fd in (self.req_w, self.res_r):
            try:
                os.close(fd)
            except OSError:
                pass
        try:
            os.waitpid(self.pid, 0)
        except OSError:
            pass


_REPLAYER = [None]
TERMINATION_LIMIT_S = 30
REPLAY_LIMIT_S = 120


def _has_nonfinite(o):
    if isinstance(o, float):
        return o != o or o in (math.inf, -math.inf)
    if isinstance(o, dict):
        return any(_has_nonfinite(v) for v in o.values())
    if isinstance(o, (list, tuple)):
        return any(_has_nonfinite(v) for v in o)
    return False


def _short(x, n=300):
    s = str(x)
    return s if len(s) <= n else s[:n] + "..."


def run_case(case, cfg):
    """-> report dict (picklable)"""
    rpl = None
    try:
        rpl = Replayer(case)
    except OSError:
        rpl = None
    _REPLAYER[0] = rpl
    try:
        return _run_case(case, cfg)
    finally:
        _REPLAYER[0] = None
        if rpl is not None:
            rpl.close()


def _run_case(case, cfg):
    t_start = time.time()
    qs = smt.QStats()
    est = Stats()
    timeout_ms = case.timeout_ms or cfg["timeout_ms"]
    budget = case.budget_s or cfg["case_budget_s"]
    S.SymScalar.INT_HI = case.int_hi
    if getattr(case, "setup", None):
        case.setup()
    rep = dict(name=case.name, family=case.family, params=case.params, paths=0, path_status={}, goals=0,
               unsat=0, sat=0, unknown=0, violations=[], inconclusive=[], vacuous=False, gaps=[], unwound=0,
               leftover=0, replays=0, goal_names={}, pcs=[], sample=None, notes=[])
    env_box = {}

    def fn(ctx):
        env = SymEnv(ctx)
        env_box["env"] = env
        ctx.env = env
        with S.patched_torch():
            o = case.body(env)
            oc = obs_convert(o, True)
        return oc, env

    results, leftover = explore(fn, unwind=case.unwind, max_paths=case.max_paths, max_decisions=case.max_decisions,
                                feas_timeout_ms=cfg["feas_timeout_ms"], stats=est,
                                max_forks_per_site=case.max_forks_per_site, split=case.split,
                                deadline=t_start + budget * 0.6, path_budget_s=max(10.0, budget * 0.25))
    rep["leftover"] = leftover
    rep["paths"] = len(results)
    reached = False
    if getattr(case, "must_terminate", False) and _REPLAYER[0] is not None and (time.time() - t_start) < budget * 0.7:
        # termination twin: a path that exceeded the unwinding bound is replayed once on the real code with inputs on
        # the grid Z/16 (no degenerate configurations) and the model's draws followed by real random numbers; if the real
        # code does not return within TERMINATION_LIMIT_S it does not terminate for these inputs
        for r in results:
            prem = getattr(r.ctx, "termination_premise", None)  # e.g. "the set to sample from has an interior point"
            if r.status != "unwound" or getattr(r.ctx, "env", None) is None or prem is None:
                continue
            m = _grid_model(r.ctx.hyps(weak=True) + [prem], z3.BoolVal(False), r.ctx, r.ctx.env, qs, timeout_ms=4000)
            if m is None:
                continue
            values, rand = _model_inputs(m, r.ctx.env.inputs), _model_rand(m, r.ctx)
            try:
                out = _REPLAYER[0].replay(values, rand, cfg.get("replay_slack", 1e-7), limit=TERMINATION_LIMIT_S)
            except Exception:
                break
            rep["replays"] += 1
            if out.get("hang"):
                rep["violations"].append(dict(goal="terminates", inputs=values, rand=[(k, list(sh_), v) for k, sh_, v in rand],
                                              reproduced=True, case=case.name, family=case.family,
                                              detail="the real code did not return within %d s for these inputs (a path beyond "
                                                     "the unwinding bound, replayed)" % TERMINATION_LIMIT_S))
            break
    for pi, r in enumerate(results):
        rep["path_status"][r.status] = rep["path_status"].get(r.status, 0) + 1
        ctx = r.ctx
        rep["notes"] += ctx.notes
        if r.status == "unwound":
            rep["unwound"] += 1
            continue
        if r.status == "gap":
            rep["gaps"].append(_short(r.exc) + " @ " + _short((r.tb or "").strip().splitlines()[-3:] , 400))
            continue
        if r.status == "infeasible":
            continue
        over_budget = (time.time() - t_start) > budget
        T.set_ctx(ctx)
        try:
            pre_goals, pre_gap = None, None
            if r.status == "ok" and not case.expect_exc:
                try:
                    pre_goals = list(case.goals(r.value[0], LSym, r.value[1]))
                except EngineGap as e:
                    pre_gap = e
        finally:
            T.set_ctx(None)
        if pre_gap is not None:
            rep["gaps"].append("goals: " + _short(pre_gap))
            continue
        hyps = ctx.hyps()
        # ---- vacuity twin: the path condition + assumptions + axioms must be satisfiable
        if over_budget:
            rep["inconclusive"].append(dict(path=pi, goal="*", why="case budget exhausted"))
            continue
        v, m_path = _reach(ctx, hyps, timeout_ms, qs)
        if v == "unsat":
            rep["path_status"]["vacuous"] = rep["path_status"].get("vacuous", 0) + 1
            continue
        if v in ("sat", "unknown"):
            reached = True  # only a proven-unsat path condition makes a path vacuous
            if v == "unknown":
                rep["inconclusive"].append(dict(path=pi, goal="<reachability twin>", why="satisfiability of the path hypotheses unknown"))
        pch = hashlib.sha1(("|".join(str(h) for h in sorted(p.hash() for p in ctx.pc))).encode()).hexdigest()[:12]
        rep["pcs"].append(pch)
        env = None
        goals = []
        if r.status == "raised":
            e = r.exc
            if case.expect_exc and isinstance(e, case.expect_exc):
                goals = []  # expected rejection
                rep["path_status"]["rejected_as_expected"] = rep["path_status"].get("rejected_as_expected", 0) + 1
            elif isinstance(e, case.allowed_exc):
                goals = []
            else:
                # raising on a feasible path is a violation of "no exception"; confirm feasibility, replay
                if v == "sat" and m_path is None:
                    m_path = _witness_model(ctx)
                if v == "sat" and m_path is not None:
                    env = env_box.get("env")
                    viol = _confirm(case, "no_exception", m_path, ctx, env, exc=e, tb=r.tb, cfg=cfg)
                    rep["replays"] += 1
                    rep["violations"].append(viol)
                else:
                    rep["inconclusive"].append(dict(path=pi, goal="no_exception", why="path feasibility unknown: %s" % _short(e)))
                continue
        else:
            oc, env = r.value
            if case.expect_exc:
                goals = [("expected_exception_%s" % getattr(case.expect_exc, "__name__", "exc"), False)]
            else:
                goals = pre_goals
        if case.check_obligations and r.status == "ok":
            for (t, msg, where, npc) in ctx.obligations:
                goals.append(("defined[%s @ %s]" % (msg, where), t))
        if rep["sample"] is None and goals:
            rep["sample"] = dict(path_condition=[_short(p.sexpr(), 160) for p in ctx.pc[:6]], goal=goals[0][0],
                                 formula=_short(goals[0][1], 400), rand_calls=len(ctx.rand_calls),
                                 axioms=len(ctx.axioms))
        seen_formula = set()
        for gi, (gname, g) in enumerate(goals):
            if (time.time() - t_start) > budget:
                rep["inconclusive"].append(dict(path=pi, goal=gname, why="case budget exhausted"))
                continue
            key = (gname, g.get_id() if isinstance(g, z3.ExprRef) else g)
            if key in seen_formula:
                continue
            seen_formula.add(key)
            rep["goals"] += 1
            rep["goal_names"][_gfam(gname)] = rep["goal_names"].get(_gfam(gname), 0) + 1
            verdict, model, dt = "unknown", None, 0.0
            weak_model = None
            if isinstance(g, z3.ExprRef):
                # proof ladder: each rung uses WEAKER hypotheses than the full set, so unsat is a proof.
                # (1) definitional cone of the goal, no path condition; (2) cone + path condition;
                # (3) all hypotheses with relaxed defining axioms; (4) everything.
                base = list(T.PI_AXIOMS) + ctx.assumptions
                cone_w = ctx.cone([g], weak=True)
                rungs = [("cone", base + cone_w)]
                if "cone-strong" in EXTRA_RUNGS and ctx.has_weak:  # opt-in (C06): the goal's cone with the FULL defining axioms
                    rungs.append(("cone-strong", base + ctx.cone([g], weak=False)))
                if ctx.pc:
                    rungs.append(("cone+pc", base + ctx.cone([g] + ctx.pc, weak=True) + ctx.pc))
                if ctx.has_weak:
                    rungs.append(("relaxed", ctx.hyps(weak=True)))
                for rname, rh in rungs:
                    if len(rh) >= len(hyps) and rname != "relaxed":
                        continue
                    verdict, weak_model, dt = smt.prove(rh, g, max(timeout_ms // 4, 2000), qs)
                    if verdict == "unsat":
                        rep.setdefault("ladder", {})
                        rep["ladder"][rname] = rep["ladder"].get(rname, 0) + 1
                        break
                    if rname != "relaxed":
                        weak_model = None
            if verdict != "unsat":
                verdict, model, dt = smt.prove(hyps, g, timeout_ms, qs)
            if verdict == "unknown" and weak_model is not None:
                # candidate from the relaxed query: the real code is the arbiter
                viol = _confirm(case, gname, weak_model, ctx, env, goal_index=gi, cfg=cfg,
                                obligation=gname.startswith("defined["))
                rep["replays"] += 1
                if viol["reproduced"]:
                    rep["sat"] += 1
                    viol["detail"] += " (candidate from relaxed query, confirmed on the real code)"
                    rep["violations"].append(viol)
                    continue
            if verdict == "unknown" and isinstance(g, z3.ExprRef):
                # last rung: cubes of the negated goal, each refuted with all hypotheses (see smt.prove_split)
                verdict, model, dt2 = smt.prove_split(hyps, g, max(timeout_ms * 2, 20000), qs)
                dt += dt2
                if verdict == "unsat":
                    rep.setdefault("ladder", {})
                    rep["ladder"]["split"] = rep["ladder"].get("split", 0) + 1
            if verdict == "unknown" and isinstance(g, z3.ExprRef) and hasattr(ctx, "particles"):
                try:
                    ctx._replenish()
                except Exception:
                    pass
                # the solver could not decide: a concrete witness of this path on which the goal evaluates to FALSE is a
                # candidate counterexample -- the real code is the arbiter (replay), the solver verdict stays "unknown"
                for part in list(ctx.particles)[:6]:
                    try:
                        if ctx._consistent(part) and ctx._peval(g, part) is False:
                            viol = _confirm(case, gname, ParticleModel(part), ctx, env, goal_index=gi, cfg=cfg,
                                            obligation=gname.startswith("defined["))
                            rep["replays"] += 1
                            if viol["reproduced"]:
                                viol["detail"] += " (solver inconclusive; concrete witness of the path exploration, confirmed on the real code)"
                                rep["sat"] += 1
                                rep["violations"].append(viol)
                                verdict = "witness"
                                break
                    except Exception:
                        continue
                if verdict == "witness":
                    continue
            if verdict == "unsat":
                rep["unsat"] += 1
                if cfg.get("cross") and len(qs.cross) < cfg["cross_per_case"] and isinstance(g, z3.ExprRef):
                    smt.cross_check(hyps + [z3.Not(g)], "unsat", case.name + ":" + gname, qs, cfg["cross_cap_s"])
            elif verdict == "unknown":
                rep["unknown"] += 1
                if os.environ.get("VERIF_DUMP_UNKNOWN") and isinstance(g, z3.ExprRef):  # debugging aid
                    dn = os.environ["VERIF_DUMP_UNKNOWN"]
                    os.makedirs(dn, exist_ok=True)
                    with open(os.path.join(dn, re.sub(r"[^A-Za-z0-9_.-]+", "_", case.name + "__" + gname)[:180] + ".smt2"), "w") as f:
                        f.write(smt.to_smt2(hyps + [z3.Not(g)]))
                rep["inconclusive"].append(dict(path=pi, goal=gname, why="solver unknown/timeout %.1fs" % dt))
            else:
                rep["sat"] += 1
                viol = _confirm(case, gname, model, ctx, env, goal_index=gi, cfg=cfg,
                                obligation=gname.startswith("defined["))
                rep["replays"] += 1
                if not viol["reproduced"] and isinstance(g, z3.ExprRef) and not viol.get("reproduced_as_exception"):
                    # the solver's witness may sit on a knife edge (a != b answered with |a-b| = 1e-18, lost in float
                    # rounding): ask once more for a witness whose real inputs and draws lie on the grid Z/16
                    m2 = _grid_model(hyps, g, ctx, env, qs)
                    if m2 is not None:
                        v2 = _confirm(case, gname, m2, ctx, env, goal_index=gi, cfg=cfg, obligation=gname.startswith("defined["))
                        rep["replays"] += 1
                        if v2["reproduced"]:
                            v2["detail"] += " (witness on the grid Z/16)"
                            viol = v2
                    if not viol["reproduced"] and hasattr(ctx, "particles"):
                        # ... or a concrete witness of the path exploration on which the goal evaluates to false
                        try:
                            ctx._replenish()
                        except Exception:
                            pass
                        for part in list(ctx.particles)[:8]:
                            try:
                                if ctx._consistent(part) and ctx._peval(g, part) is False:
                                    v3 = _confirm(case, gname, ParticleModel(part), ctx, env, goal_index=gi, cfg=cfg,
                                                  obligation=gname.startswith("defined["))
                                    rep["replays"] += 1
                                    if v3["reproduced"]:
                                        v3["detail"] += " (concrete witness of the path exploration)"
                                        viol = v3
                                        break
                            except Exception:
                                continue
                if viol.get("replay_hung") and not viol["reproduced"]:
                    rep["sat"] -= 1
                    rep["unknown"] += 1
                    rep["inconclusive"].append(dict(path=pi, goal=gname, why="counterexample candidate could not be replayed: " + viol["detail"]))
                else:
                    rep["violations"].append(viol)
    n_live = sum(rep["path_status"].get(k, 0) for k in ("ok", "raised"))
    if n_live and not reached and not rep["gaps"] and rep["path_status"].get("vacuous", 0) >= n_live:
        if rep["unwound"] or rep["leftover"]:
            # the completed paths were speculative (the feasibility solver over-approximates) and the feasible ones
            # ran into the unwinding / path bound: nothing was decided -- inconclusive, not an inconsistent harness
            rep["inconclusive"].append(dict(path=-1, goal="*", why="no feasible path completed within the bounds (%d unwound, %d "
                                            "not explored, %d completed paths infeasible)" % (rep["unwound"], rep["leftover"], n_live)))
        else:
            rep["vacuous"] = True  # every path of a complete exploration has provably unsatisfiable hypotheses
    rep["q"] = qs.as_dict()
    rep["cross"] = qs.cross
    rep["feas_queries"] = est.feas_queries
    rep["feas_s"] = round(est.feas_time, 3)
    rep["wall_s"] = round(time.time() - t_start, 3)
    rep["funcs"] = sorted(FUNCS_SEEN)
    rep["ops"] = dict(S.OPS_SEEN)
    rep["fallbacks"] = dict(S.FALLBACKS)
    rep["pi_lifted"] = dict(T.PI_LIFTED)
    return rep


_DEFINED = ("sqrt!", "quot!", "cos!", "sin!", "root", "floor!", "ceil!", "trunc!", "arccos!", "undef_")


def _reach(ctx, hyps, timeout_ms, qs):
    """reachability twin: are the path hypotheses satisfiable?  Falls back to fixing the base
    variables (inputs, random draws) to a model of the relaxed hypotheses, which leaves only the
    defined symbols (sqrt, quotients, ...) for the solver."""
    # a concrete witness carried along the path (assumptions and path condition evaluated exactly /
    # with a float margin; defined symbols computed from their definitions) shows reachability
    if getattr(ctx, "particles", None):
        ctx._replenish(0)
        live = [p for p in ctx.particles if ctx._consistent(p)]
        if live:
            qs.reach_by_witness = getattr(qs, "reach_by_witness", 0) + 1
            return "sat", None
    # the path's own incremental solver has already seen all hypotheses: cheapest first
    try:
        t0 = time.time()
        ctx.solver.set("timeout", max(timeout_ms // 4, 2000))
        from .explore import guarded_check
        r0 = guarded_check(ctx.solver, max(timeout_ms // 4, 2000))
        qs.n += 1
        qs.time += time.time() - t0
        if r0 == z3.sat and not ctx.has_weak:
            qs.sat += 1
            return "sat", ctx.solver.model()
        if r0 == z3.unsat:  # the path solver over-approximates: unsat there is unsat
            qs.unsat += 1
            return "unsat", None
        qs.unknown += 1
    except z3.Z3Exception:
        pass
    v, m, _ = smt.check_sat(hyps, max(timeout_ms // 4, 2000), qs, strategies=("nlsat", "default"))
    if v != "unknown" or not ctx.has_weak:
        return v, m
    vw, mw, _ = smt.check_sat(ctx.hyps(weak=True), max(timeout_ms // 4, 2000), qs, strategies=("nlsat", "default"))
    if vw != "sat":
        return v, m
    fv = {}
    for h in hyps:
        T.free_vars(h, fv)
    eqs = []
    for name, var in fv.items():
        if name.startswith(_DEFINED) or name == "pi" or not z3.is_real(var):
            continue
        val = mw.eval(var, model_completion=True)
        if z3.is_algebraic_value(val):
            val = val.approx(12)
        eqs.append(var == val)
    v2, m2, _ = smt.check_sat(list(hyps) + eqs, max(timeout_ms // 4, 2000), qs, strategies=("nlsat", "default"))
    if v2 == "sat":
        return "sat", m2
    return v, m


class _DictModel:
    """adapter: a concrete witness (dict name -> value) used like a z3 model by the replay code"""

    def __init__(self, p):
        self.p = p

    def eval(self, t, model_completion=True):
        name = t.decl().name()
        v = self.p.get(name, 0)
        if isinstance(v, bool):
            return z3.BoolVal(v)
        if z3.is_int(t):
            return z3.IntVal(int(v))
        return z3.RealVal(str(Fraction(v)) if not isinstance(v, float) else str(Fraction(v)))


def _witness_model(ctx):
    for p in ctx.particles:
        if ctx._consistent(p):
            return _DictModel(p)
    return None


def _gfam(g):
    return re.sub(r"\[.*$", "", g)


def _confirm(case, gname, model, ctx, env, goal_index=None, exc=None, tb=None, cfg=None, obligation=False):
    """replay a solver counterexample against the real code"""
    values = _model_inputs(model, env.inputs) if env is not None else {}
    rand = _model_rand(model, ctx)
    viol = dict(goal=gname, inputs=values, rand=[(k, list(s), v) for k, s, v in rand], reproduced=False,
                detail="", case=case.name, family=case.family)
    try:
        if _REPLAYER[0] is not None:
            rp = _REPLAYER[0].replay(values, rand, cfg.get("replay_slack", 1e-7))
        else:
            rp = replay_case(case, values, rand, cfg.get("replay_slack", 1e-7))
    except Exception as e:  # harness trouble during replay
        viol["detail"] = "replay harness error: %r" % (e,)
        if "did not return within" in str(e):
            # e.g. rejection sampling from a set that is empty for the witness: nothing can be concluded from it
            viol["replay_hung"] = True
        return viol
    if exc is not None:
        if rp["exc"] is not None and type(rp["exc"]).__name__ == type(exc).__name__:
            viol["reproduced"] = True
            viol["detail"] = "real code raises %s: %s" % (type(exc).__name__, _short(rp["exc"], 200))
        else:
            viol["detail"] = "symbolic path raised %s (%s) but the real run %s" % (
                type(exc).__name__, _short(exc, 200), "raised %r" % rp["exc"] if rp["exc"] else "did not raise")
            viol["symbolic_tb"] = (tb or "")[-1500:]
        return viol
    if rp["exc"] is not None:
        viol["detail"] = "real run raised %r" % (rp["exc"],)
        viol["reproduced_as_exception"] = True
        return viol
    if obligation:
        if rp["nonfinite"]:
            viol["reproduced"] = True
            viol["detail"] = "real code returns non-finite values"
        else:
            viol["detail"] = "definedness obligation fails symbolically but real outputs are finite"
        return viol
    gl = rp["goals"]
    match = None
    if goal_index is not None and goal_index < len(gl) and gl[goal_index][0] == gname:
        match = gl[goal_index]
    else:
        for n, ok in gl:
            if n == gname:
                match = (n, ok)
                break
    if match is None:
        viol["detail"] = "goal not present in replay (path diverged=%s) %s" % (rp["diverged"], rp.get("goal_exc", ""))
        return viol
    if not match[1]:
        viol["reproduced"] = True
        viol["detail"] = "goal false on the real code (float64, slack applied)"
        viol["observed"] = _short(rp["obs"], 600)
    else:
        viol["detail"] = "goal holds on the real code for the model's inputs (knife-edge or encoding issue)"
        viol["observed"] = _short(rp["obs"], 600)
    return viol


# --------------------------------------------------------------------------
# check driver
# --------------------------------------------------------------------------

TIERS = {
    "quick": dict(timeout_ms=20000, feas_timeout_ms=400, case_budget_s=150, cross=True, cross_per_case=1, cross_cap_s=20,
                  cross_cases=6),
    # wall_s: wall-clock budget of the whole run; cases not started by then are reported as not run (never as passed)
    "thorough": dict(timeout_ms=120000, feas_timeout_ms=2000, case_budget_s=900, cross=True, cross_per_case=2, cross_cap_s=60,
                     cross_cases=24, wall_s=3 * 3600),
}

_CASES = []
_CFG = {}


def _worker(i):
    torch.set_num_threads(1)
    case = _CASES[i]
    cfg = dict(_CFG)
    cfg["cross"] = _CFG["cross"] and i in _CFG["cross_idx"]
    try:
        return i, run_case(case, cfg)
    except BaseException as e:  # harness failure
        return i, dict(name=case.name, family=case.family, params=case.params, harness_error=repr(e),
                       tb=traceback.format_exc()[-3000:])


def _child(i, conn):
    try:
        r = _worker(i)
        conn.send(r)
    except BaseException as e:  # noqa
        try:
            conn.send((i, dict(name=_CASES[i].name, family=_CASES[i].family, params=_CASES[i].params,
                               harness_error="worker failed: %r" % (e,), tb=traceback.format_exc()[-2000:])))
        except Exception:
            pass
    finally:
        conn.close()
        os._exit(0)


def _run_parallel(reports, jobs, cfg):
    """one forked process per case, hard wall-clock limit, survives crashing/hanging workers"""
    ctxm = multiprocessing.get_context("fork")
    pending = list(range(len(_CASES)))
    running = {}  # i -> (proc, conn, t0, limit)

    def dead(i, why):
        return (i, dict(name=_CASES[i].name, family=_CASES[i].family, params=_CASES[i].params, harness_error=why))

    wall = float(os.environ.get("VERIF_WALL_S") or cfg.get("wall_s") or 0)
    deadline = time.time() + wall if wall else None
    while pending or running:
        if deadline and pending and time.time() > deadline:
            for i in pending:
                reports[i] = dict(name=_CASES[i].name, family=_CASES[i].family, params=_CASES[i].params,
                                  skipped="not started within the tier's wall-clock budget of %ds" % wall)
            pending = []
        while pending and len(running) < jobs:
            i = pending.pop(0)
            pc, cc = ctxm.Pipe(duplex=False)
            p = ctxm.Process(target=_child, args=(i, cc))
            p.daemon = True
            p.start()
            cc.close()
            budget = _CASES[i].budget_s or cfg["case_budget_s"]
            running[i] = (p, pc, time.time(), max(4 * budget, 420))
        done = []
        for i, (p, pc, t0, limit) in running.items():
            got = None
            try:
                if pc.poll(0):
                    got = pc.recv()
            except (EOFError, OSError):
                got = dead(i, "worker died (exit code %s)" % p.exitcode)
            if got is None and not p.is_alive():
                try:
                    got = pc.recv() if pc.poll(0.2) else dead(i, "worker died (exit code %s)" % p.exitcode)
                except (EOFError, OSError):
                    got = dead(i, "worker died (exit code %s)" % p.exitcode)
            if got is None and time.time() - t0 > limit:
                p.kill()
                got = dead(i, "worker exceeded the hard wall-clock limit of %ds and was killed" % limit)
            if got is not None:
                reports[i] = got[1]
                done.append(i)
        for i in done:
            p, pc, _, _ = running.pop(i)
            try:
                pc.close()
            except Exception:
                pass
            p.join(timeout=1)
            if p.is_alive():
                p.kill()
        if not done:
            time.sleep(0.02)


def _selftest_in_child():
    if os.environ.get("VERIF_SKIP_SELFTEST"):
        return []
    ctxm = multiprocessing.get_context("fork")
    pc, cc = ctxm.Pipe(duplex=False)

    def work(conn):
        try:
            torch.set_num_threads(1)
            from . import selftest
            conn.send(selftest.run())
        except BaseException as e:  # noqa
            conn.send(["selftest crashed: %r" % (e,)])
        finally:
            conn.close()
            os._exit(0)

    p = ctxm.Process(target=work, args=(cc,))
    p.start()
    cc.close()
    out = ["selftest did not answer"]
    if pc.poll(300):
        try:
            out = pc.recv()
        except EOFError:
            pass
    p.join(timeout=5)
    if p.is_alive():
        p.kill()
    return out


def _selftest_count():
    try:
        from . import selftest
        return len(selftest.CASES)
    except Exception:
        return 0


def load_known(prop):
    p = os.path.join(VERIF, "known_findings.json")
    if not os.path.exists(p):
        return []
    with open(p) as f:
        data = json.load(f)
    return [e for e in data.get("findings", []) if e.get("property") == prop]


def match_known(entries, viol):
    for e in entries:
        if e.get("status") != "known":
            continue
        if re.search(e["case"], viol["case"]) and re.search(e["goal"], viol["goal"]):
            return e
    return None


def run_check(prop, cases, tier, meta, seed=0, only=None, jobs=None):
    """meta: dict(level, functions(list), assumptions(list), bounds(str), outside(list), rule(str))"""
    global _CASES, _CFG
    t0 = time.time()
    if only:
        cases = [c for c in cases if re.search(only, c.name)]
    cfg = dict(TIERS[tier])
    n_cross = cfg["cross_cases"]
    import random

    rnd = random.Random(seed)
    idxs = list(range(len(cases)))
    cross_idx = set(rnd.sample(idxs, min(n_cross, len(idxs))))
    cfg["cross_idx"] = cross_idx
    _CASES, _CFG = cases, cfg
    # translator validation of the kernel table (forked child, so the parent stays torch-idle before forking)
    st_fail = _selftest_in_child()
    _start_monitor()
    jobs = jobs or int(os.environ.get("VERIF_JOBS", "16"))
    reports = [None] * len(cases)
    if jobs > 1 and len(cases) > 1:
        _run_parallel(reports, jobs, cfg)
    else:
        for i in range(len(cases)):
            reports[i] = _worker(i)[1]

    known = load_known(prop)
    harness_errors, viol_new, viol_known, not_repro, gaps, vacuous = [], [], [], [], [], []
    tot = dict(paths=0, goals=0, unsat=0, sat=0, unknown=0, queries=0, solver_s=0.0, replays=0, unwound=0, leftover=0,
               feas_queries=0, feas_s=0.0, cross=0, cross_dis=0)
    funcs, ops, fallbacks, pcs, pil = set(), {}, {}, set(), {}
    inconclusive = []
    samples = []
    skipped = [r["name"] for r in reports if r.get("skipped")]
    reports = [r for r in reports if not r.get("skipped")]
    for rep in reports:
        if "harness_error" in rep:
            harness_errors.append(rep)
            continue
        for k in ("paths", "goals", "unsat", "sat", "unknown", "replays", "unwound", "leftover", "feas_queries"):
            tot[k] += rep[k]
        tot["queries"] += rep["q"]["queries"]
        tot["solver_s"] += rep["q"]["solver_s"]
        tot["feas_s"] += rep["feas_s"]
        tot["cross"] += rep["q"]["cross_checked"]
        tot["cross_dis"] += rep["q"]["cross_disagreements"]
        funcs.update(rep["funcs"])
        pil.update(rep["pi_lifted"])
        for k, v in rep["ops"].items():
            ops[k] = ops.get(k, 0) + v
        for k, v in rep["fallbacks"].items():
            fallbacks[k] = fallbacks.get(k, 0) + v
        for h in rep["pcs"]:
            pcs.add((rep["name"], h))
        if rep["gaps"]:
            gaps.append((rep["name"], rep["gaps"]))
        if rep["vacuous"]:
            vacuous.append(rep["name"])
        for inc in rep["inconclusive"]:
            inconclusive.append(dict(case=rep["name"], **inc))
        for v in rep["violations"]:
            if v["reproduced"]:
                e = match_known(known, v)
                (viol_known if e else viol_new).append((v, e))
            else:
                not_repro.append(v)
        if rep["sample"] is not None and len(samples) < 6:
            samples.append(dict(case=rep["name"], params=rep["params"], paths=rep["paths"], goals=rep["goals"],
                                verdicts=dict(unsat=rep["unsat"], sat=rep["sat"], unknown=rep["unknown"]),
                                wall_s=rep["wall_s"], **rep["sample"]))

    # ---- output ------------------------------------------------------
    rdir = os.path.join(OUT, "replays", prop)
    os.makedirs(rdir, exist_ok=True)
    exit_code = 0
    printed_known = set()
    for v, e in viol_known:
        if e["id"] not in printed_known:
            printed_known.add(e["id"])
            print("KNOWN-FINDING: property=%s %s [%s] (case %s, goal %s)" % (prop, e["what"], e["id"], v["case"], v["goal"]))
    seen = set()
    for v, _ in viol_new:
        key = (v["family"], _gfam(v["goal"]))
        path = os.path.join(rdir, re.sub(r"[^A-Za-z0-9_.-]+", "_", v["case"] + "__" + v["goal"])[:150] + ".json")
        with open(path, "w") as f:
            json.dump(dict(property=prop, tier=tier, **{k: v[k] for k in v}), f, indent=1, default=str)
        if key in seen:
            continue
        seen.add(key)
        print("VIOLATION property=%s replay=%s" % (prop, path))
        print("   case=%s goal=%s: %s" % (v["case"], v["goal"], v["detail"]))
        exit_code = 1
    for v in not_repro:
        print("NOT-REPRODUCED (harness issue, not reported as violation): case=%s goal=%s: %s" % (v["case"], v["goal"], v["detail"]))
    for name, g in gaps:
        print("ENGINE-GAP case=%s: %s" % (name, g[0]))
    for rep in harness_errors:
        print("HARNESS-ERROR case=%s: %s\n%s" % (rep["name"], rep["harness_error"], rep.get("tb", "")))
    for name in vacuous:
        print("VACUOUS case=%s (no path reached its assertions)" % name)
    if tot["cross_dis"]:
        print("SOLVER-DISAGREEMENT: %d cross-checked queries disagree" % tot["cross_dis"])
    for f in st_fail:
        print("KERNEL-SELFTEST-FAILURE: %s" % f)
    if skipped:
        print("NOT-RUN: %d of %d cases were not started within the tier's wall-clock budget (listed in the evidence file)" % (len(skipped), len(cases)))
    if exit_code == 0 and (harness_errors or vacuous or tot["cross_dis"] or not_repro or gaps or st_fail):
        exit_code = 2

    distinct = len(pcs)
    wall = time.time() - t0
    n_cases_ok = sum(1 for r in reports if "harness_error" not in r)
    coverage = dict(
        states=max(tot["paths"], 1),
        transitions=max(tot["queries"] + tot["feas_queries"], 1),
        traces_validated_against_impl=tot["replays"],
        samples=samples or [dict(note="no goal evaluated")],
        evaluations=max(tot["goals"], 1),
        distinct_nontrivial=max(distinct, 0),
        rule=meta.get("rule", "a case is one configuration x bound; it is executed symbolically on every feasible "
                              "decision sequence (path); distinct_nontrivial counts distinct (case, path-condition hash) "
                              "pairs whose assertions were handed to the solver with at least one symbolic variable"),
        exhaustive=False,
        cases=n_cases_ok,
        cases_not_run=len(skipped),
        cases_not_run_names=skipped[:60],
        paths=tot["paths"],
        paths_unwound=tot["unwound"],
        paths_not_explored=tot["leftover"],
        goals_checked=tot["goals"],
        queries=dict(assertion=tot["queries"], feasibility=tot["feas_queries"], unsat=tot["unsat"], sat=tot["sat"],
                     unknown=tot["unknown"], cross_checked=tot["cross"], cross_disagreements=tot["cross_dis"]),
        solver_seconds=round(tot["solver_s"] + tot["feas_s"], 2),
        inconclusive=inconclusive[:40],
        inconclusive_count=len(inconclusive),
        functions_encoded=sorted(funcs),
        aten_ops_seen=ops,
        concrete_fallback_ops=fallbacks,
        pi_lifted_constants=pil,
        bounds=meta.get("bounds", ""),
        outside_claim=meta.get("outside", []),
        known_findings_hit=sorted(printed_known),
        kernel_selftest=dict(expressions=_selftest_count(), failures=len(st_fail)),
        not_reproduced=len(not_repro),
        engine_gaps=[g[0] for g in gaps][:10],
        per_case=[dict(name=r["name"], paths=r.get("paths"), goals=r.get("goals"), unsat=r.get("unsat"), sat=r.get("sat"),
                       unknown=r.get("unknown"), unwound=r.get("unwound"), wall_s=r.get("wall_s"))
                  for r in reports if "harness_error" not in r],
    )
    ev = dict(property_id=prop, tier=tier, seed=int(seed), level=meta.get("level", "model_checking"), coverage=coverage,
              assumptions=meta.get("assumptions", []) + COMMON_ASSUMPTIONS, wall_s=round(wall, 2),
              violations=len(viol_new))
    os.makedirs(os.path.join(OUT, "evidence"), exist_ok=True)
    with open(os.path.join(OUT, "evidence", prop + ".json"), "w") as f:
        json.dump(ev, f, indent=1, default=str)
    print("%s %s: cases=%d paths=%d goals=%d unsat=%d sat=%d unknown=%d unwound=%d replays=%d known=%d new=%d wall=%.1fs exit=%d"
          % (prop, tier, len(cases), tot["paths"], tot["goals"], tot["unsat"], tot["sat"], tot["unknown"], tot["unwound"],
             tot["replays"], len(viol_known), len(viol_new), wall, exit_code))
    return exit_code


COMMON_ASSUMPTIONS = [
    "floating-point tensors are modelled as mathematical reals; rounding, overflow and the float32/float64 distinction are outside the claim",
    "ATen kernels are modelled by their mathematical definition (symtorch/ops.py); geometry/dtype/aliasing of results is taken from running the same op on meta tensors",
    "rand/rand_like draws are arbitrary reals in [0,1); normal draws arbitrary reals; randperm any permutation",
    "sqrt/cos/sin/arccos/roots are fresh symbols with defining axioms (s>=0, s*s=a; c*c+s*s=1; ...), tanh/exp/sigmoid uninterpreted",
    "float literals equal to the nearest double of k*pi/m are read as that multiple of the symbol pi (3.14159265358979323 < pi < 3.14159265358979324)",
    "z3 5.1 decides; a sample of queries is re-run through z3 4.8.12 and cvc5 1.0.3 binaries",
    "shapely/trimesh-backed primitives are excluded (C code on concrete arrays)",
]


def replay_file(path, cases):
    with open(path) as f:
        d = json.load(f)
    by = {c.name: c for c in cases}
    case = by.get(d["case"])
    if case is None:
        print("case %s not found" % d["case"])
        return 2
    if d["goal"] == "terminates":
        import signal

        def _alarm(*a):
            print("replay of %s goal terminates\n  the real code did not return within %d s\n  violation reproduced: True" % (d["case"], TERMINATION_LIMIT_S))
            os._exit(1)

        signal.signal(signal.SIGALRM, _alarm)
        signal.alarm(TERMINATION_LIMIT_S)
    rp = replay_case(case, d["inputs"], [(k, tuple(s), v) for k, s, v in d["rand"]])
    if d["goal"] == "terminates":
        signal.alarm(0)
        print("replay of %s goal terminates\n  the real code returned\n  violation reproduced: False" % d["case"])
        return 0
    print("replay of %s goal %s" % (d["case"], d["goal"]))
    print("  inputs:", d["inputs"])
    print("  exception:", repr(rp["exc"]))
    print("  observables:", _short(rp["obs"], 1000))
    bad = [n for n, ok in rp["goals"] if not ok]
    print("  goals false:", bad)
    hit = (d["goal"] in bad) or (rp["exc"] is not None and d["goal"] == "no_exception") or (
        d["goal"].startswith("defined[") and rp["nonfinite"])
    print("  violation reproduced:", hit)
    return 1 if hit else 0
