"""Solver queries with bookkeeping, model extraction and second-solver cross checks."""
from __future__ import annotations

import os
import subprocess
import tempfile
import time

import z3

from . import term as T


class QStats:
    def __init__(self):
        self.n = 0
        self.unsat = 0
        self.sat = 0
        self.unknown = 0
        self.time = 0.0
        self.cross = []  # (tag, z3py, z3bin, cvc5)
        self.cross_disagree = 0

    def merge(self, o):
        self.n += o.n
        self.unsat += o.unsat
        self.sat += o.sat
        self.unknown += o.unknown
        self.time += o.time
        self.cross += o.cross
        self.cross_disagree += o.cross_disagree

    def as_dict(self):
        return dict(queries=self.n, unsat=self.unsat, sat=self.sat, unknown=self.unknown, solver_s=round(self.time, 3),
                    cross_checked=len(self.cross), cross_disagreements=self.cross_disagree)


def _mk_solver(kind, timeout_ms):
    if kind == "default":
        s = z3.Solver()
    elif kind == "nlsat":
        s = z3.Tactic("qfnra-nlsat").solver()
    elif kind == "smt":
        s = z3.Tactic("smt").solver()
    elif kind == "nlsat-vo5":  # nlsat, variable ordering strategy 5 (sqrt/quotient chains: 0.1 s where the default order needs > 30 s)
        s = z3.Then("simplify", "propagate-values", z3.With("qfnra-nlsat", variable_ordering_strategy=5)).solver()
    elif kind == "nlsat-noreorder":  # nlsat in creation order = definitional (triangular) order of the defined symbols
        s = z3.Then("simplify", "propagate-values", z3.With("qfnra-nlsat", reorder=False)).solver()
    else:
        s = z3.SolverFor(kind)
    s.set("timeout", int(timeout_ms))
    return s


PRE_STRATEGIES = ()  # ((kind, ms), ...) tried before `strategies`; opt-in, set by a check module (C06)


def check_sat(formulas, timeout_ms=20000, stats=None, strategies=("default", "nlsat")):
    """-> (verdict str, model|None, seconds)"""
    t0 = time.time()
    verdict, model = "unknown", None
    shares = {"default": 0.7, "nlsat": 0.3}
    tot = sum(shares.get(k, 0.5) for k in strategies)
    plan = list(PRE_STRATEGIES) + [(k, max(int(timeout_ms * shares.get(k, 0.5) / tot), 1000)) for k in strategies]
    for kind, per in plan:
        try:
            s = _mk_solver(kind, per)
            for f in formulas:
                s.add(f)
            from .explore import guarded_check
            r = guarded_check(s, per)
        except z3.Z3Exception:
            continue
        if r == z3.unsat:
            verdict = "unsat"
            break
        if r == z3.sat:
            verdict = "sat"
            model = s.model()
            break
    dt = time.time() - t0
    if stats is not None:
        stats.n += 1
        stats.time += dt
        setattr(stats, verdict, getattr(stats, verdict) + 1)
    return verdict, model, dt


def prove(hyps, goal, timeout_ms=20000, stats=None):
    """is goal valid under hyps?  'unsat' == proved; 'sat' == counterexample model"""
    if isinstance(goal, bool):
        if goal:
            if stats is not None:
                stats.n += 1
                stats.unsat += 1
            return "unsat", None, 0.0
        goal = z3.BoolVal(False)
    return check_sat(list(hyps) + [z3.Not(goal)], timeout_ms, stats)


def prove_split(hyps, goal, budget_ms=30000, stats=None, max_cubes=2048, per_ms=5000):
    """Last rung of the proof ladder: the NEGATED goal is put into cubes (z3 tactics simplify, nnf, split-clause -- the
    disjunction of the cubes is equivalent to it) and every cube is refuted together with the hypotheses by nlsat.
    unsat: every cube refuted (a proof); sat: a cube has a model (a model of the original query); else unknown."""
    t0 = time.time()
    verdict, model = "unknown", None
    try:
        if len(z3.Not(goal).sexpr()) > 60000:  # very large goals: the cube expansion itself can exhaust memory
            raise z3.Z3Exception("goal too large for cube splitting")
        g = z3.Goal()
        g.add(z3.Not(goal))
        subs = z3.Then("simplify", "nnf", z3.Repeat(z3.OrElse("split-clause", "skip"), 11))(g)
        if 0 < len(subs) <= max_cubes:
            from .explore import guarded_check
            verdict = "unsat"
            for sg in subs:
                left = budget_ms - (time.time() - t0) * 1000
                if left <= 0:
                    verdict = "unknown"
                    break
                per = int(min(per_ms, max(left, 500)))
                sv = z3.Then("simplify", "propagate-values", "solve-eqs", "qfnra-nlsat").solver()
                sv.set("timeout", per)
                for h in hyps:
                    sv.add(h)
                sv.add(sg.as_expr())
                r = guarded_check(sv, per)
                if r == z3.sat:
                    verdict, model = "sat", sv.model()
                    break
                if r != z3.unsat:
                    verdict = "unknown"
                    break
    except z3.Z3Exception:
        verdict, model = "unknown", None
    dt = time.time() - t0
    if stats is not None:
        stats.n += 1
        stats.time += dt
        setattr(stats, verdict, getattr(stats, verdict) + 1)
        stats.split = getattr(stats, "split", 0) + 1
    return verdict, model, dt


def to_smt2(formulas):
    s = z3.Solver()
    for f in formulas:
        s.add(f)
    return "(set-logic ALL)\n" + s.to_smt2()


def cross_check(formulas, expected, tag, stats, cap_s=30):
    """run the same query through the z3 4.8.12 and cvc5 binaries; a sat/unsat
    disagreement is recorded (and makes the check exit 2)."""
    txt = to_smt2(formulas)
    res = {}
    d = tempfile.mkdtemp(prefix="symtorch_x_")
    p = os.path.join(d, "q.smt2")
    try:
        with open(p, "w") as f:
            f.write(txt)
        for name, cmd in (("z3bin", ["/usr/bin/z3", "-T:%d" % cap_s, p]), ("cvc5", ["cvc5", "--tlimit=%d" % (cap_s * 1000), p])):
            try:
                out = subprocess.run(cmd, capture_output=True, text=True, timeout=cap_s + 10).stdout
            except Exception as e:  # noqa
                out = "error %s" % e
            v = "unknown"
            if "(error" in out or out.startswith("error"):
                v = "error"
            else:
                for line in out.splitlines():
                    line = line.strip()
                    if line in ("sat", "unsat", "unknown", "timeout"):
                        v = "unknown" if line == "timeout" else line
                        break
            res[name] = v
    finally:
        try:
            os.remove(p)
            os.rmdir(d)
        except OSError:
            pass
    stats.cross.append((tag, expected, res.get("z3bin"), res.get("cvc5")))
    for v in res.values():
        if v in ("sat", "unsat") and expected in ("sat", "unsat") and v != expected:
            stats.cross_disagree += 1
    return res
